//! p2_gen — project shapes for C24 / C25, built on top of `vproj`.
//!
//! `vproj::gen_project` yields one project under `src/` with a known item and
//! file reference graph.  This layer adds, without touching vproj:
//!
//! * several `sources` directories (`["src", "rtl"]`, `["hw/a", "hw/b"]`), the
//!   default (`sources` omitted = project root) and the deprecated `source`
//!   field; files are moved between them (the model only uses `rel` as a key);
//! * equal file names in different directories / different `sources` dirs,
//!   with the two *known colliding shapes* (C25 findings) either excluded by
//!   construction (renamed, counted) or forced on purpose at a low rate;
//! * 0–2 path dependency projects (siblings `../dep_x` or nested
//!   `vendor/dep_x`, optionally one depending on the other, optionally under an
//!   alias key), each a vproj project with globally unique item names;
//! * "extra" files rendered here: modules of the root project that use items
//!   of a dependency (`key::Pkg::C`, `import key::Pkg::*`, `inst u: key::Mod`)
//!   and of the root project, a user of `$std::ram`, and a module of one
//!   dependency that uses the other.  Nothing references an extra file and an
//!   extra file only references model files, so the file-level graph stays
//!   acyclic (veryl panics on mutually dependent files, known C06 side finding).
//!
//! Everything is drawn from the `Draw` it is given.

use std::collections::{BTreeMap, BTreeSet};
use std::path::PathBuf;
use vcore::Draw;
use vproj::cli::Workspace;
use vproj::genp::{GenOpts, gen_project};
use vproj::model::*;
use vproj::toml::{Target, TomlCfg};

#[derive(Clone, Debug, PartialEq, Eq, PartialOrd, Ord, Hash)]
pub enum Owner {
    Root,
    Dep(usize),
    /// a file of the standard library, `rel` relative to the std source dir
    Std,
}

#[derive(Clone, Debug, PartialEq, Eq, PartialOrd, Ord, Hash)]
pub struct FileId {
    pub owner: Owner,
    pub rel: String,
}

impl FileId {
    pub fn root(rel: &str) -> FileId {
        FileId {
            owner: Owner::Root,
            rel: rel.to_string(),
        }
    }
    pub fn show(&self) -> String {
        match &self.owner {
            Owner::Root => self.rel.clone(),
            Owner::Dep(i) => format!("dep{i}:{}", self.rel),
            Owner::Std => format!("$std:{}", self.rel),
        }
    }
}

#[derive(Clone, Debug, PartialEq)]
pub enum SourcesCfg {
    /// `sources = ["src"]`
    Src,
    /// `sources = [a, b]`
    Two(String, String),
    /// `sources` omitted: the project root
    Root,
    /// deprecated `source = "src"`
    Deprecated,
}

impl SourcesCfg {
    pub fn dirs(&self) -> Vec<String> {
        match self {
            SourcesCfg::Src | SourcesCfg::Deprecated => vec!["src".into()],
            SourcesCfg::Two(a, b) => vec![a.clone(), b.clone()],
            SourcesCfg::Root => vec!["".into()],
        }
    }
    pub fn toml_line(&self) -> String {
        match self {
            SourcesCfg::Src => "sources = [\"src\"]\n".into(),
            SourcesCfg::Two(a, b) => format!("sources = [\"{a}\", \"{b}\"]\n"),
            SourcesCfg::Root => String::new(),
            SourcesCfg::Deprecated => "source = \"src\"\n".into(),
        }
    }
    pub fn label(&self) -> &'static str {
        match self {
            SourcesCfg::Src => "sources=[src]",
            SourcesCfg::Two(..) => "sources=two-dirs",
            SourcesCfg::Root => "sources=default-root",
            SourcesCfg::Deprecated => "source=deprecated-field",
        }
    }
}

/// A file rendered by this layer (not part of a vproj model).
#[derive(Clone, Debug)]
pub struct Extra {
    pub rel: String,
    pub text: String,
    /// model items it references (file-level references are derived from
    /// where the items live *now*: files may be renamed after this is drawn)
    pub item_refs: BTreeSet<(Owner, ItemId)>,
    /// extra modules of a dependency it instantiates: (dep index, extra index)
    pub link_refs: BTreeSet<(usize, usize)>,
    /// std files it references (relative to the std source dir)
    pub std_refs: BTreeSet<String>,
    pub wildcard: bool,
    pub clocked: bool,
    /// source-level names of the modules it defines
    pub defines: Vec<String>,
}

#[derive(Clone, Debug)]
pub struct Dep {
    /// key in `[dependencies]` of the project that names it = namespace
    pub key: String,
    /// directory relative to the ROOT project directory (`../dep_a`, `vendor/dep_a`)
    pub dir: String,
    pub prj: Project,
    pub extra: Vec<Extra>,
    /// `[dependencies]` of this dependency: (key, index into deps)
    pub deps: Vec<(String, usize)>,
    /// listed in the root project's `[dependencies]`
    pub direct: bool,
}

#[derive(Clone, Debug)]
pub struct P2Opts {
    pub gopts: GenOpts,
    pub multi_sources: bool,
    pub deps: bool,
    /// weights of 0 / 1 / 2 dependency projects
    pub dep_weights: [u32; 3],
    /// per-mille of cases with 1-3 alias-only files (`alias module X = Mod;`):
    /// they hold no module/package/interface, `sort_filelist` appends them
    pub alias_per_mille: u32,
    /// per-mille of cases where two modules in different files carry the same
    /// kind of warning (equal message, different place)
    pub twin_warning_per_mille: u32,
    /// per-mille of cases with the standard library included (slow: ~50 files)
    pub std_per_mille: u32,
    /// per-mille of cases where a known colliding shape is forced (if the
    /// configuration allows one)
    pub collide_per_mille: u32,
    /// add a wildcard import to the root project when it has none
    pub ensure_wildcard: bool,
    /// per-mille of cases in which every file holds exactly one definition
    /// (files with several definitions trigger a known C25 ordering finding)
    pub single_def_per_mille: u32,
    /// per-mille of cases in which every generic definition is instantiated
    /// with one argument only (several specialisations requested from
    /// different files trigger a known C24 finding)
    pub unify_generics_per_mille: u32,
}

#[derive(Clone, Debug)]
pub struct P2Project {
    pub root: Project,
    pub sources: SourcesCfg,
    pub deps: Vec<Dep>,
    pub extra: Vec<Extra>,
    /// colliding output paths avoided by renaming a file (known C25 findings)
    pub excluded_collisions: u32,
    /// a known colliding shape was generated on purpose
    pub forced_collision: Option<&'static str>,
    pub std_user: bool,
    /// every model file holds one definition
    pub single_def: bool,
    /// every generic definition has one specialisation only
    pub unified_generics: bool,
    /// projects whose generic arguments closed a file-level cycle (constant
    /// arguments replaced by literals; veryl panics on such projects in some
    /// processing orders: known finding)
    pub excluded_hidden_cycles: u32,
}

fn norm_join(a: &str, b: &str) -> String {
    if a.is_empty() { b.to_string() } else { format!("{a}/{b}") }
}

fn file_name(rel: &str) -> &str {
    rel.rsplit('/').next().unwrap_or(rel)
}

fn parent_dir(rel: &str) -> &str {
    match rel.rfind('/') {
        Some(p) => &rel[..p],
        None => "",
    }
}

/// (index of the source dir, path relative to it) of a root file.
pub fn src_relative(dirs: &[String], rel: &str) -> Option<(usize, String)> {
    // longest matching source dir (they are never nested here)
    let mut best: Option<(usize, String)> = None;
    for (i, d) in dirs.iter().enumerate() {
        if d.is_empty() {
            if best.is_none() {
                best = Some((i, rel.to_string()));
            }
        } else if let Some(r) = rel.strip_prefix(&format!("{d}/")) {
            best = Some((i, r.to_string()));
        }
    }
    best
}

/// Items of `p` an extra module may reference: live, placed in a live
/// non-example file.
fn placed(p: &Project, id: ItemId) -> Option<String> {
    let fi = p.file_of(id)?;
    let f = &p.files[fi];
    if !f.alive || f.is_example() || !p.items[id].alive {
        return None;
    }
    Some(f.rel.clone())
}

#[derive(Default)]
struct Body {
    text: String,
    items: BTreeSet<(Owner, ItemId)>,
    links: BTreeSet<(usize, usize)>,
    wildcard: bool,
    clocked: bool,
    imported: bool,
}

/// Add 1..=n references to items of project `p` (namespace prefix `ns`, e.g.
/// `"dep_a::"` or `""`) to a module body.
#[allow(clippy::too_many_arguments)]
fn add_refs(d: &mut Draw, p: &Project, owner: &Owner, ns: &str, n: usize, uid: &mut u32, b: &mut Body, unify: bool) {
    let pkgs: Vec<ItemId> = p.packages(false).into_iter().filter(|x| placed(p, *x).is_some()).collect();
    let gpkgs: Vec<ItemId> = p.packages(true).into_iter().filter(|x| placed(p, *x).is_some()).collect();
    let mods: Vec<ItemId> = p
        .modules()
        .into_iter()
        .filter(|x| placed(p, *x).is_some())
        .filter(|x| p.module(*x).modport.is_none())
        .collect();
    for _ in 0..n {
        *uid += 1;
        let k = *uid;
        match d.weighted(&[4, 5, 1]) {
            0 if !mods.is_empty() => {
                let c = mods[d.below_usize(mods.len())];
                let m = p.module(c);
                let ci = &p.items[c];
                let garg = if m.generic {
                    Some(if unify { unified_module_arg(p, c) } else { *d.pick(&[8u32, 4, 16]) })
                } else {
                    None
                };
                let cw = match (&m.width, garg) {
                    (Width::Generic, Some(g)) => g.to_string(),
                    (Width::Generic, None) => "8".to_string(),
                    (Width::Lit(n), _) => n.to_string(),
                    (Width::Const(q, c), _) => {
                        b.items.insert((owner.clone(), *q));
                        format!("{ns}{}", p.const_path(*q, *c))
                    }
                };
                let mut conns: Vec<(String, String)> = vec![];
                if m.clocked {
                    b.clocked = true;
                    conns.push(("clk".into(), "clk".into()));
                    conns.push(("rst".into(), "rst".into()));
                }
                for (n, port) in m.ins.iter().enumerate() {
                    if port.default.is_some() && k % 2 == 0 {
                        continue;
                    }
                    b.text.push_str(&format!("    let _px{k}_{n}: logic<{cw}> = {};\n", (k + n as u32) % 5));
                    conns.push((port.name.clone(), format!("_px{k}_{n}")));
                }
                for (n, port) in m.outs.iter().enumerate() {
                    b.text.push_str(&format!("    var _py{k}_{n}: logic<{cw}>;\n"));
                    conns.push((port.name.clone(), format!("_py{k}_{n}")));
                }
                let mut head = format!("    inst _pu{k}: {ns}{}", ci.name);
                if let Some(g) = garg {
                    head.push_str(&format!("::<{g}>"));
                }
                b.text.push_str(&head);
                b.text.push_str(" (\n");
                for (pn, v) in conns {
                    b.text.push_str(&format!("        {pn}: {v},\n"));
                }
                b.text.push_str("    );\n");
                b.items.insert((owner.clone(), c));
            }
            1 if !pkgs.is_empty() => {
                let q = pkgs[d.below_usize(pkgs.len())];
                let pk = p.pkg(q);
                let c = d.below_usize(pk.consts.len());
                let cn = &pk.consts[c].name;
                let path = format!("{ns}{}", p.const_path(q, c));
                let mut kind = d.weighted(&[3, 3, 2, 3, 2, 2]);
                if (kind == 2 || kind == 3) && b.imported {
                    kind = 0;
                }
                match kind {
                    1 => b.text.push_str(&format!("    let _pw{k}: logic<{path}> = 0;\n")),
                    2 => {
                        b.imported = true;
                        b.text = format!("    import {path};\n{}    let _pi{k}: u32 = {cn};\n", b.text);
                    }
                    3 => {
                        b.imported = true;
                        b.wildcard = true;
                        b.text = format!(
                            "    import {ns}{}::*;\n{}    let _pj{k}: u32 = {cn};\n",
                            p.items[q].name, b.text
                        );
                    }
                    4 if pk.ty.is_some() => {
                        let t = pk.ty.clone().unwrap();
                        b.text.push_str(&format!("    let _pt{k}: {ns}{}::{t} = 0;\n", p.items[q].name));
                    }
                    5 if pk.func.is_some() => {
                        let f = pk.func.clone().unwrap();
                        b.text.push_str(&format!(
                            "    let _pf{k}: logic<8> = {ns}{}::{f}(8'd{});\n",
                            p.items[q].name,
                            k % 100
                        ));
                    }
                    _ => b.text.push_str(&format!("    let _pc{k}: u32 = {path};\n")),
                }
                b.items.insert((owner.clone(), q));
            }
            2 if !gpkgs.is_empty() => {
                let q = gpkgs[d.below_usize(gpkgs.len())];
                b.text.push_str(&format!(
                    "    let _pg{k}: u32 = {ns}{}::<{}>::{};\n",
                    p.items[q].name,
                    if unify { unified_pkg_arg(p, q) } else { *d.pick(&[3u32, 2, 5]) },
                    p.pkg(q).consts[0].name
                ));
                b.items.insert((owner.clone(), q));
            }
            _ => {}
        }
    }
}

fn finish_module(name: &str, b: Body) -> String {
    let mut o = format!("module {name} ");
    if b.clocked {
        o.push_str("(\n    clk: input clock,\n    rst: input reset,\n) ");
    }
    o.push_str("{\n");
    o.push_str(&b.text);
    o.push_str("}\n");
    o
}

const STD_USER: &str = "module P2StdUser {
    inst u: $std::ram (
        i_clk : 0,
        i_rst : 0,
        i_clr : 0,
        i_mea : 0,
        i_wea : 0,
        i_adra: 0,
        i_da  : 0,
        i_meb : 0,
        i_adrb: 0,
        o_qb  : _,
    );
}
";

fn rename_items(p: &mut Project, prefix: &str) {
    for it in p.items.iter_mut() {
        it.name = format!("{prefix}{}", it.name);
    }
}

pub fn gen_p2(d: &mut Draw, o: &P2Opts) -> P2Project {
    let mut root = gen_project(d, &o.gopts);
    root.cfg.incremental = false;
    // an exhausted choice sequence yields 0 = the simplest alternative (std excluded)
    root.cfg.exclude_std = !(o.std_per_mille > 0 && d.below(1000) >= 1000 - o.std_per_mille);
    if o.ensure_wildcard {
        ensure_wildcard(d, &mut root);
    }
    if o.twin_warning_per_mille > 0 && d.below(1000) < o.twin_warning_per_mille {
        let mods: Vec<ItemId> = root.modules().into_iter().filter(|m| placed(&root, *m).is_some()).collect();
        if mods.len() >= 2 {
            let a = mods[d.below_usize(mods.len())];
            let b = mods[d.below_usize(mods.len())];
            if a != b && root.file_of(a) != root.file_of(b) {
                for m in [a, b] {
                    let k = root.fresh();
                    root.module_mut(m).inj.push(Inject::WarnShift(k));
                }
            }
        }
    }
    let unified_generics = o.unify_generics_per_mille > 0 && d.below(1000) < o.unify_generics_per_mille;
    if unified_generics {
        unify_generic_args(&mut root);
    }
    let single_def = o.single_def_per_mille > 0 && d.below(1000) < o.single_def_per_mille;
    if single_def {
        split_files(d, &mut root, &o.gopts);
    }
    let mut excluded_hidden_cycles = break_hidden_generic_cycles(&mut root);

    // ---------------------------------------------------------------- sources
    let sources = if o.multi_sources {
        match d.weighted(&[4, 4, 2, 1, 1]) {
            0 => SourcesCfg::Src,
            1 => SourcesCfg::Two("src".into(), "rtl".into()),
            2 => SourcesCfg::Two("hw/a".into(), "hw/b".into()),
            3 => SourcesCfg::Root,
            _ => SourcesCfg::Deprecated,
        }
    } else {
        SourcesCfg::Src
    };
    let dirs = sources.dirs();
    for f in root.files.iter_mut() {
        if f.is_example() {
            continue;
        }
        let Some(rest) = f.rel.strip_prefix("src/").map(|x| x.to_string()) else {
            continue;
        };
        match &sources {
            SourcesCfg::Src | SourcesCfg::Deprecated => {}
            SourcesCfg::Two(a, b) => {
                let dir = if d.chance(1, 2) { b } else { a };
                f.rel = format!("{dir}/{rest}");
            }
            SourcesCfg::Root => {
                // some files directly under the project root / another top-level directory
                match d.weighted(&[3, 1, 1]) {
                    0 => {}
                    1 => f.rel = rest,
                    _ => f.rel = format!("rtl/{rest}"),
                }
            }
        }
    }

    // ----------------------------------------------------------- dependencies
    let mut deps: Vec<Dep> = vec![];
    let n_deps = if o.deps { d.weighted(&o.dep_weights) } else { 0 };
    for i in 0..n_deps {
        let gopts = GenOpts {
            min_items: 2,
            max_items: 5,
            max_files: 3,
            generics: true,
            examples: true,
            tests: true,
            sv: false,
            dup_names: true,
            loose_per_mille: 0,
            warn_per_mille: 0,
        };
        let mut prj = gen_project(d, &gopts);
        let name = ["dep_a", "dep_b"][i];
        prj.cfg = TomlCfg::basic(name);
        prj.cfg.incremental = false;
        rename_items(&mut prj, &format!("D{i}"));
        if unified_generics {
            unify_generic_args(&mut prj);
        }
        if single_def {
            split_files(d, &mut prj, &gopts);
        }
        excluded_hidden_cycles += break_hidden_generic_cycles(&mut prj);
        let key = if d.chance(1, 3) { ["liba", "libb"][i].to_string() } else { name.to_string() };
        let dir = if d.chance(1, 3) { format!("vendor/{name}") } else { format!("../{name}") };
        deps.push(Dep {
            key,
            dir,
            prj,
            extra: vec![],
            deps: vec![],
            direct: true,
        });
    }
    let mut uid = 0u32;
    let mk_extra = |rel: String, name: &str, b: Body| -> Extra {
        Extra {
            rel,
            item_refs: b.items.clone(),
            link_refs: b.links.clone(),
            std_refs: BTreeSet::new(),
            wildcard: b.wildcard,
            clocked: b.clocked,
            defines: vec![name.to_string()],
            text: finish_module(name, b),
        }
    };
    if deps.len() == 2 && d.chance(1, 2) {
        // dep 0 uses dep 1; dep 1 may then be invisible from the root
        let key1 = if d.chance(1, 2) { deps[1].key.clone() } else { "inner".to_string() };
        let mut b = Body::default();
        let n = d.usize_in(1, 2);
        let p1 = deps[1].prj.clone();
        add_refs(d, &p1, &Owner::Dep(1), &format!("{key1}::"), n, &mut uid, &mut b, unified_generics);
        if !b.items.is_empty() {
            let rel = ["src/zz_link.veryl", "src/a_link.veryl"][d.weighted(&[1, 1])].to_string();
            deps[0].extra.push(mk_extra(rel, "D0Link", b));
            deps[0].deps.push((key1, 1));
            if d.chance(1, 2) {
                deps[1].direct = false;
            }
        }
    }

    // ------------------------------------------------------------ extra files
    let mut extra: Vec<Extra> = vec![];
    let direct: Vec<usize> = (0..deps.len()).filter(|i| deps[*i].direct).collect();
    let n_users = if direct.is_empty() { d.weighted(&[3, 1]) } else { d.usize_in(1, 2) };
    for un in 0..n_users {
        let mut b = Body::default();
        for di in &direct {
            if un == 0 || d.chance(1, 2) {
                let n = d.usize_in(1, 3);
                let pd = deps[*di].prj.clone();
                add_refs(d, &pd, &Owner::Dep(*di), &format!("{}::", deps[*di].key), n, &mut uid, &mut b, unified_generics);
                // the module of this dependency that uses the other one
                for (ei, e) in deps[*di].extra.iter().enumerate() {
                    if d.chance(2, 3) {
                        uid += 1;
                        b.text.push_str(&format!("    inst _pl{uid}: {}::{}", deps[*di].key, e.defines[0]));
                        if e.clocked {
                            b.clocked = true;
                            b.text.push_str(" (\n        clk: clk,\n        rst: rst,\n    );\n");
                        } else {
                            b.text.push_str(";\n");
                        }
                        b.links.insert((*di, ei));
                    }
                }
            }
        }
        if d.chance(2, 3) {
            let n = d.usize_in(1, 2);
            let pr = root.clone();
            add_refs(d, &pr, &Owner::Root, "", n, &mut uid, &mut b, unified_generics);
        }
        if b.items.is_empty() && b.links.is_empty() {
            continue;
        }
        let dir = dirs[d.below_usize(dirs.len())].clone();
        let name = ["aa_user", "zz_user", "sub/user", "m_user"][d.weighted(&[2, 2, 1, 1])];
        let rel = norm_join(&dir, &format!("{name}{un}.veryl"));
        extra.push(mk_extra(rel, &format!("P2User{un}"), b));
    }
    if o.alias_per_mille > 0 && d.below(1000) < o.alias_per_mille {
        let mods: Vec<ItemId> = root
            .modules()
            .into_iter()
            .filter(|m| placed(&root, *m).is_some() && !root.module(*m).generic)
            .collect();
        let pkgs: Vec<ItemId> = root.packages(false).into_iter().filter(|q| placed(&root, *q).is_some()).collect();
        for an in 0..d.usize_in(1, 3) {
            let (kw, target) = if !pkgs.is_empty() && (mods.is_empty() || d.chance(1, 2)) {
                ("package", pkgs[d.below_usize(pkgs.len())])
            } else if !mods.is_empty() {
                ("module", mods[d.below_usize(mods.len())])
            } else {
                break;
            };
            let dir = dirs[d.below_usize(dirs.len())].clone();
            let stem = ["aa_alias", "zz_alias", "sub/alias"][d.weighted(&[1, 1, 1])];
            let mut item_refs = BTreeSet::new();
            item_refs.insert((Owner::Root, target));
            extra.push(Extra {
                rel: norm_join(&dir, &format!("{stem}{an}.veryl")),
                text: format!("alias {kw} P2Alias{an} = {};\n", root.items[target].name),
                item_refs,
                link_refs: BTreeSet::new(),
                std_refs: BTreeSet::new(),
                wildcard: false,
                clocked: false,
                defines: vec![],
            });
        }
    }
    let mut std_user = false;
    if !root.cfg.exclude_std && d.chance(2, 3) {
        std_user = true;
        let dir = dirs[d.below_usize(dirs.len())].clone();
        let mut std_refs = BTreeSet::new();
        std_refs.insert("ram/ram.veryl".to_string());
        extra.push(Extra {
            rel: norm_join(&dir, "a_std_user.veryl"),
            text: STD_USER.to_string(),
            item_refs: BTreeSet::new(),
            link_refs: BTreeSet::new(),
            std_refs,
            wildcard: false,
            clocked: false,
            defines: vec!["P2StdUser".into()],
        });
    }

    let mut p = P2Project {
        root,
        sources,
        deps,
        extra,
        excluded_collisions: 0,
        forced_collision: None,
        std_user,
        single_def,
        unified_generics,
        excluded_hidden_cycles,
    };
    let force = o.collide_per_mille > 0 && d.below(1000) >= 1000 - o.collide_per_mille;
    p.settle_collisions(d, force);
    p
}

/// The argument every user of generic package `q` has after `unify_generic_args`
/// (the first one in use, else 3).
fn unified_pkg_arg(p: &Project, q: ItemId) -> u32 {
    for m in p.modules() {
        for u in &p.module(m).uses {
            if let UseKind::GenPkg(x, n) = &u.kind
                && *x == q
            {
                return *n;
            }
        }
    }
    3
}

/// Same for a generic module; only literal arguments are unified (8 if none).
fn unified_module_arg(p: &Project, c: ItemId) -> u32 {
    for m in p.modules() {
        for u in &p.module(m).uses {
            if let UseKind::Inst { child, garg: Some(GenArg::Lit(n)), .. } = &u.kind
                && *child == c
            {
                return *n;
            }
        }
    }
    8
}

/// Give every generic definition exactly one specialisation: all users pass
/// the same literal argument.
fn unify_generic_args(p: &mut Project) {
    let mods = p.modules();
    let mut pkg_arg: BTreeMap<ItemId, u32> = BTreeMap::new();
    let mut mod_arg: BTreeMap<ItemId, u32> = BTreeMap::new();
    for m in &mods {
        for u in &p.module(*m).uses {
            match &u.kind {
                UseKind::GenPkg(q, n) => {
                    pkg_arg.entry(*q).or_insert(*n);
                }
                UseKind::Inst { child, garg: Some(GenArg::Lit(n)), .. } => {
                    mod_arg.entry(*child).or_insert(*n);
                }
                _ => {}
            }
        }
    }
    for m in mods {
        for u in p.module_mut(m).uses.iter_mut() {
            match &mut u.kind {
                UseKind::GenPkg(q, n) => *n = pkg_arg[q],
                UseKind::Inst { child, garg: Some(g), .. } => {
                    *g = GenArg::Lit(*mod_arg.get(child).unwrap_or(&8));
                }
                _ => {}
            }
        }
    }
}

/// A constant passed as generic argument (`inst u: ModG::<Pkg::C>`) makes the
/// file that DEFINES `ModG` depend on the file of `Pkg`: the specialisation
/// `ModG__Pkg_C` is emitted there and mentions `Pkg::C`.  The vproj model does
/// not know this edge.  If it closes a cycle between files, the project is in
/// the shape on which veryl panics (`WouldCycle`, in some processing orders):
/// excluded by construction — the constant arguments become literals.
fn break_hidden_generic_cycles(p: &mut Project) -> u32 {
    let mut g = p.file_deps();
    let mut any = false;
    for m in p.modules() {
        for u in &p.module(m).uses {
            if let UseKind::Inst { child, garg: Some(GenArg::Const(q, _)), .. } = &u.kind
                && let (Some(fc), Some(fq)) = (p.file_of(*child), p.file_of(*q))
                && fc != fq
            {
                any = true;
                g.entry(p.files[fc].rel.clone()).or_default().insert(p.files[fq].rel.clone());
            }
        }
    }
    if !any {
        return 0;
    }
    // Kahn
    let mut indeg: BTreeMap<&String, usize> = g.keys().map(|k| (k, 0)).collect();
    for v in g.values() {
        for t in v {
            if let Some(x) = indeg.get_mut(t) {
                *x += 1;
            }
        }
    }
    let mut queue: Vec<&String> = indeg.iter().filter(|(_, n)| **n == 0).map(|(k, _)| *k).collect();
    let mut seen = 0;
    while let Some(k) = queue.pop() {
        seen += 1;
        for t in &g[k] {
            if let Some(x) = indeg.get_mut(t) {
                *x -= 1;
                if *x == 0 {
                    queue.push(t);
                }
            }
        }
    }
    if seen == g.len() {
        return 0;
    }
    for m in p.modules() {
        for u in p.module_mut(m).uses.iter_mut() {
            if let UseKind::Inst { garg: Some(g), .. } = &mut u.kind
                && matches!(g, GenArg::Const(..))
            {
                *g = GenArg::Lit(8);
            }
        }
    }
    1
}

/// One definition per file: every further item of a file moves to a new file.
/// Items only reference lower ids, so the file graph stays acyclic.
fn split_files(d: &mut Draw, p: &mut Project, o: &GenOpts) {
    let n = p.files.len();
    for fi in 0..n {
        if !p.files[fi].alive || p.files[fi].is_example() {
            continue;
        }
        while p.files[fi].items.len() > 1 {
            let it = p.files[fi].items.pop().unwrap();
            let rel = vproj::genp::draw_file_name(d, p, o);
            p.files.push(SrcFile {
                rel,
                items: vec![it],
                alive: true,
                syntax_err: None,
                loose: false,
                header: None,
            });
        }
    }
}

/// Make sure some module of the project has an `import Pkg::*`.
fn ensure_wildcard(d: &mut Draw, p: &mut Project) {
    let has = p.modules().iter().any(|m| {
        p.module(*m)
            .uses
            .iter()
            .any(|u| matches!(u.kind, UseKind::ImportWild(..)))
    });
    if has {
        return;
    }
    let mods = p.modules();
    let start = if mods.is_empty() { 0 } else { d.below_usize(mods.len()) };
    for n in 0..mods.len() {
        let m = mods[(start + n) % mods.len()];
        if p.file_of(m).is_none_or(|f| p.files[f].is_example()) {
            continue;
        }
        // a package with a lower id, in a non-example file
        let cands: Vec<(ItemId, usize)> = p
            .all_consts()
            .into_iter()
            .filter(|(q, _)| *q < m && p.file_of(*q).is_some_and(|f| !p.files[f].is_example()))
            .collect();
        if cands.is_empty() {
            continue;
        }
        let (q, k) = cands[d.below_usize(cands.len())];
        let uid = p.fresh();
        p.module_mut(m).uses.push(Use {
            uid,
            kind: UseKind::ImportWild(q, k),
        });
        if p.file_graph_cyclic() {
            p.module_mut(m).uses.pop();
            continue;
        }
        return;
    }
}

impl P2Project {
    /// key under which two root files collide for the configured target
    fn collision_key(&self, rel: &str) -> Option<String> {
        match &self.root.cfg.target {
            Target::Source => None,
            Target::Bundle(_) => Some(file_name(rel).to_string()),
            Target::Directory(_) => src_relative(&self.sources.dirs(), rel).map(|x| x.1),
        }
    }

    fn root_rels(&self) -> Vec<String> {
        let mut v: Vec<String> = self
            .root
            .files
            .iter()
            .filter(|f| f.alive && !f.is_example())
            .map(|f| f.rel.clone())
            .collect();
        v.extend(self.extra.iter().map(|e| e.rel.clone()));
        v
    }

    fn set_root_rel(&mut self, old: &str, new: &str) {
        for f in self.root.files.iter_mut() {
            if f.alive && f.rel == old {
                f.rel = new.to_string();
                return;
            }
        }
        for e in self.extra.iter_mut() {
            if e.rel == old {
                e.rel = new.to_string();
                return;
            }
        }
    }

    fn settle_collisions(&mut self, d: &mut Draw, force: bool) {
        // equal paths (possible after moving files between source dirs) are
        // never meaningful: rename
        let mut seen: BTreeSet<String> = BTreeSet::new();
        for rel in self.root_rels() {
            if !seen.insert(rel.clone()) {
                let mut n = 1;
                loop {
                    let new = format!("{}_{n}.veryl", rel.trim_end_matches(".veryl"));
                    if seen.insert(new.clone()) {
                        self.set_root_rel(&rel, &new);
                        break;
                    }
                    n += 1;
                }
            }
        }
        // exclude the known colliding shapes by construction
        let mut keys: BTreeMap<String, String> = BTreeMap::new();
        for rel in self.root_rels() {
            let Some(k) = self.collision_key(&rel) else {
                continue;
            };
            if keys.contains_key(&k) {
                let mut n = 1;
                loop {
                    let new = format!("{}_{n}.veryl", rel.trim_end_matches(".veryl"));
                    let nk = self.collision_key(&new).unwrap_or_default();
                    if !keys.contains_key(&nk) && !self.root_rels().contains(&new) {
                        self.set_root_rel(&rel, &new);
                        keys.insert(nk, new);
                        break;
                    }
                    n += 1;
                }
                self.excluded_collisions += 1;
            } else {
                keys.insert(k, rel);
            }
        }
        if !force {
            return;
        }
        let rels = self.root_rels();
        if rels.len() < 2 {
            return;
        }
        let i = d.below_usize(rels.len());
        let mut j = d.below_usize(rels.len() - 1);
        if j >= i {
            j += 1;
        }
        let dirs = self.sources.dirs();
        match &self.root.cfg.target {
            Target::Source => {}
            Target::Bundle(_) => {
                // same file name in another directory
                let new = norm_join(&norm_join(parent_dir(&rels[i]), "x2"), file_name(&rels[i]));
                if !rels.contains(&new) {
                    self.set_root_rel(&rels[j], &new);
                    self.forced_collision = Some("bundle-same-file-name");
                }
            }
            Target::Directory(_) => {
                if dirs.len() == 2
                    && let Some((si, r)) = src_relative(&dirs, &rels[i])
                {
                    let new = norm_join(&dirs[1 - si], &r);
                    if !rels.contains(&new) {
                        self.set_root_rel(&rels[j], &new);
                        self.forced_collision = Some("directory-target-same-relative-path-in-two-sources");
                    }
                }
            }
        }
    }

    // ------------------------------------------------------------- rendering

    pub fn root_toml(&self) -> String {
        let mut t = self.root.cfg.render().replace("sources = [\"src\"]\n", &self.sources.toml_line());
        let direct: Vec<&Dep> = self.deps.iter().filter(|x| x.direct).collect();
        if !direct.is_empty() {
            t.push_str("\n[dependencies]\n");
            for x in direct {
                t.push_str(&format!("{} = {{path = \"{}\"}}\n", x.key, x.dir));
            }
        }
        t
    }

    fn dep_toml(&self, i: usize) -> String {
        let x = &self.deps[i];
        let mut t = x.prj.cfg.render();
        if !x.deps.is_empty() {
            t.push_str("\n[dependencies]\n");
            for (k, j) in &x.deps {
                // both live relative to the root project directory
                let rel = rel_path(&self.root.cfg.name, &x.dir, &self.deps[*j].dir);
                t.push_str(&format!("{k} = {{path = \"{rel}\"}}\n"));
            }
        }
        t
    }

    /// Every file of the case: (path relative to the root project directory, text).
    pub fn disk_files(&self) -> Vec<(String, String)> {
        let mut v = vec![("Veryl.toml".to_string(), self.root_toml())];
        v.extend(self.root.render_all());
        for e in &self.extra {
            v.push((e.rel.clone(), e.text.clone()));
        }
        for (i, x) in self.deps.iter().enumerate() {
            v.push((format!("{}/Veryl.toml", x.dir), self.dep_toml(i)));
            for (rel, text) in x.prj.render_all() {
                v.push((format!("{}/{rel}", x.dir), text));
            }
            for e in &x.extra {
                v.push((format!("{}/{}", x.dir, e.rel), e.text.clone()));
            }
        }
        v
    }

    /// Write the case; `order` permutes the creation order of the files.
    pub fn write(&self, ws: &Workspace, reverse: bool) {
        let mut files = self.disk_files();
        if reverse {
            files.reverse();
        }
        for (rel, text) in files {
            ws.write(&rel, &text);
        }
    }

    /// Path on disk (not canonicalised) of a model file.
    pub fn disk_path(&self, ws: &Workspace, f: &FileId) -> Option<PathBuf> {
        match &f.owner {
            Owner::Root => Some(ws.root.join(&f.rel)),
            Owner::Dep(i) => Some(ws.root.join(&self.deps[*i].dir).join(&f.rel)),
            Owner::Std => None,
        }
    }

    // ----------------------------------------------------------------- graph

    /// Source files that are analysed: (id, is_example).
    pub fn files(&self) -> Vec<(FileId, bool)> {
        let mut v = vec![];
        for f in self.root.files.iter().filter(|f| f.alive) {
            v.push((FileId::root(&f.rel), f.is_example()));
        }
        for e in &self.extra {
            v.push((FileId::root(&e.rel), false));
        }
        for (i, x) in self.deps.iter().enumerate() {
            for f in x.prj.files.iter().filter(|f| f.alive) {
                // examples of a dependency are skipped by Lockfile::paths
                if !f.is_example() {
                    v.push((
                        FileId {
                            owner: Owner::Dep(i),
                            rel: f.rel.clone(),
                        },
                        false,
                    ));
                }
            }
            for e in &x.extra {
                v.push((
                    FileId {
                        owner: Owner::Dep(i),
                        rel: e.rel.clone(),
                    },
                    false,
                ));
            }
        }
        v
    }

    pub fn project_of(&self, o: &Owner) -> Option<&Project> {
        match o {
            Owner::Root => Some(&self.root),
            Owner::Dep(i) => Some(&self.deps[*i].prj),
            Owner::Std => None,
        }
    }

    /// File that holds a model item now.
    pub fn file_of_item(&self, o: &Owner, id: ItemId) -> Option<FileId> {
        let p = self.project_of(o)?;
        let fi = p.file_of(id)?;
        Some(FileId {
            owner: o.clone(),
            rel: p.files[fi].rel.clone(),
        })
    }

    /// Files an extra file references.
    pub fn extra_refs(&self, e: &Extra) -> BTreeSet<FileId> {
        let mut s = BTreeSet::new();
        for (o, id) in &e.item_refs {
            if let Some(f) = self.file_of_item(o, *id) {
                s.insert(f);
            }
        }
        for (di, ei) in &e.link_refs {
            s.insert(FileId {
                owner: Owner::Dep(*di),
                rel: self.deps[*di].extra[*ei].rel.clone(),
            });
        }
        for r in &e.std_refs {
            s.insert(FileId {
                owner: Owner::Std,
                rel: r.clone(),
            });
        }
        s
    }

    /// Known references: (A, B) = file A uses something file B defines.
    pub fn edges(&self) -> Vec<(FileId, FileId)> {
        let mut v = vec![];
        for (a, bs) in self.root.file_deps() {
            for b in bs {
                v.push((FileId::root(&a), FileId::root(&b)));
            }
        }
        for e in &self.extra {
            for b in self.extra_refs(e) {
                v.push((FileId::root(&e.rel), b));
            }
        }
        for (i, x) in self.deps.iter().enumerate() {
            let id = |rel: &str| FileId {
                owner: Owner::Dep(i),
                rel: rel.to_string(),
            };
            for (a, bs) in x.prj.file_deps() {
                if a.starts_with("examples/") {
                    continue;
                }
                for b in bs {
                    v.push((id(&a), id(&b)));
                }
            }
            for e in &x.extra {
                for b in self.extra_refs(e) {
                    v.push((id(&e.rel), b));
                }
            }
        }
        v
    }

    /// Files holding a definition that the root project reaches *symbol by
    /// symbol* (what `sort_filelist` calls "connected from project"): every
    /// definition of the root project, and transitively what they reference.
    /// A definition that merely shares a file with a reached one is not
    /// reached.
    pub fn reachable_from_root(&self) -> BTreeSet<FileId> {
        let mut items: BTreeSet<(Owner, ItemId)> = BTreeSet::new();
        let mut links: BTreeSet<(usize, usize)> = BTreeSet::new();
        let mut files: BTreeSet<FileId> = BTreeSet::new();
        let mut work: Vec<(Owner, ItemId)> = vec![];
        let mut lwork: Vec<(usize, usize)> = vec![];
        for f in self.root.files.iter().filter(|f| f.alive && !f.is_example()) {
            for it in &f.items {
                if self.root.items[*it].alive && items.insert((Owner::Root, *it)) {
                    work.push((Owner::Root, *it));
                }
            }
        }
        for e in &self.extra {
            files.insert(FileId::root(&e.rel));
            for r in &e.std_refs {
                files.insert(FileId {
                    owner: Owner::Std,
                    rel: r.clone(),
                });
            }
            for x in &e.item_refs {
                if items.insert(x.clone()) {
                    work.push(x.clone());
                }
            }
            for l in &e.link_refs {
                if links.insert(*l) {
                    lwork.push(*l);
                }
            }
        }
        loop {
            if let Some((o, id)) = work.pop() {
                if let Some(p) = self.project_of(&o) {
                    for r in p.item_refs(id) {
                        if items.insert((o.clone(), r)) {
                            work.push((o.clone(), r));
                        }
                    }
                }
            } else if let Some((di, ei)) = lwork.pop() {
                let e = &self.deps[di].extra[ei];
                for x in &e.item_refs {
                    if items.insert(x.clone()) {
                        work.push(x.clone());
                    }
                }
                for l in &e.link_refs {
                    if links.insert(*l) {
                        lwork.push(*l);
                    }
                }
            } else {
                break;
            }
        }
        for (o, id) in &items {
            if let Some(f) = self.file_of_item(o, *id) {
                files.insert(f);
            }
        }
        for (di, ei) in &links {
            files.insert(FileId {
                owner: Owner::Dep(*di),
                rel: self.deps[*di].extra[*ei].rel.clone(),
            });
        }
        files
    }

    /// Known C25 finding: `sort_filelist` puts a file at the position of its
    /// first definition in topological order.  A listed before B although A
    /// references B is explained by that iff A is a model file with several
    /// definitions one of which does not (transitively) need anything of B.
    pub fn explained_by_first_definition(&self, a: &FileId, b: &FileId) -> bool {
        if a.owner != b.owner {
            return false;
        }
        let Some(p) = self.project_of(&a.owner) else { return false };
        let Some(fa) = p.files.iter().find(|x| x.alive && x.rel == a.rel) else {
            return false;
        };
        let Some(fb) = p.files.iter().find(|x| x.alive && x.rel == b.rel) else {
            return false;
        };
        let live: Vec<ItemId> = fa.items.iter().copied().filter(|i| p.items[*i].alive).collect();
        if live.len() < 2 {
            return false;
        }
        live.iter().any(|it| {
            let mut seen: BTreeSet<ItemId> = BTreeSet::new();
            let mut work = vec![*it];
            while let Some(x) = work.pop() {
                for r in p.item_refs(x) {
                    if seen.insert(r) {
                        work.push(r);
                    }
                }
            }
            !seen.iter().any(|r| fb.items.contains(r))
        })
    }

    pub fn has_wildcard(&self) -> bool {
        let in_model = |p: &Project| {
            p.modules().iter().any(|m| {
                p.file_of(*m).is_some()
                    && p.module(*m)
                        .uses
                        .iter()
                        .any(|u| matches!(u.kind, UseKind::ImportWild(..)))
            })
        };
        in_model(&self.root)
            || self.extra.iter().any(|e| e.wildcard)
            || self.deps.iter().any(|x| in_model(&x.prj) || x.extra.iter().any(|e| e.wildcard))
    }

    pub fn has_generic_across_files(&self) -> bool {
        let p = &self.root;
        p.live_items().iter().any(|it| {
            let generic = match &p.items[*it].kind {
                ItemKind::Package(k) => k.generic,
                ItemKind::Module(m) => m.generic,
                _ => false,
            };
            generic && p.users_of(*it).iter().any(|u| p.file_of(*u) != p.file_of(*it))
        })
    }

    pub fn summary(&self) -> String {
        let mut s = format!("{} {} ;", self.root.summary(), self.sources.label());
        for e in &self.extra {
            s.push_str(&format!(
                " {}[{} -> {}]",
                e.rel,
                e.defines.join(","),
                self.extra_refs(e).iter().map(|r| r.show()).collect::<Vec<_>>().join(",")
            ));
        }
        for (i, x) in self.deps.iter().enumerate() {
            s.push_str(&format!(
                " | dep{i} key={} dir={} direct={} deps={:?}:",
                x.key, x.dir, x.direct, x.deps
            ));
            for f in x.prj.files.iter().filter(|f| f.alive) {
                let names: Vec<String> = f.items.iter().map(|i| x.prj.items[*i].name.clone()).collect();
                s.push_str(&format!(" {}[{}]", f.rel, names.join(",")));
            }
            for e in &x.extra {
                s.push_str(&format!(" {}[{}]", e.rel, e.defines.join(",")));
            }
        }
        if let Some(c) = self.forced_collision {
            s.push_str(&format!(" | forced collision: {c}"));
        }
        if self.single_def {
            s.push_str(" | one definition per file");
        }
        if self.unified_generics {
            s.push_str(" | one specialisation per generic");
        }
        s
    }
}

/// Relative path from directory `from` to directory `to`, both given relative
/// to the root project directory, whose own name is `root_name` (components
/// may start with `..`; the workspace puts the root project at `w/<root_name>`).
fn rel_path(root_name: &str, from: &str, to: &str) -> String {
    let norm = |s: &str| -> Vec<String> {
        let mut v: Vec<String> = vec![];
        for c in s.split('/') {
            match c {
                "" | "." => {}
                ".." => {
                    if v.last().is_some_and(|x| x != "..") {
                        v.pop();
                    } else {
                        v.push("..".into());
                    }
                }
                x => v.push(x.to_string()),
            }
        }
        v
    };
    // interpret both below `<base>/<root_name>` so that a leading `..` resolves
    let f = norm(&format!("b0/{root_name}/{from}"));
    let t = norm(&format!("b0/{root_name}/{to}"));
    let common = f.iter().zip(t.iter()).take_while(|(a, b)| a == b).count();
    let mut out: Vec<String> = vec![];
    for _ in common..f.len() {
        out.push("..".into());
    }
    out.extend(t[common..].iter().cloned());
    out.join("/")
}

/// A permutation of `0..n` drawn by Fisher–Yates.
pub fn draw_perm(d: &mut Draw, n: usize) -> Vec<usize> {
    let mut p: Vec<usize> = (0..n).collect();
    for i in (1..n).rev() {
        let j = d.below_usize(i + 1);
        p.swap(i, j);
    }
    p
}
