mod c04;
mod c24;
mod c25;
mod c27;
mod p2_gen;

fn main() {
    let args: Vec<String> = std::env::args().skip(1).collect();
    let id = args.first().cloned().unwrap_or_default();
    vcore::quiet_panics();
    if id == "GEN" {
        // development aid: acceptance rate of the project generator
        c04::gen_probe(args.get(1).and_then(|x| x.parse().ok()).unwrap_or(50));
        return;
    }
    let ctx = vcore::Ctx::new(&id, &args[1.min(args.len())..]);
    match id.as_str() {
        "C04" => c04::run(&ctx),
        "C24" => c24::run(&ctx),
        "C25" => c25::run(&ctx),
        "C27" => c27::run(&ctx),
        _ => {
            eprintln!("unknown property id {id:?}");
            std::process::exit(2);
        }
    }
}
