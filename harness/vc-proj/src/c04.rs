//! C04 — incremental builds produce exactly what a clean build produces.
//!
//! Model-based search over histories.  A generated multi-file project
//! (`vproj`, `[build] incremental = true`) is taken through 4–12 steps: edit
//! operations and `veryl build` / `veryl check` (sometimes `veryl test`, which
//! only acts on the cache and is not compared).  Before every compared
//! command the whole project directory is saved (`cp -a`, mtimes kept); the
//! command first runs at the project path with `.build/cache` removed (fresh
//! cache), its result is recorded and thrown away, the saved state is put back
//! and the same command runs on the real (warm) cache.  The history continues
//! on the warm project only.
//!
//! Oracle (exactly what the property names): equal exit status, equal
//! multiset of parsed diagnostics (severity, code, message, file, spans),
//! byte-equal emitted `.sv`, `.sv.map` and filelist files.  Log lines, timing,
//! `.build/**`, `Veryl.lock` and file mtimes are not compared.

use serde_json::json;
use std::collections::{BTreeMap, BTreeSet};
use vcore::{CaseCfg, Ctx, Draw, Outcome, hash_str};
use vproj::cli::{CliResult, OutTree, Workspace, diff_trees};
use vproj::edit::{EditOp, EditPolicy, Editor, OutKind};
use vproj::model::Project;
use vproj::toml::{SrcMap, Target, TomlEdit};
use vproj::{GenOpts, gen_project};

#[derive(Clone, Copy, PartialEq, Debug)]
enum Cmd {
    Build,
    Check,
    Test,
}

impl Cmd {
    fn args(&self) -> Vec<&'static str> {
        match self {
            Cmd::Build => vec!["build"],
            Cmd::Check => vec!["check"],
            Cmd::Test => vec!["test", "--backend", "interpret"],
        }
    }
    fn name(&self) -> &'static str {
        match self {
            Cmd::Build => "build",
            Cmd::Check => "check",
            Cmd::Test => "test",
        }
    }
}

/// Expected emitted `.sv` / `.sv.map` path of a source file (None for bundles
/// and examples).
fn out_paths(p: &Project, rel: &str) -> Option<(String, String)> {
    let inner = rel.strip_prefix("src/")?;
    let stem = inner.strip_suffix(".veryl")?;
    let sv = match &p.cfg.target {
        Target::Source => format!("src/{stem}.sv"),
        Target::Directory(t) => format!("{t}/{stem}.sv"),
        Target::Bundle(_) => return None,
    };
    let map = match &p.cfg.sourcemap {
        SrcMap::Directory(m) => match &p.cfg.target {
            Target::Directory(_) => format!("{m}/{stem}.sv.map"),
            _ => format!("{m}/{sv}.map"),
        },
        _ => format!("{sv}.map"),
    };
    Some((sv, map))
}

/// What happened to files since the last successful warm build, for naming
/// the root cause of a stale output.
#[derive(Default, Clone)]
struct Since {
    /// sources replaced by an older-mtime version
    older: BTreeSet<String>,
    /// a command that stores hashes without emitting ran after such a replacement
    /// (`check`, or a build that failed / did not emit)
    older_then_hashed: BTreeSet<String>,
    deleted_maps: BTreeSet<String>,
    /// files that got a new path (renamed / restored / added) since then
    new_paths: BTreeSet<String>,
    /// `[format]` of Veryl.toml changed
    format_changed: bool,
    /// a `[build]` option changed (the cache key changes, every entry is dropped) ...
    opts_changed: bool,
    /// ... and then a `check` re-created entries under the new key without emitting
    opts_then_hashed: bool,
    /// generic context and disk text at the last successful warm build
    ok_ctx: BTreeMap<String, String>,
    ok_disk: BTreeMap<String, String>,
}

/// Unchanged files (same text as at the last successful warm build) that depend
/// on a file which has a new path since then: their dependents record sits
/// under the old path and is never consulted.
fn dependents_of_moved(p: &Project, ed: &Editor, since: &Since) -> BTreeSet<String> {
    let deps = p.file_deps();
    let mut out = BTreeSet::new();
    if since.new_paths.is_empty() {
        return out;
    }
    // transitive: S -> ... -> moved
    for (s, _) in deps.iter() {
        if since.ok_disk.get(s).is_none() || since.ok_disk.get(s) != ed.disk.get(s) {
            continue;
        }
        let mut seen: BTreeSet<&String> = BTreeSet::new();
        let mut stack = vec![s];
        while let Some(x) = stack.pop() {
            if !seen.insert(x) {
                continue;
            }
            if let Some(ds) = deps.get(x) {
                for t in ds {
                    if since.new_paths.contains(t) {
                        out.insert(s.clone());
                    }
                    stack.push(t);
                }
            }
        }
    }
    out
}

fn explain_output_diff(
    p: &Project,
    ed: &Editor,
    since: &Since,
    cold: &OutTree,
    warm: &OutTree,
) -> (String, Vec<String>) {
    // every differing output file gets a cause; "unexplained" wins
    let mut keys: BTreeSet<&String> = cold.keys().collect();
    keys.extend(warm.keys());
    let ctx_now = p.generic_context();
    let moved_deps = dependents_of_moved(p, ed, since);
    let mut causes: Vec<(String, String)> = vec![];
    for k in keys {
        if cold.get(k) == warm.get(k) {
            continue;
        }
        let kind = if k.ends_with(".sv.map") {
            "map"
        } else if k.ends_with(".sv") {
            "sv"
        } else {
            "filelist"
        };
        // which source does this output belong to?
        let src = p
            .live_files()
            .into_iter()
            .map(|fi| p.files[fi].rel.clone())
            .find(|rel| out_paths(p, rel).is_some_and(|(sv, map)| &sv == k || &map == k));
        let mut cause = format!("unexplained:{kind}");
        if let Some(src) = &src {
            let unchanged = since.ok_disk.get(src).is_some() && since.ok_disk.get(src) == ed.disk.get(src);
            if since.older_then_hashed.contains(src) {
                cause = "check-stored-entry-trusted-by-build".into();
            } else if kind == "map" && since.deleted_maps.contains(k) && warm.get(k).is_none() {
                cause = "deleted-map-not-regenerated".into();
            } else if moved_deps.contains(src) {
                cause = "definition-moved-dependents-not-reanalysed".into();
            } else if unchanged && since.format_changed && kind != "filelist" {
                cause = "format-section-not-in-cache-key".into();
            } else if unchanged && since.ok_ctx.get(src) != ctx_now.get(src) {
                cause = "generic-definer-not-reemitted".into();
            }
        }
        if src.is_none() && k.starts_with("dependencies/") && since.format_changed && kind != "filelist" {
            // $std outputs have no source in the model; they are never edited
            cause = "format-section-not-in-cache-key".into();
        }
        if since.opts_then_hashed && kind != "filelist" {
            // also covers $std outputs, which have no source in the model
            cause = "check-stored-entry-trusted-by-build".into();
        }
        causes.push((k.clone(), cause));
    }
    let sig = causes
        .iter()
        .find(|(_, c)| c.starts_with("unexplained"))
        .or(causes.first())
        .map(|(_, c)| c.clone())
        .unwrap_or_else(|| "unexplained:none".into());
    (
        format!("output/{sig}"),
        causes.into_iter().map(|(k, c)| format!("{k}: {c}")).collect(),
    )
}

/// Root-cause name of a difference between the diagnostics of the two runs.
fn diag_signature(warm: &CliResult, cd: &[vproj::Diag], wd: &[vproj::Diag]) -> &'static str {
    let errs = |v: &[vproj::Diag]| -> Vec<vproj::Diag> {
        v.iter().filter(|x| x.severity == "error").cloned().collect()
    };
    // warnings that only the fresh run reports, all in files for which the warm
    // run still reports a (re-derived) unused_variable warning, nothing extra on
    // the warm side
    let lost: Vec<&vproj::Diag> = cd.iter().filter(|x| !wd.contains(x)).collect();
    let extra = wd.iter().filter(|x| !cd.contains(x)).count();
    if !lost.is_empty()
        && extra == 0
        && lost.iter().all(|l| {
            l.severity == "warning"
                && l.code != "unused_variable"
                && wd.iter().any(|w| w.code == "unused_variable" && w.file == l.file)
        })
    {
        return "diagnostics/cached-warnings-overwritten-by-rederived-subset";
    }
    // the fresh run reports one identical warning several times and the warm
    // run fewer (but at least once); everything else agrees
    {
        let mut count: BTreeMap<&vproj::Diag, (usize, usize)> = BTreeMap::new();
        for x in cd {
            count.entry(x).or_default().0 += 1;
        }
        for x in wd {
            count.entry(x).or_default().1 += 1;
        }
        let differing: Vec<(&vproj::Diag, (usize, usize))> =
            count.into_iter().filter(|(_, (a, b))| a != b).collect();
        if !differing.is_empty()
            && differing
                .iter()
                .all(|(d, (a, b))| d.severity == "warning" && *a >= 2 && *b >= 1 && b < a)
        {
            return "diagnostics/fresh-run-reports-identical-warning-twice";
        }
    }
    if warm.code != Some(0) && errs(cd) == errs(wd) && !errs(cd).iter().all(|e| e.code.is_empty()) {
        // the run failed on an error; only the accompanying warnings differ
        "diagnostics/warnings-differ-on-run-aborted-by-error"
    } else {
        "diagnostics/unexplained"
    }
}

/// Multiset difference of two sorted diagnostic lists: (surplus in a, surplus in b).
fn multiset_diff(a: &[vproj::Diag], b: &[vproj::Diag]) -> (Vec<String>, Vec<String>) {
    let mut count: BTreeMap<&vproj::Diag, i64> = BTreeMap::new();
    for x in a {
        *count.entry(x).or_default() += 1;
    }
    for x in b {
        *count.entry(x).or_default() -= 1;
    }
    let mut oa = vec![];
    let mut ob = vec![];
    for (d, n) in count {
        if n > 0 {
            oa.push(format!("{}x {}", n, d.short()));
        } else if n < 0 {
            ob.push(format!("{}x {}", -n, d.short()));
        }
    }
    (oa, ob)
}

/// Development aid: with VERIF_KEEP_TIMEOUT set, the reproducer script of a
/// timed-out case is written to /verif/.work/c04-timeout-<n>.sh.
fn keep_for_debug(ws: &Workspace) {
    if std::env::var_os("VERIF_KEEP_TIMEOUT").is_some() {
        let name = ws.scratch.path.file_name().map(|x| x.to_string_lossy().into_owned()).unwrap_or_default();
        let _ = std::fs::write(format!("{}/timeout-{name}.sh", vcore::util::work_root()), ws.script());
    }
}

fn diag_lines(r: &CliResult) -> Vec<String> {
    r.diag_multiset().iter().map(|d| d.short()).collect()
}

fn one_history(d: &mut Draw, thorough: bool) -> Outcome {
    let gopts = GenOpts {
        max_items: if thorough { 12 } else { 9 },
        warn_per_mille: 300,
        ..GenOpts::default()
    };
    let pol = EditPolicy {
        output_edit: false,
        gen_opts: gopts.clone(),
        ..EditPolicy::default()
    };
    let mut p = gen_project(d, &gopts);
    p.cfg.incremental = true;
    // half of the projects get a "warning in A caused by B" hook (clean as generated)
    let hook = if d.chance(1, 2) { vproj::genp::add_cross_warning_hook(d, &mut p) } else { None };
    let ws = Workspace::new("c04", &p.cfg.name);
    let mut ed = Editor::create(&p, &ws);
    let initial = p.summary();
    let cyclic_replaced = p.counter_cyclic_placements > 0;

    let n_steps = d.usize_in(4, 12);
    let mut steps: Vec<String> = vec![];
    let mut classes: BTreeSet<String> = BTreeSet::new();
    if cyclic_replaced {
        classes.insert("excluded_file_cycle_placement_replaced".into());
    }
    let mut edits = 0usize;
    let mut nontrivial = false;
    let mut since = Since::default();
    let mut check_pending = false; // a check ran since the last build
    let mut first_cmd = true;
    let mut warm_cmds = 0usize;
    // "warning in A through a change in B" pair: None, or what was changed in B
    let mut cross: Option<EditOp> = None; // the REMOVAL operation to apply later
    let mut cross_cached = false; // a command ran while the cross warning was present
    let mut forced_cmds = 0usize; // commands that must follow without an edit in between
    let mut prefer_check = false;
    let mut last_was_cmd = false;

    let mut i = 0usize;
    while (i < n_steps || forced_cmds > 0) && i < n_steps + 3 {
        let is_cmd = forced_cmds > 0 || i == 0 || i + 1 >= n_steps || d.chance(2, 5);
        i += 1;
        if !is_cmd {
            last_was_cmd = false;
            // a pending port-pair is void once the users were rewritten
            if let Some(EditOp::RemovePort { module }) = &cross {
                let users_dirty = p
                    .users_of(*module)
                    .iter()
                    .filter_map(|u| p.file_of(*u))
                    .any(|f| ed.dirty(&p).contains(&f));
                if !users_dirty {
                    cross = None;
                    cross_cached = false;
                }
            }
            let mut pair_class: Option<&str> = None;
            let op = if cross.is_some() && cross_cached && d.chance(1, 2) {
                pair_class = Some("cross_warning_removed_through_B");
                cross.take().unwrap()
            } else if cross.is_none() && !Editor::has_injected_error(&p) && ed.dirty(&p).is_empty() && d.chance(1, 3) {
                // candidates: the hook constant (still 1), or a module that files other than its own instantiate
                let mut cands: Vec<(EditOp, EditOp)> = vec![];
                if let Some((q, k)) = hook
                    && p.file_of(q).is_some()
                    && p.pkg(q).consts[k].val == vproj::model::ConstVal::Lit(1)
                {
                    cands.push((
                        EditOp::SetConst { pkg: q, idx: k, val: 2 },
                        EditOp::SetConst { pkg: q, idx: k, val: 1 },
                    ));
                }
                for m in p.modules() {
                    let Some(fm) = p.file_of(m) else { continue };
                    let md = p.module(m);
                    if md.ins.len() >= 4 {
                        continue;
                    }
                    let cross_user = p.users_of(m).iter().any(|u| {
                        matches!(p.items[*u].kind, vproj::model::ItemKind::Module(_))
                            && p.file_of(*u).is_some_and(|f| f != fm)
                    });
                    if cross_user {
                        cands.push((
                            EditOp::AddPort { module: m, with_default: false, consistent: false },
                            EditOp::RemovePort { module: m },
                        ));
                    }
                }
                if cands.is_empty() {
                    ed.draw(d, &p, &ws, &pol)
                } else {
                    let (intro, removal) = cands[d.below_usize(cands.len())].clone();
                    cross = Some(removal);
                    cross_cached = false;
                    pair_class = Some("cross_warning_introduced_through_B");
                    intro
                }
            } else {
                ed.draw(d, &p, &ws, &pol)
            };
            let a = ed.apply(d, &mut p, &ws, &op, &pol);
            if let Some(c) = pair_class {
                classes.insert(c.to_string());
                if c == "cross_warning_introduced_through_B" {
                    forced_cmds = 1;
                } else {
                    forced_cmds = 2;
                    prefer_check = true;
                }
            }
            edits += 1;
            for c in &a.classes {
                classes.insert(c.to_string());
            }
            match &op {
                EditOp::ReplaceOlder { file } => {
                    since.older.insert(p.files[*file].rel.clone());
                }
                EditOp::DeleteOutput { rel, kind: OutKind::Map } => {
                    since.deleted_maps.insert(rel.clone());
                }
                EditOp::RenameFile { to, .. } => {
                    since.new_paths.insert(to.clone());
                }
                EditOp::RestoreFile { file } => {
                    since.new_paths.insert(p.files[*file].rel.clone());
                }
                EditOp::Toml(t) if matches!(t, TomlEdit::FormatIndent | TomlEdit::FormatAlign) => {
                    since.format_changed = true;
                }
                EditOp::Toml(t) if t.is_build_option() => {
                    since.opts_changed = true;
                }
                _ => {}
            }
            // any later write of the file with a current mtime ends the older-mtime situation
            for t in &a.touched {
                if !matches!(op, EditOp::ReplaceOlder { .. }) {
                    since.older.remove(t);
                    since.older_then_hashed.remove(t);
                }
            }
            if let EditOp::TouchSource { file } = &op {
                since.older.remove(&p.files[*file].rel);
                since.older_then_hashed.remove(&p.files[*file].rel);
            }
            steps.push(format!("edit  {}", a.desc));
            continue;
        }
        if last_was_cmd {
            classes.insert("consecutive_commands_without_edit".into());
            if prefer_check {
                classes.insert("cross_pair_then_two_commands".into());
            }
        }
        forced_cmds = forced_cmds.saturating_sub(1);
        if cross.is_some() {
            cross_cached = true;
        }
        let cmd = if first_cmd {
            [Cmd::Build, Cmd::Check][d.weighted(&[7, 3])]
        } else if prefer_check && forced_cmds == 0 && last_was_cmd {
            // the second command after the pair replays from the cache; only `check` prints warnings
            prefer_check = false;
            [Cmd::Check, Cmd::Build][d.weighted(&[3, 1])]
        } else {
            // warnings are only printed by `check` (and by failing builds)
            let has_warn = p.modules().iter().any(|m| !p.module(*m).inj.is_empty());
            [Cmd::Build, Cmd::Check, Cmd::Test][d.weighted(&[6, if has_warn { 7 } else { 4 }, if p.has_tests() { 1 } else { 0 }])]
        };
        if cmd == Cmd::Test {
            // acts on the cache only; its own results are not part of the property
            let r = ws.veryl(&cmd.args());
            if r.timed_out {
                keep_for_debug(&ws);
                return Outcome::skip("a command timed out (veryl test)");
            }
            classes.insert("test_step".into());
            steps.push(format!("cmd   veryl test (not compared) exit={:?}", r.code));
            continue;
        }
        // ---- cold run on a fresh cache, at the same path -------------------
        ws.save_state("keep");
        ws.drop_cache();
        let cold = ws.veryl(&cmd.args());
        let cold_out = ws.outputs();
        ws.restore_state("keep", true);
        // ---- warm run -------------------------------------------------------
        let warm = ws.veryl(&cmd.args());
        let warm_out = ws.outputs();
        if cold.timed_out || warm.timed_out {
            keep_for_debug(&ws);
            return Outcome::skip(format!("a command timed out (veryl {})", cmd.name()));
        }
        steps.push(format!(
            "cmd   veryl {}: exit cold={:?} warm={:?}, restored {:?}, diags {}",
            cmd.name(),
            cold.code,
            warm.code,
            warm.restored,
            warm.diags.len()
        ));
        if first_cmd {
            first_cmd = false;
            // generator acceptance: the fresh project analyses without errors
            // (30 % of the projects start with one injected warning, which
            // makes `check` exit 1)
            let expected: usize = p.modules().iter().map(|m| p.module(*m).inj.len()).sum();
            let clean = !warm.panicked
                && match cmd {
                    Cmd::Check => {
                        warm.errors().is_empty()
                            && warm.warnings().len() == expected
                            && warm.code == Some(if expected > 0 { 1 } else { 0 })
                    }
                    _ => warm.code == Some(0) && warm.diags.is_empty(),
                };
            if !clean && cold.code == warm.code && cold.diag_multiset() == warm.diag_multiset() {
                let why = warm
                    .diags
                    .iter()
                    .find(|x| !x.code.is_empty())
                    .map(|x| x.code.clone())
                    .unwrap_or_else(|| format!("exit {:?} {}", warm.code, warm.panic_line()));
                return Outcome::skip(format!("generated project not accepted ({why})"));
            }
        } else {
            warm_cmds += 1;
        }
        if cold.panicked && !warm.panicked {
            // the reference run itself crashed (the warm run got away because it
            // did not re-analyse / re-emit the crashing file): nothing to compare
            return Outcome::skip(format!("the fresh-cache run panics (C11's domain): {}", cold.panic_line()));
        }
        if cold.panicked && warm.panicked {
            return Outcome::skip(format!("both runs panic (C11's domain): {}", warm.panic_line()));
        }
        let mk_input = |extra: serde_json::Value| {
            json!({
                "project": initial,
                "steps": steps,
                "command": cmd.name(),
                "cold": {"exit": cold.code, "diags": diag_lines(&cold), "stderr_tail": cold.tail(12)},
                "warm": {"exit": warm.code, "diags": diag_lines(&warm), "restored": format!("{:?}", warm.restored), "stderr_tail": warm.tail(12)},
                "detail": extra,
                "script": ws.script(),
            })
        };
        // ---- oracle ---------------------------------------------------------
        if cold.code != warm.code {
            let sig = if warm.panicked && !cold.panicked {
                "exit-status/warm-run-panics".to_string()
            } else if !dependents_of_moved(&p, &ed, &since).is_empty() {
                "exit-status/definition-moved-dependents-not-reanalysed".to_string()
            } else {
                format!("exit-status/{}", cmd.name())
            };
            return Outcome::fail(
                sig,
                format!(
                    "veryl {} exits {:?} on a fresh cache but {:?} with the fragment cache, after:\n  {}\nwarm stderr tail:\n{}",
                    cmd.name(),
                    cold.code,
                    warm.code,
                    steps.join("\n  "),
                    warm.tail(15)
                ),
                mk_input(json!(null)),
            );
        }
        let (cd, wd) = (cold.diag_multiset(), warm.diag_multiset());
        if cd != wd {
            let mut sig = diag_signature(&warm, &cd, &wd);
            if sig == "diagnostics/unexplained" && !dependents_of_moved(&p, &ed, &since).is_empty() {
                sig = "diagnostics/definition-moved-dependents-not-reanalysed";
            }
            let (only_cold, only_warm) = multiset_diff(&cd, &wd);
            return Outcome::fail(
                sig,
                format!(
                    "veryl {} reports different diagnostics with the fragment cache (restored {:?}).\nonly on a fresh cache: {:#?}\nonly with the cache: {:#?}\ncounts: cold {} / warm {}\nafter:\n  {}",
                    cmd.name(),
                    warm.restored,
                    only_cold,
                    only_warm,
                    cd.len(),
                    wd.len(),
                    steps.join("\n  ")
                ),
                mk_input(json!({"only_cold": only_cold, "only_warm": only_warm})),
            );
        }
        if let Some(diff) = diff_trees(&cold_out, &warm_out, "fresh-cache", "cached") {
            let (sig, causes) = explain_output_diff(&p, &ed, &since, &cold_out, &warm_out);
            return Outcome::fail(
                sig,
                format!(
                    "veryl {} leaves different emitted files with the fragment cache (restored {:?}):\n{}causes: {:#?}\nafter:\n  {}",
                    cmd.name(),
                    warm.restored,
                    diff,
                    causes,
                    steps.join("\n  ")
                ),
                mk_input(json!({"diff": diff, "causes": causes})),
            );
        }
        // ---- bookkeeping ----------------------------------------------------
        if let Some((k, n)) = warm.restored
            && k > 0
            && edits > 0
        {
            nontrivial = true;
            classes.insert("restored_after_edit".into());
            if !warm.warnings().is_empty() {
                classes.insert("warning_reported_with_restored_files".into());
                if k == n {
                    classes.insert("warning_replayed_all_files_restored".into());
                }
            }
            if k < n {
                classes.insert("partial_restore".into());
            }
        }
        if warm.code != Some(0) {
            classes.insert(format!("{}_failed", cmd.name()));
        }
        match cmd {
            Cmd::Check => {
                check_pending = true;
                // check stores the hashes of what it analysed
                if warm.errors().is_empty() {
                    for s in since.older.clone() {
                        since.older_then_hashed.insert(s);
                    }
                    if since.opts_changed {
                        since.opts_then_hashed = true;
                    }
                }
            }
            Cmd::Build => {
                if check_pending && edits > 0 {
                    classes.insert("check_then_build".into());
                }
                check_pending = false;
                if warm.code == Some(0) {
                    since = Since {
                        ok_ctx: p.generic_context(),
                        ok_disk: ed.disk.clone(),
                        ..Since::default()
                    };
                }
            }
            Cmd::Test => {}
        }
        last_was_cmd = true;
    }
    let _ = warm_cmds;
    let text = format!("{initial}\n{}", steps.join("\n"));
    Outcome::pass(
        hash_str(&text),
        nontrivial,
        classes.into_iter().collect(),
        text,
    )
}

/// A hand-written history (reproducers of listed findings, `known/C04/*.json`):
/// `{"toml": text, "files": {rel: text}, "steps": [step…]}` with steps
/// `{"op":"cmd","cmd":"build"|"check"}`,
/// `{"op":"write","rel":…,"text":…,"kind":"plain"|"older"|"generic_user"}`,
/// `{"op":"remove","rel":…}`, `{"op":"rename","from":…,"to":…}`,
/// `{"op":"toml","text":…,"kind":"build_option"|"format"}`.
/// Same oracle as the generated histories; the step kinds feed the same
/// root-cause naming.
fn scripted(pl: &serde_json::Value) -> Outcome {
    let ws = Workspace::new("c04s", "prj");
    ws.write("Veryl.toml", pl["toml"].as_str().unwrap_or(""));
    if let Some(files) = pl["files"].as_object() {
        for (rel, text) in files {
            ws.write(rel, text.as_str().unwrap_or(""));
        }
    }
    let mut older = false;
    let mut opts = false;
    let mut format = false;
    let mut generic = false;
    let mut hashed = false; // older/opts followed by a saving check
    let mut map_deleted = false;
    let mut moved = false;
    let mut log = vec![];
    let empty = vec![];
    for st in pl["steps"].as_array().unwrap_or(&empty) {
        match st["op"].as_str().unwrap_or("") {
            "write" => {
                let rel = st["rel"].as_str().unwrap_or("");
                let text = st["text"].as_str().unwrap_or("");
                match st["kind"].as_str().unwrap_or("plain") {
                    "older" => {
                        ws.write_older(rel, text, 1);
                        older = true;
                    }
                    "generic_user" => {
                        ws.write(rel, text);
                        generic = true;
                    }
                    _ => ws.write(rel, text),
                }
                log.push(format!("write {rel} ({})", st["kind"].as_str().unwrap_or("plain")));
            }
            "rename" => {
                let (from, to) = (st["from"].as_str().unwrap_or(""), st["to"].as_str().unwrap_or(""));
                ws.rename(from, to);
                moved = true;
                log.push(format!("mv {from} {to}"));
            }
            "remove" => {
                let rel = st["rel"].as_str().unwrap_or("");
                if rel.ends_with(".sv.map") {
                    map_deleted = true;
                }
                ws.remove(rel);
                log.push(format!("rm {rel}"));
            }
            "toml" => {
                ws.write("Veryl.toml", st["text"].as_str().unwrap_or(""));
                match st["kind"].as_str().unwrap_or("") {
                    "format" => format = true,
                    _ => opts = true,
                }
                log.push(format!("Veryl.toml ({})", st["kind"].as_str().unwrap_or("")));
            }
            "cmd" => {
                let cmd = st["cmd"].as_str().unwrap_or("build");
                ws.save_state("keep");
                ws.drop_cache();
                let cold = ws.veryl(&[cmd]);
                let cold_out = ws.outputs();
                ws.restore_state("keep", true);
                let warm = ws.veryl(&[cmd]);
                let warm_out = ws.outputs();
                if cold.timed_out || warm.timed_out {
                    return Outcome::skip("a command timed out");
                }
                log.push(format!("veryl {cmd}: cold {:?} warm {:?} restored {:?}", cold.code, warm.code, warm.restored));
                let input = json!({"payload": pl, "log": log, "script": ws.script()});
                if cold.code != warm.code {
                    return Outcome::fail(format!("exit-status/{cmd}"), format!("scripted history: {log:#?}"), input);
                }
                if cold.diag_multiset() != warm.diag_multiset() {
                    let (a, b) = multiset_diff(&cold.diag_multiset(), &warm.diag_multiset());
                    return Outcome::fail(
                        diag_signature(&warm, &cold.diag_multiset(), &warm.diag_multiset()),
                        format!("scripted history: {log:#?}\nonly fresh: {a:#?}\nonly cached: {b:#?}"),
                        input,
                    );
                }
                if let Some(diff) = diff_trees(&cold_out, &warm_out, "fresh-cache", "cached") {
                    let sig = if hashed {
                        "output/check-stored-entry-trusted-by-build"
                    } else if map_deleted {
                        "output/deleted-map-not-regenerated"
                    } else if moved {
                        "output/definition-moved-dependents-not-reanalysed"
                    } else if format {
                        "output/format-section-not-in-cache-key"
                    } else if generic {
                        "output/generic-definer-not-reemitted"
                    } else {
                        "output/unexplained:scripted"
                    };
                    return Outcome::fail(sig, format!("scripted history: {log:#?}\n{diff}"), input);
                }
                if cmd == "check" && warm.errors().is_empty() && (older || opts) {
                    hashed = true;
                }
                if cmd == "build" && warm.code == Some(0) {
                    older = false;
                    opts = false;
                    format = false;
                    generic = false;
                    hashed = false;
                    map_deleted = false;
                    moved = false;
                }
            }
            _ => {}
        }
    }
    let text = log.join("\n");
    Outcome::pass(hash_str(&text), true, vec!["scripted".into()], text)
}

pub fn run(ctx: &Ctx) {
    let thorough = !ctx.is_quick();
    ctx.run_payloads("scripted", scripted);
    let mut n = ctx.scale(200, 6000);
    if let Some(k) = std::env::var("VERIF_C04_CASES").ok().and_then(|x| x.parse().ok()) {
        n = k; // development aid
    }
    ctx.run("history", CaseCfg::cases(n).choices(1200).timeout_s(3600).shrink_iters(30), move |d| {
        one_history(d, thorough)
    });
    ctx.assume("the `veryl` binary is /repo's own main.rs built by harness package vcli with the harness profile (opt-level 2, no debug assertions)");
    ctx.assume("fresh cache = the same project directory, same path, same mtimes, with .build/cache removed (.build/info.toml kept); both runs share XDG_CACHE_HOME (std sources)");
    ctx.assume("compared: exit status; multiset of (severity, code, message, file, label spans) parsed from the NO_GRAPHICS report; bytes of every *.sv, *.sv.map, *.f, *.list.rb outside .build.  Not compared: log lines (incl. `Restored k/n`), help/snippet text, .build/**, Veryl.lock, mtimes, `veryl test` results");
    ctx.assume("edited sources get an explicit fine-grained mtime (now), so 'edited after the last build' does not depend on the kernel's coarse mtime clock; older-mtime replacements use 2020-01-01 + k s");
    ctx.assume("hand-edited outputs are outside the property's edit list and are not generated here; deleted outputs and touched outputs are");
    ctx.finish(
        "exploration",
        "vproj projects (2-7 files: packages, interfaces, modules, generics, $sv members, #[test] modules, examples/, sub-directories, Veryl.toml variants, incremental = true) x histories of 4-12 steps (edit operations of vproj::edit, veryl build/check, rarely veryl test); non-trivial = the history has a warm command that printed `Restored k/n` with k >= 1 after at least one edit; distinct by project+history text",
    );
}

/// Development aid (`vc-proj GEN <n>`): generate `n` projects, run `veryl check`
/// on each, print the acceptance rate and keep the rejects under
/// /verif/.work/genreject-*.
pub fn gen_probe(n: usize) {
    let mut x: u64 = std::env::var("VERIF_SEED").ok().and_then(|s| s.parse().ok()).unwrap_or(1) * 0x9E37_79B9_7F4A_7C15;
    let mut next = move || {
        x = x.wrapping_add(0x9E37_79B9_7F4A_7C15);
        let mut z = x;
        z = (z ^ (z >> 30)).wrapping_mul(0xBF58_476D_1CE4_E5B9);
        z = (z ^ (z >> 27)).wrapping_mul(0x94D0_49BB_1331_11EB);
        (z ^ (z >> 31)) as u32
    };
    let mut ok = 0;
    let mut why: BTreeMap<String, usize> = BTreeMap::new();
    for i in 0..n {
        let v: Vec<u32> = (0..1200).map(|_| next()).collect();
        let mut d = Draw::new(v);
        let p = gen_project(&mut d, &GenOpts::default());
        let mut ws = Workspace::new("genreject", &p.cfg.name);
        let _ed = Editor::create(&p, &ws);
        let mut r = ws.veryl(&["check"]);
        if r.code == Some(0) && r.diags.is_empty() {
            r = ws.veryl(&["build"]);
        }
        if r.code == Some(0) && r.diags.is_empty() {
            ok += 1;
        } else {
            let k = r
                .diags
                .iter()
                .find(|x| !x.code.is_empty())
                .map(|x| format!("{} {}", x.code, x.message))
                .unwrap_or_else(|| format!("exit {:?}: {} {}", r.code, r.panic_line(), r.tail(3)));
            println!("#{i} rejected: {k}\n   {}\n   kept {}", p.summary(), ws.root.display());
            *why.entry(k.chars().take(60).collect()).or_default() += 1;
            ws.scratch.keep();
        }
    }
    println!("accepted {ok}/{n}");
    for (k, c) in why {
        println!("{c:4}  {k}");
    }
}
