//! C20 oracles: structure of a `GateModule` and the reports computed from it.
//!
//! Everything is recomputed from the structure (cell outputs, FF `q`, RAM read
//! data, input ports); `NetInfo::driver` is only ever *compared* with that.

#![allow(dead_code)]

use crate::gate_eval::{self, Drv, Node};
use std::collections::BTreeMap;
use veryl_synthesizer::analysis::{AreaReport, StepKind, TimingReport};
use veryl_synthesizer::ir::{CellKind, GateModule, NetDriver, PortDir};
use veryl_synthesizer::library::CellLibrary;

/// (root-cause signature, message)
pub type Finding = (String, String);

fn rel_eq(a: f64, b: f64) -> bool {
    let d = (a - b).abs();
    d <= 1e-12 || d <= 1e-9 * a.abs().max(b.abs())
}

/// Structure: ids in range, arity, exactly one driver per used net and
/// `NetInfo::driver` naming it, no combinational cycle.
pub fn check_structure(m: &GateModule) -> Vec<Finding> {
    let mut out: Vec<Finding> = vec![];
    let n = m.nets.len() as u32;
    let mut bad_id = |what: &str, id: u32, out: &mut Vec<Finding>| {
        if id >= n {
            out.push((format!("net-id-out-of-range:{what}"), format!("{what} refers to net {id}, the net table has {n} entries")));
            true
        } else {
            false
        }
    };
    let mut fatal = false;
    if n < 2 {
        out.push(("net-table-too-small".into(), "nets 0 / 1 (constants) are missing".into()));
        return out;
    }
    for (i, c) in m.cells.iter().enumerate() {
        if c.inputs.len() != gate_eval::doc_arity(c.kind) || c.inputs.len() != c.kind.arity() {
            out.push((format!("cell-arity:{}", c.kind), format!("cell{i} {} has {} inputs", c.kind, c.inputs.len())));
            fatal = true;
        }
        for &x in &c.inputs {
            fatal |= bad_id("cell-input", x, &mut out);
        }
        fatal |= bad_id("cell-output", c.output, &mut out);
    }
    for f in &m.ffs {
        fatal |= bad_id("ff-clock", f.clock, &mut out);
        fatal |= bad_id("ff-d", f.d, &mut out);
        fatal |= bad_id("ff-q", f.q, &mut out);
        if let Some(r) = &f.reset {
            fatal |= bad_id("ff-reset", r.net, &mut out);
        }
    }
    for p in &m.ports {
        for &x in &p.nets {
            fatal |= bad_id("port", x, &mut out);
        }
    }
    for r in &m.ram_blocks {
        fatal |= bad_id("ram-clock", r.clock, &mut out);
        for w in &r.write_ports {
            for &x in w.addr.iter().chain(&w.data).chain(w.mask.iter().flatten()) {
                fatal |= bad_id("ram-write-port", x, &mut out);
            }
            fatal |= bad_id("ram-write-enable", w.enable, &mut out);
            if let Some(k) = &w.mask {
                if k.len() != w.data.len() {
                    out.push(("ram-mask-length".into(), format!("mask has {} bits, data {}", k.len(), w.data.len())));
                    fatal = true;
                }
            }
            if w.data.len() != r.width {
                out.push(("ram-port-width".into(), format!("write data has {} bits, the block is {} wide", w.data.len(), r.width)));
                fatal = true;
            }
        }
        for p in &r.read_ports {
            for &x in p.addr.iter().chain(&p.data) {
                fatal |= bad_id("ram-read-port", x, &mut out);
            }
            if p.data.len() != r.width {
                out.push(("ram-port-width".into(), format!("read data has {} bits, the block is {} wide", p.data.len(), r.width)));
                fatal = true;
            }
        }
    }
    if fatal {
        return out;
    }

    // ---- structural drivers of every net
    let mut drivers: Vec<Vec<Drv>> = vec![vec![]; n as usize];
    drivers[0].push(Drv::Const(false));
    drivers[1].push(Drv::Const(true));
    for p in &m.ports {
        if matches!(p.dir, PortDir::Input | PortDir::Inout) {
            for &x in &p.nets {
                if !drivers[x as usize].contains(&Drv::Input) {
                    drivers[x as usize].push(Drv::Input);
                }
            }
        }
    }
    for (i, c) in m.cells.iter().enumerate() {
        drivers[c.output as usize].push(Drv::Cell(i));
    }
    for (i, f) in m.ffs.iter().enumerate() {
        drivers[f.q as usize].push(Drv::FfQ(i));
    }
    for (ri, r) in m.ram_blocks.iter().enumerate() {
        for (pi, p) in r.read_ports.iter().enumerate() {
            for (b, &x) in p.data.iter().enumerate() {
                drivers[x as usize].push(Drv::RamRead(ri, pi, b));
            }
        }
    }
    // ---- used nets
    let mut used = vec![false; n as usize];
    for c in &m.cells {
        for &x in &c.inputs {
            used[x as usize] = true;
        }
    }
    for f in &m.ffs {
        used[f.d as usize] = true;
        used[f.clock as usize] = true;
        if let Some(r) = &f.reset {
            used[r.net as usize] = true;
        }
    }
    for p in &m.ports {
        if matches!(p.dir, PortDir::Output | PortDir::Inout) {
            for &x in &p.nets {
                used[x as usize] = true;
            }
        }
    }
    m.for_each_ram_input_net(|x| used[x as usize] = true);

    let kind = |d: &Drv| match d {
        Drv::None => "none",
        Drv::Const(_) => "const",
        Drv::Input => "input-port",
        Drv::Cell(_) => "cell",
        Drv::FfQ(_) => "ff",
        Drv::RamRead(..) => "ram-read",
    };
    for x in 0..n as usize {
        if !used[x] {
            continue;
        }
        let ds = &drivers[x];
        let origin = m.nets[x].origin.map(|(s, b)| format!(" ({s}[{b}])")).unwrap_or_default();
        if ds.is_empty() {
            out.push(("used-net-without-driver".into(), format!("net n{x}{origin} is read but nothing drives it (NetInfo.driver = {:?})", m.nets[x].driver)));
            continue;
        }
        if ds.len() > 1 {
            let mut ks: Vec<&str> = ds.iter().map(kind).collect();
            ks.sort();
            out.push((format!("multiple-drivers:{}", ks.join("+")), format!("net n{x}{origin} is driven by {ds:?}")));
            continue;
        }
        let agree = match (&m.nets[x].driver, &ds[0]) {
            (NetDriver::Const(b), Drv::Const(c)) => b == c,
            (NetDriver::PortInput, Drv::Input) => true,
            (NetDriver::Cell(i), Drv::Cell(j)) => i == j,
            (NetDriver::FfQ(i), Drv::FfQ(j)) => i == j,
            (NetDriver::RamRead(a, b, c), Drv::RamRead(d, e, f)) => a == d && b == e && c == f,
            _ => false,
        };
        if !agree {
            let recorded = match &m.nets[x].driver {
                NetDriver::Const(_) => "const",
                NetDriver::PortInput => "input-port",
                NetDriver::Cell(_) => "cell",
                NetDriver::FfQ(_) => "ff",
                NetDriver::RamRead(..) => "ram-read",
                NetDriver::Undriven => "undriven",
            };
            out.push((
                format!("driver-field-disagrees:recorded-{recorded}/actual-{}", kind(&ds[0])),
                format!("net n{x}{origin}: NetInfo.driver = {:?}, the structure says {:?}", m.nets[x].driver, ds[0]),
            ));
        }
    }
    if !out.is_empty() {
        return out;
    }
    if let Err(e) = gate_eval::topo(m) {
        out.push((e.clone(), format!("the netlist cannot be ordered: {e}")));
    }
    out
}

/// Σ library areas.
pub fn check_area(m: &GateModule, lib: &dyn CellLibrary, rep: &AreaReport) -> Vec<Finding> {
    let mut out = vec![];
    let mut by: BTreeMap<&'static str, (CellKind, usize, f64)> = BTreeMap::new();
    let mut comb = 0.0f64;
    for c in &m.cells {
        let a = lib.info(c.kind).area;
        let e = by.entry(c.kind.symbol()).or_insert((c.kind, 0, 0.0));
        e.1 += 1;
        e.2 += a;
        comb += a;
    }
    let seq = m.ffs.len() as f64 * lib.ff_area();
    let bits: usize = m.ram_blocks.iter().map(|r| r.depth * r.width).sum();
    let mem = bits as f64 * lib.sram_model().bit_area;
    let total = comb + seq + mem;
    let mut cmp = |what: &str, got: f64, want: f64| {
        if !rel_eq(got, want) {
            out.push((format!("area-{what}"), format!("reported {what} area {got}, Σ library areas {want}")));
        }
    };
    cmp("combinational", rep.combinational, comb);
    cmp("sequential", rep.sequential, seq);
    cmp("memory", rep.memory, mem);
    cmp("total", rep.total, total);
    if rep.ff_count != m.ffs.len() {
        out.push(("area-ff-count".into(), format!("reported {} flip-flops, the netlist has {}", rep.ff_count, m.ffs.len())));
    }
    if rep.ram_bits != bits {
        out.push(("area-ram-bits".into(), format!("reported {} RAM bits, the netlist has {bits}", rep.ram_bits)));
    }
    let mut seen = 0;
    for (k, cnt, a) in &rep.by_kind {
        match by.get(k.symbol()) {
            Some((_, c2, a2)) if c2 == cnt && rel_eq(*a, *a2) => seen += 1,
            other => out.push(("area-by-kind".into(), format!("reported {k}: {cnt} cells / {a}, the netlist has {other:?}"))),
        }
    }
    if seen != by.len() && out.is_empty() {
        out.push(("area-by-kind".into(), format!("the per-kind table lists {} kinds, the netlist uses {}", rep.by_kind.len(), by.len())));
    }
    out
}

/// What the timing recomputation found (for the class histogram).
#[derive(Default, Debug)]
pub struct TimingFacts {
    pub delay: f64,
    pub depth_at_endpoint: usize,
    pub global_max_depth: usize,
    pub levels_on_reported_path: usize,
    pub endpoints: usize,
    pub bufs: usize,
    pub async_ram_on_path: bool,
}

/// Longest combinational path by a topological DP of our own.
///
/// Counting rules (comments of `compute_timing_top_n`): start points (inputs,
/// constants, FF Q, registered RAM reads, undriven nets) arrive at 0; a cell
/// adds its library delay and one level, except `Buf` which adds its delay
/// but no level; an asynchronous RAM read adds the access time of the block
/// (`access_base + access_per_log2_depth * log2(max(depth, 2))`) and one
/// level, measured from its latest address bit; end points are FF D pins,
/// output / inout port bits and RAM write port pins (address, data, enable,
/// mask).
pub fn check_timing(m: &GateModule, lib: &dyn CellLibrary, rep: &TimingReport) -> (Vec<Finding>, TimingFacts) {
    check_timing_opt(m, lib, rep, true)
}

/// `check_path = false`: only delay, end point and depth (used for netlists
/// with `Buf` cells, which the synthesizer never returns: a zero-delay Buf fed
/// by a start point gets no predecessor in `compute_timing_top_n`, so the
/// printed path may begin at the Buf output — cosmetic, not asserted).
pub fn check_timing_opt(m: &GateModule, lib: &dyn CellLibrary, rep: &TimingReport, check_path: bool) -> (Vec<Finding>, TimingFacts) {
    let mut out = vec![];
    let mut facts = TimingFacts::default();
    let t = match gate_eval::topo(m) {
        Ok(t) => t,
        Err(e) => return (vec![(e.clone(), format!("cannot order the netlist: {e}"))], facts),
    };
    let n = m.nets.len();
    let mut arr = vec![0.0f64; n];
    let mut dep = vec![0usize; n];
    let sram = lib.sram_model();
    for nd in &t.order {
        match nd {
            Node::Cell(i) => {
                let c = &m.cells[*i];
                let mut a = 0.0f64;
                let mut d = 0usize;
                for &x in &c.inputs {
                    a = a.max(arr[x as usize]);
                    d = d.max(dep[x as usize]);
                }
                arr[c.output as usize] = a + lib.info(c.kind).delay;
                dep[c.output as usize] = d + if c.kind == CellKind::Buf { 0 } else { 1 };
                if c.kind == CellKind::Buf {
                    facts.bufs += 1;
                }
            }
            Node::RamRead(r, p) => {
                let rb = &m.ram_blocks[*r];
                let port = &rb.read_ports[*p];
                let mut a = 0.0f64;
                let mut d = 0usize;
                for &x in &port.addr {
                    a = a.max(arr[x as usize]);
                    d = d.max(dep[x as usize]);
                }
                let access = sram.access_base + sram.access_per_log2_depth * (rb.depth.max(2) as f64).log2();
                for &x in &port.data {
                    arr[x as usize] = a + access;
                    dep[x as usize] = d + 1;
                }
            }
        }
    }
    let mut ends: Vec<u32> = vec![];
    for f in &m.ffs {
        ends.push(f.d);
    }
    for p in &m.ports {
        if matches!(p.dir, PortDir::Output | PortDir::Inout) {
            ends.extend(&p.nets);
        }
    }
    for r in &m.ram_blocks {
        for w in &r.write_ports {
            ends.extend(w.addr.iter().chain(&w.data).chain(std::iter::once(&w.enable)).chain(w.mask.iter().flatten()));
        }
    }
    facts.endpoints = ends.len();
    if ends.is_empty() {
        if rep.critical_path_delay != 0.0 || rep.critical_path_depth != 0 {
            out.push(("timing-without-endpoints".into(), format!("no end point, yet delay {} / depth {}", rep.critical_path_delay, rep.critical_path_depth)));
        }
        return (out, facts);
    }
    let max_arr = ends.iter().map(|&e| arr[e as usize]).fold(0.0f64, f64::max);
    facts.delay = max_arr;
    facts.global_max_depth = ends.iter().map(|&e| dep[e as usize]).max().unwrap_or(0);
    if !rel_eq(rep.critical_path_delay, max_arr) {
        out.push((
            "timing-delay".into(),
            format!("reported critical path delay {}, longest combinational path {max_arr}", rep.critical_path_delay),
        ));
    }
    // the reported end point
    let Some(last) = rep.critical_path.last() else {
        out.push(("timing-path-empty".into(), "end points exist but the reported path is empty".into()));
        return (out, facts);
    };
    let e = last.net;
    if e as usize >= n || !ends.contains(&e) {
        out.push(("timing-endpoint-not-an-endpoint".into(), format!("the reported path ends at net n{e}, which is no FF D / output / RAM write pin")));
        return (out, facts);
    }
    if !rel_eq(arr[e as usize], max_arr) {
        out.push(("timing-endpoint-not-critical".into(), format!("the reported end point n{e} arrives at {}, the latest end point at {max_arr}", arr[e as usize])));
    }
    facts.depth_at_endpoint = dep[e as usize];
    if rep.critical_path_depth != dep[e as usize] {
        out.push((
            "timing-depth".into(),
            format!(
                "reported depth {} at end point n{e}; the longest path to it has {} levels (Buf not counted; the deepest end point of the netlist has {})",
                rep.critical_path_depth, dep[e as usize], facts.global_max_depth
            ),
        ));
    }
    if !check_path {
        return (out, facts);
    }
    // the reported path is a path of the netlist with our arrival times
    let steps = &rep.critical_path[..rep.critical_path.len() - 1];
    let mut levels = 0usize;
    for (k, s) in steps.iter().enumerate() {
        let x = s.net as usize;
        if x >= n {
            out.push(("timing-path-net".into(), format!("path step {k} names net n{x}")));
            return (out, facts);
        }
        if !rel_eq(s.arrival, arr[x]) {
            out.push(("timing-path-arrival".into(), format!("path step {k} (n{x}) reports arrival {}, recomputed {}", s.arrival, arr[x])));
        }
        match t.drv[x] {
            Drv::Cell(i) => {
                if m.cells[i].kind != CellKind::Buf {
                    levels += 1;
                }
                if !matches!(s.kind, StepKind::CellOutput(j, k2) if j == i && k2 == m.cells[i].kind) {
                    out.push(("timing-path-step-kind".into(), format!("path step {k} (n{x}) is driven by cell{i} {}, reported as {:?}", m.cells[i].kind, s.kind)));
                }
                if k == 0 {
                    out.push(("timing-path-start".into(), format!("the path starts at n{x}, a cell output")));
                } else if !m.cells[i].inputs.contains(&steps[k - 1].net) {
                    out.push(("timing-path-broken".into(), format!("path step {k}: cell{i} does not read n{}", steps[k - 1].net)));
                }
            }
            Drv::RamRead(r, p, _) if !m.ram_blocks[r].read_ports[p].sync => {
                levels += 1;
                facts.async_ram_on_path = true;
                if k == 0 {
                    out.push(("timing-path-start".into(), format!("the path starts at n{x}, an asynchronous RAM read")));
                } else if !m.ram_blocks[r].read_ports[p].addr.contains(&steps[k - 1].net) {
                    out.push(("timing-path-broken".into(), format!("path step {k}: RAM read port does not take n{} as address", steps[k - 1].net)));
                }
            }
            _ => {
                if k != 0 {
                    out.push(("timing-path-broken".into(), format!("path step {k} (n{x}) is a start point in the middle of the path")));
                }
            }
        }
    }
    if steps.last().map(|s| s.net) != Some(e) {
        out.push(("timing-path-end".into(), "the path does not reach its end point".into()));
    }
    facts.levels_on_reported_path = levels;
    (out, facts)
}
