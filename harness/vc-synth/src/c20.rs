//! C20 — netlists are well-formed and the reports match them.
//!
//! Same cases as C19 (`synth_case::gen_case`, same choice sequence → same
//! text / library / `RamConfig`).  For the `SynthResult` that `synthesize_with`
//! returns (the value `veryl synth` prints from):
//!
//! * every net id is in range; `inputs.len()` equals the arity of the kind
//!   (operands of the documented formula, and `CellKind::arity`);
//! * every *used* net (read by a cell, an FF D / clock / reset pin, an output
//!   port or a RAM input pin) has exactly one structural driver (cell output,
//!   FF `q`, RAM read data bit, input port, constant) and `NetInfo::driver`
//!   names exactly that driver;
//! * the cell graph is acyclic (flip-flops and registered RAM reads cut it);
//! * `AreaReport` = Σ library areas of the cells + flip-flops × FF area +
//!   RAM bits × bit area (every field, 1e-9 relative);
//! * `TimingReport`: the delay is the longest combinational path to any end
//!   point (FF D, output bit, RAM write pin), recomputed by a topological DP;
//!   the reported end point is such a latest end point, the reported depth is
//!   the number of levels of the longest path to it (`Buf` adds delay but no
//!   level, an asynchronous RAM read adds the block's access time and one
//!   level), and the reported path is a path of the netlist with the
//!   recomputed arrival times.
//!
//! The reports are recomputed for all four cell libraries on every netlist
//! (`compute_area` / `compute_timing`), not only for the one the netlist was
//! built for.

use crate::synth_case::*;
use crate::wellformed::*;
use vcore::{CaseCfg, Ctx, Draw, Outcome, Value, hash_str, json};
use vdesign::*;
use veryl_synthesizer::analysis::{compute_area, compute_timing};
use veryl_synthesizer::library_for;

/// Insert `Buf` cells: for up to 8 nets chosen by `seed`, a new net carries a
/// buffered copy and every second reader (cell input, FF D pin) is moved to it.
fn buffered_variant(m: &veryl_synthesizer::ir::GateModule, seed: u64) -> Option<veryl_synthesizer::ir::GateModule> {
    use veryl_synthesizer::ir::{Cell, CellKind, NetDriver, NetInfo};
    if m.cells.is_empty() && m.ffs.is_empty() {
        return None;
    }
    let mut g = m.clone();
    let mut s = seed | 1;
    let mut next = || {
        s ^= s << 13;
        s ^= s >> 7;
        s ^= s << 17;
        s
    };
    // nets that are read by a cell or an FF D pin
    let mut read: Vec<u32> = g.cells.iter().flat_map(|c| c.inputs.clone()).chain(g.ffs.iter().map(|f| f.d)).filter(|&n| n >= 2).collect();
    read.sort();
    read.dedup();
    if read.is_empty() {
        return None;
    }
    let n_orig_cells = g.cells.len();
    for _ in 0..8 {
        let src = read[(next() % read.len() as u64) as usize];
        let nn = g.nets.len() as u32;
        let ci = g.cells.len();
        g.nets.push(NetInfo {
            driver: NetDriver::Cell(ci),
            origin: None,
        });
        g.cells.push(Cell {
            kind: CellKind::Buf,
            inputs: vec![src],
            output: nn,
        });
        let mut flip = next() & 1 == 0;
        let mut moved = false;
        for c in g.cells[..n_orig_cells].iter_mut() {
            for x in c.inputs.iter_mut() {
                if *x == src {
                    flip = !flip;
                    if flip {
                        *x = nn;
                        moved = true;
                    }
                }
            }
        }
        for f in g.ffs.iter_mut() {
            if f.d == src {
                flip = !flip;
                if flip || !moved {
                    f.d = nn;
                    moved = true;
                }
            }
        }
        if !moved {
            // nobody uses the copy: drop it again (a dangling cell is fine for the IR, but keep the variant tidy)
            g.cells.pop();
            g.nets.pop();
        }
    }
    Some(g)
}

pub fn evaluate(case: &SynthCase) -> Outcome {
    evaluate_with(case, 0x9E37_79B9_7F4A_7C15)
}

pub fn evaluate_with(case: &SynthCase, extra: u64) -> Outcome {
    let a = match Analyzed::new(&case.text) {
        Ok(a) => a,
        Err(r) => {
            let code = r.errors.first().map(|e| e.0.clone()).unwrap_or_default();
            return Outcome::skip(format!("generated text rejected by the analyzer ({}:{code})", r.stage));
        }
    };
    let sr = match synthesize(&a, case.library, case.ram) {
        Synth::Ok(r) => r,
        Synth::Rejected(why) => return Outcome::skip(format!("synthesizer rejects the design ({why})")),
        Synth::Panic(msg) => return Outcome::skip(format!("synthesizer panics ({msg})")),
    };
    let m = &sr.gate_ir.module;
    let payload = |extra: Value| json!({"veryl": case.text, "options": case.options_json(), "detail": extra});
    let fail = |f: &Finding, what: &str| {
        Outcome::fail(
            f.0.clone(),
            format!(
                "{what}: {}\n[library {}, {:?}]\n{}\n-- gate ir --\n{}",
                f.1,
                library_name(case.library),
                case.ram,
                case.text,
                if m.cells.len() < 200 { format!("{}", sr.gate_ir) } else { format!("({} cells)", m.cells.len()) }
            ),
            payload(json!({"finding": f.0, "message": f.1})),
        )
    };
    let st = check_structure(m);
    if let Some(f) = st.first() {
        return fail(f, "structure");
    }
    let mut classes = case.classes.clone();
    classes.push(format!("family:{}", case.family));
    classes.push(format!("library:{}", library_name(case.library)));
    netlist_classes(m, &mut classes);
    // the reports that were returned, then the reports for the other libraries
    for (k, lib_id) in LIBRARIES.iter().enumerate() {
        let lib = library_for(*lib_id);
        let own = *lib_id == case.library;
        let (area, timing) = if own { (sr.area.clone(), sr.timing.clone()) } else { (compute_area(m, lib), compute_timing(m, lib)) };
        let ar = check_area(m, lib, &area);
        if let Some(f) = ar.first() {
            return fail(f, &format!("area report ({})", library_name(*lib_id)));
        }
        let (tr, facts) = check_timing(m, lib, &timing);
        if let Some(f) = tr.first() {
            return fail(f, &format!("timing report ({})", library_name(*lib_id)));
        }
        if own || k == 0 {
            if facts.endpoints == 0 {
                classes.push("timing:no_endpoint".into());
            }
            if facts.bufs > 0 {
                classes.push("timing:netlist_has_buf".into());
            }
            if facts.async_ram_on_path {
                classes.push("timing:async_ram_read_on_critical_path".into());
            }
            if facts.depth_at_endpoint > 0 {
                classes.push("timing:depth_gt0".into());
                classes.push(if facts.depth_at_endpoint == facts.global_max_depth { "timing:critical_endpoint_is_deepest".into() } else { "timing:deeper_endpoint_exists".to_string() });
                classes.push(if facts.depth_at_endpoint == facts.levels_on_reported_path { "timing:depth_equals_levels_of_reported_path".into() } else { "timing:depth_exceeds_levels_of_reported_path".to_string() });
            }
        }
    }
    // ---- the report functions on a variant of the netlist with Buf cells in
    // it (the optimiser leaves none, so the "Buf adds delay but no level" rule
    // would otherwise never be exercised): some nets get a buffered copy that
    // half of their readers use.  Still a well-formed GateModule.
    if let Some(mb) = buffered_variant(m, extra) {
        let stb = check_structure(&mb);
        if let Some(f) = stb.first() {
            // the variant is ours: a malformed one is a harness bug, not a finding
            return Outcome::skip(format!("harness: buffered variant malformed ({})", f.0));
        }
        let lib = library_for(case.library);
        let ar = check_area(&mb, lib, &compute_area(&mb, lib));
        if let Some(f) = ar.first() {
            return fail(f, "area report of the buffered variant");
        }
        let (tr, facts) = check_timing_opt(&mb, lib, &compute_timing(&mb, lib), false);
        if let Some(f) = tr.first() {
            return fail(f, "timing report of the buffered variant");
        }
        classes.push("variant:buffered".into());
        if facts.bufs > 0 && facts.depth_at_endpoint > 0 {
            classes.push("variant:buf_and_levels".into());
        }
    }
    if sr.area.memory > 0.0 {
        classes.push("area:memory".into());
    }
    if case.family == "ram" {
        classes.push(if m.ram_blocks.is_empty() { "ram:not_inferred".into() } else { "ram:inferred".to_string() });
    }
    classes.sort();
    classes.dedup();
    let sample = format!("{}// options: {}", case.text, case.options_json());
    Outcome::pass(hash_str(&sample), nontrivial(m), classes, sample)
}

pub fn replay_recorded(p: &Value) -> Outcome {
    let case = crate::c19::case_from_payload(p);
    match evaluate(&case) {
        Outcome::Fail(mut f) => {
            if let Some(r) = p["root"].as_str() {
                if f.signature.split(':').next() == r.split(':').next() {
                    f.signature = r.to_string();
                }
            }
            Outcome::Fail(f)
        }
        o => o,
    }
}

pub fn one_case(d: &mut Draw) -> Outcome {
    let case = gen_case(d);
    let extra = d.u64();
    evaluate_with(&case, extra)
}

pub fn run(ctx: &Ctx) {
    if let Err(e) = crate::gate_eval::self_test() {
        println!("INCONCLUSIVE property=C20: gate evaluator self-test failed: {e}");
        std::process::exit(2);
    }
    ctx.run_payloads("recorded", |p| crate::c19::recorded_on_own_thread(p, replay_recorded));
    let n = std::env::var("C20_CASES").ok().and_then(|s| s.parse::<usize>().ok()).unwrap_or(ctx.scale(1200, 30_000));
    ctx.run("cases", CaseCfg::cases(n).choices(60_000).timeout_s(600), |d| crate::c19::discover("C20", one_case(d)));
    ctx.assume("counting rules of the timing report as stated in compute_timing_top_n: start points arrive at 0, Buf adds delay but no level, an asynchronous RAM read adds SramModel::access_delay(depth) and one level from its latest address bit, end points are FF D pins, output/inout bits and RAM write pins");
    ctx.assume("'critical-path depth' is read as: levels of the longest path to the reported (latest-arriving) end point; whether a deeper but faster end point exists is recorded as a class, not asserted");
    ctx.finish(
        "exploration",
        "the netlists of the C19 cases (same generator): structure, driver bookkeeping, acyclicity, and area / timing reports recomputed for all four libraries; non-trivial = netlist has FFs and > 20 cells, or a RAM block; distinct by text + options",
    );
}
