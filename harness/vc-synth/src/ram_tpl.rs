//! Memory-shaped modules as a structured specification (`RamSpec`) that is
//! rendered to Veryl text.  vdesign's IR has no reset-less `always_ff`, which
//! is what RAM inference requires, so these modules are written here.  Being
//! structured, a failing case can be minimised feature by feature and its
//! signature names what is left.
//!
//! Port names carry the identity of the read / write site (`ra3`, `wd1`, …),
//! so removing one site does not rename the others and the per-port value
//! streams of the stimulus stay valid.

#![allow(dead_code)]

use num_bigint::BigUint;
use std::collections::BTreeMap;
use std::fmt::Write as _;
use vcore::Draw;
use vdesign::{PortSpec, StimStep, Stimulus, gen_value};

#[derive(Clone, Copy, Debug, PartialEq, Eq)]
pub enum AddrSrc {
    Port,
    /// `port + 1` (power-of-two depths only: wraps inside the array)
    PortPlus1,
    /// the free-running counter
    Counter,
}

#[derive(Clone, Copy, Debug, PartialEq, Eq)]
pub enum ReadStyle {
    /// `assign q = mem[a];`
    Assign,
    /// `always_ff { if_reset { q = 0; } else { q = mem[a]; } }`
    Registered,
    /// `assign q = mem[a][hi:lo];`
    Subword(usize, usize),
    /// `always_comb { t = a; q = mem[t]; t = b; q' = mem[t]; }` — two reads
    /// through one index variable that is re-assigned in between
    ReassignedIndex,
    /// `assign q = mem[a] ^ {mem[a][0] repeat W};` — the same address twice
    SameTwice,
}

#[derive(Clone, Debug)]
pub struct ReadSpec {
    pub id: usize,
    pub addr: AddrSrc,
    pub style: ReadStyle,
}

#[derive(Clone, Copy, Debug, PartialEq, Eq)]
pub enum DataSrc {
    Port,
    NotPort,
    /// `mem[ra_first] + wd` — a genuine read feeding the write
    FromRead,
}

#[derive(Clone, Copy, Debug, PartialEq, Eq)]
pub enum WriteStyle {
    /// `if we { mem[a] = d; }`
    Plain,
    /// `mem[a] = d;`
    Uncond,
    /// `if we { mem[a] = (mem[a] & ~m) | (d & m); }` — `u8` = the three commutations
    MaskedRmw(u8),
    /// two constant sub-word lanes with their own enables; (cut, overlapping)
    Lanes(usize, bool),
    /// `if we { mem[a] = d; } else if d[0] { mem[b] = ~d; }`
    IfElse,
    /// `case op { 0: mem[a] = d; 2: mem[a] = ~d; }`
    CaseArm,
}

#[derive(Clone, Debug)]
pub struct WriteSpec {
    pub id: usize,
    pub addr: AddrSrc,
    pub data: DataSrc,
    /// non-power-of-two depth: `if a <: DEPTH { … }` around the write
    pub guard: bool,
    pub style: WriteStyle,
}

#[derive(Clone, Copy, Debug, PartialEq, Eq)]
pub enum Hier {
    /// everything in `Top`; `true` = an adder behind the first read
    Flat(bool),
    /// `RamCore` instantiated `n` times in `Top`; `Some((width, depth))` = `Top` has an array of its own as well
    Child(usize, Option<(usize, usize)>),
}

#[derive(Clone, Debug)]
pub struct RamSpec {
    pub depth: usize,
    pub width: usize,
    pub counter: bool,
    pub reads: Vec<ReadSpec>,
    pub writes: Vec<WriteSpec>,
    pub hier: Hier,
}

#[derive(Clone, Debug)]
pub struct PortGen {
    pub name: String,
    pub width: usize,
    /// values below this bound (addresses, selectors)
    pub small: Option<u64>,
    /// write enables: percentage of all-ones draws
    pub ones_pct: u32,
}

pub struct Rendered {
    pub text: String,
    pub inputs: Vec<PortGen>,
    pub outputs: Vec<(String, usize)>,
    /// (depth, width, distinct read addresses, write ports) per array
    pub arrays: Vec<(usize, usize, usize, usize)>,
}

pub fn clog2(n: usize) -> usize {
    if n <= 1 { 1 } else { (usize::BITS - (n - 1).leading_zeros()) as usize }
}

impl RamSpec {
    pub fn pow2(&self) -> bool {
        self.depth.is_power_of_two()
    }

    fn uses_counter(&self) -> bool {
        self.reads.iter().any(|r| r.addr == AddrSrc::Counter) || self.writes.iter().any(|w| w.addr == AddrSrc::Counter)
    }

    /// Feature labels (classes; after minimisation: the signature).
    pub fn features(&self) -> Vec<String> {
        let mut f = vec![];
        for r in &self.reads {
            f.push(
                match r.style {
                    ReadStyle::Assign => "read_assign",
                    ReadStyle::Registered => "read_registered",
                    ReadStyle::Subword(..) => "read_subword",
                    ReadStyle::ReassignedIndex => "read_reassigned_index",
                    ReadStyle::SameTwice => "read_same_address_twice",
                }
                .to_string(),
            );
            match r.addr {
                AddrSrc::Port => {}
                AddrSrc::PortPlus1 => f.push("read_addr_plus1".into()),
                AddrSrc::Counter => f.push("read_addr_counter".into()),
            }
        }
        for w in &self.writes {
            f.push(
                match w.style {
                    WriteStyle::Plain => "write_plain",
                    WriteStyle::Uncond => "write_unconditional",
                    WriteStyle::MaskedRmw(_) => "write_masked_rmw",
                    WriteStyle::Lanes(_, false) => "write_lanes",
                    WriteStyle::Lanes(_, true) => "write_lanes_overlapping",
                    WriteStyle::IfElse => "write_if_else",
                    WriteStyle::CaseArm => "write_case_arm",
                }
                .to_string(),
            );
            match w.addr {
                AddrSrc::Port => {}
                AddrSrc::PortPlus1 => f.push("write_addr_plus1".into()),
                AddrSrc::Counter => f.push("write_addr_counter".into()),
            }
            match w.data {
                DataSrc::Port => {}
                DataSrc::NotPort => f.push("write_data_inverted".into()),
                DataSrc::FromRead => f.push("write_data_from_read".into()),
            }
            if w.guard {
                f.push("write_guarded".into());
            }
        }
        if self.writes.len() > 1 {
            f.push("multi_write_site".into());
        }
        if self.reads.len() > 1 {
            f.push("multi_read".into());
        }
        match self.hier {
            Hier::Flat(false) => {}
            Hier::Flat(true) => f.push("logic_after_read".into()),
            Hier::Child(n, own) => {
                f.push(format!("child_x{n}"));
                if own.is_some() {
                    f.push("own_and_child".into());
                }
            }
        }
        f.push(if self.pow2() { "depth_pow2".into() } else { "depth_non_pow2".to_string() });
        f.sort();
        f.dedup();
        f
    }

    /// Signature features: everything that is not the plainest alternative.
    pub fn signature_features(&self) -> Vec<String> {
        self.features().into_iter().filter(|f| !matches!(f.as_str(), "read_assign" | "write_plain" | "depth_pow2")).collect()
    }

    /// A write site reads `mem` after an earlier site of the same
    /// `always_ff` wrote it (known finding `ff-read-after-write-in-block`
    /// when the array stays flip-flops).
    pub fn ff_read_after_write(&self) -> bool {
        self.writes.iter().enumerate().any(|(i, w)| i > 0 && (matches!(w.style, WriteStyle::MaskedRmw(_)) || w.data == DataSrc::FromRead))
    }

    pub fn has_reassigned_index(&self) -> bool {
        self.reads.iter().any(|r| r.style == ReadStyle::ReassignedIndex)
    }

    fn addr_text(&self, a: AddrSrc, port: &str, aw: usize) -> String {
        match a {
            AddrSrc::Port => port.to_string(),
            AddrSrc::PortPlus1 => format!("{port} + {aw}'d1"),
            AddrSrc::Counter => "cnt".to_string(),
        }
    }

    pub fn render(&self, clock: &str, reset: &str) -> Rendered {
        let depth = self.depth;
        let width = self.width;
        let aw = clog2(depth);
        let mut inputs: Vec<PortGen> = vec![];
        let mut outputs: Vec<(String, usize)> = vec![];
        let mut decls = String::new();
        let mut ff = String::new();
        let mut items = String::new();
        let addr_port = |inputs: &mut Vec<PortGen>, name: String| {
            if !inputs.iter().any(|p| p.name == name) {
                inputs.push(PortGen {
                    name,
                    width: aw,
                    small: Some(depth as u64),
                    ones_pct: 0,
                });
            }
        };
        writeln!(decls, "    var mem: logic<{width}> [{depth}];").unwrap();
        if self.counter || self.uses_counter() {
            writeln!(decls, "    var cnt: logic<{aw}>;").unwrap();
            if self.pow2() {
                writeln!(items, "    always_ff {{\n        if_reset {{\n            cnt = 0;\n        }} else {{\n            cnt = cnt + 1;\n        }}\n    }}").unwrap();
            } else {
                writeln!(
                    items,
                    "    always_ff {{\n        if_reset {{\n            cnt = 0;\n        }} else if cnt == {} {{\n            cnt = 0;\n        }} else {{\n            cnt = cnt + 1;\n        }}\n    }}",
                    depth - 1
                )
                .unwrap();
            }
        }
        // ---- reads
        let mut read_addrs: Vec<String> = vec![];
        let mut k = 0;
        while k < self.reads.len() {
            let r = &self.reads[k];
            let ra = format!("ra{}", r.id);
            addr_port(&mut inputs, ra.clone());
            let addr = self.addr_text(r.addr, &ra, aw);
            let q = format!("q{}", r.id);
            match r.style {
                ReadStyle::Registered => {
                    outputs.push((q.clone(), width));
                    writeln!(items, "    always_ff {{\n        if_reset {{\n            {q} = 0;\n        }} else {{\n            {q} = mem[{addr}];\n        }}\n    }}").unwrap();
                    read_addrs.push(addr);
                }
                ReadStyle::Subword(hi, lo) => {
                    let hi = hi.min(width - 1);
                    let lo = lo.min(hi);
                    outputs.push((q.clone(), hi - lo + 1));
                    writeln!(items, "    assign {q} = mem[{addr}][{hi}:{lo}];").unwrap();
                    read_addrs.push(addr);
                }
                ReadStyle::ReassignedIndex if k + 1 < self.reads.len() => {
                    let r2 = &self.reads[k + 1];
                    let ra2 = format!("ra{}", r2.id);
                    addr_port(&mut inputs, ra2.clone());
                    let q2 = format!("q{}", r2.id);
                    outputs.push((q.clone(), width));
                    outputs.push((q2.clone(), width));
                    let t = format!("t{}", r.id);
                    writeln!(decls, "    var {t}: logic<{aw}>;").unwrap();
                    writeln!(items, "    always_comb {{\n        {t} = {addr};\n        {q} = mem[{t}];\n        {t} = {ra2};\n        {q2} = mem[{t}];\n    }}").unwrap();
                    read_addrs.push(t);
                    k += 1;
                }
                ReadStyle::SameTwice => {
                    outputs.push((q.clone(), width));
                    writeln!(items, "    assign {q} = mem[{addr}] ^ {{mem[{addr}][0] repeat {width}}};").unwrap();
                    read_addrs.push(addr);
                }
                _ => {
                    outputs.push((q.clone(), width));
                    writeln!(items, "    assign {q} = mem[{addr}];").unwrap();
                    read_addrs.push(addr);
                }
            }
            k += 1;
        }
        // ---- writes
        let first_ra = format!("ra{}", self.reads.first().map(|r| r.id).unwrap_or(0));
        let mut we_bits = 0usize;
        let mut n_write_ports = 0usize;
        for w in &self.writes {
            let wa = format!("wa{}", w.id);
            let wd = format!("wd{}", w.id);
            addr_port(&mut inputs, wa.clone());
            inputs.push(PortGen {
                name: wd.clone(),
                width,
                small: None,
                ones_pct: 0,
            });
            let addr = self.addr_text(w.addr, &wa, aw);
            let data = match w.data {
                DataSrc::Port => wd.clone(),
                DataSrc::NotPort => format!("~{wd}"),
                DataSrc::FromRead => {
                    addr_port(&mut inputs, first_ra.clone());
                    read_addrs.push(first_ra.clone());
                    format!("(mem[{first_ra}] + {wd})")
                }
            };
            let guard = w.guard && !self.pow2() && w.addr == AddrSrc::Port;
            let ind = if guard { "    " } else { "" };
            if guard {
                writeln!(ff, "        if {wa} <: {aw}'d{depth} {{").unwrap();
            }
            let mut we = |we_bits: &mut usize| -> String {
                let s = format!("we{}[{}]", w.id, *we_bits);
                *we_bits += 1;
                s
            };
            let mut local_we = 0usize;
            match w.style {
                WriteStyle::Uncond => {
                    writeln!(ff, "{ind}        mem[{addr}] = {data};").unwrap();
                    n_write_ports += 1;
                }
                WriteStyle::MaskedRmw(c) => {
                    let e = we(&mut local_we);
                    let wm = format!("wm{}", w.id);
                    inputs.push(PortGen {
                        name: wm.clone(),
                        width,
                        small: None,
                        ones_pct: 0,
                    });
                    let keep = if c & 1 == 0 { format!("mem[{addr}] & ~{wm}") } else { format!("~{wm} & mem[{addr}]") };
                    let put = if c & 2 == 0 { format!("{data} & {wm}") } else { format!("{wm} & {data}") };
                    let rhs = if c & 4 == 0 { format!("({keep}) | ({put})") } else { format!("({put}) | ({keep})") };
                    writeln!(ff, "{ind}        if {e} {{\n{ind}            mem[{addr}] = {rhs};\n{ind}        }}").unwrap();
                    n_write_ports += 1;
                }
                WriteStyle::Lanes(cut, overlap) if width >= 2 => {
                    let cut = cut.clamp(1, width - 1);
                    let overlap = overlap && cut + 1 < width;
                    let hi0 = if overlap { cut } else { cut - 1 };
                    let e0 = we(&mut local_we);
                    let e1 = we(&mut local_we);
                    writeln!(ff, "{ind}        if {e0} {{\n{ind}            mem[{addr}][{hi0}:0] = {wd}[{hi0}:0];\n{ind}        }}").unwrap();
                    writeln!(ff, "{ind}        if {e1} {{\n{ind}            mem[{addr}][{}:{cut}] = ~{wd}[{}:{cut}];\n{ind}        }}", width - 1, width - 1).unwrap();
                    n_write_ports += 1;
                }
                WriteStyle::IfElse => {
                    let e = we(&mut local_we);
                    let wb = format!("wb{}", w.id);
                    addr_port(&mut inputs, wb.clone());
                    let g = if self.pow2() { String::new() } else { format!(" && {wb} <: {aw}'d{depth}") };
                    writeln!(ff, "{ind}        if {e} {{\n{ind}            mem[{addr}] = {data};\n{ind}        }} else if {wd}[0]{g} {{\n{ind}            mem[{wb}] = ~{wd};\n{ind}        }}").unwrap();
                    n_write_ports += 2;
                }
                WriteStyle::CaseArm => {
                    let op = format!("op{}", w.id);
                    inputs.push(PortGen {
                        name: op.clone(),
                        width: 2,
                        small: Some(4),
                        ones_pct: 0,
                    });
                    writeln!(
                        ff,
                        "{ind}        case {op} {{\n{ind}            2'd0: {{\n{ind}                mem[{addr}] = {data};\n{ind}            }}\n{ind}            2'd2: {{\n{ind}                mem[{addr}] = ~{wd};\n{ind}            }}\n{ind}        }}"
                    )
                    .unwrap();
                    n_write_ports += 2;
                }
                _ => {
                    let e = we(&mut local_we);
                    writeln!(ff, "{ind}        if {e} {{\n{ind}            mem[{addr}] = {data};\n{ind}        }}").unwrap();
                    n_write_ports += 1;
                }
            }
            if guard {
                writeln!(ff, "        }}").unwrap();
            }
            if local_we > 0 {
                inputs.push(PortGen {
                    name: format!("we{}", w.id),
                    width: local_we,
                    small: None,
                    ones_pct: 60,
                });
            }
            we_bits += local_we;
        }
        let _ = we_bits;
        read_addrs.sort();
        read_addrs.dedup();
        let mut arrays = vec![(depth, width, read_addrs.len(), n_write_ports)];
        let mut body = String::new();
        body.push_str(&decls);
        writeln!(body, "    always_ff (clk) {{\n{ff}    }}").unwrap();
        body.push_str(&items);

        let header = |name: &str, ins: &[PortGen], outs: &[(String, usize)], body: &str| -> String {
            let mut s = String::new();
            writeln!(s, "module {name} (").unwrap();
            writeln!(s, "    clk: input {clock},").unwrap();
            writeln!(s, "    rst: input {reset},").unwrap();
            for p in ins {
                writeln!(s, "    {}: input logic<{}>,", p.name, p.width).unwrap();
            }
            for (n, w) in outs {
                writeln!(s, "    {n}: output logic<{w}>,").unwrap();
            }
            s.push_str(") {\n");
            s.push_str(body);
            s.push_str("}\n");
            s
        };
        let mut text = String::new();
        let mut top_inputs = inputs.clone();
        let mut top_outputs: Vec<(String, usize)> = vec![];
        match self.hier {
            Hier::Flat(post) => {
                top_outputs = outputs.clone();
                if post && !outputs.is_empty() {
                    let (q, w) = outputs[0].clone();
                    writeln!(body, "    assign s0 = {q} + {w}'d1;").unwrap();
                    top_outputs.push(("s0".into(), w));
                }
                text.push_str(&header("Top", &inputs, &top_outputs, &body));
            }
            Hier::Child(n, own) => {
                text.push_str(&header("RamCore", &inputs, &outputs, &body));
                let mut tb = String::new();
                if let Some((ow, od)) = own {
                    let oa = clog2(od);
                    writeln!(tb, "    var own: logic<{ow}> [{od}];").unwrap();
                    writeln!(tb, "    always_ff (clk) {{\n        if owe {{\n            own[owa] = owd;\n        }}\n    }}").unwrap();
                    writeln!(tb, "    assign oq = own[ora];").unwrap();
                    for (nm, w, small, ones) in [("owe", 1, Some(2u64), 60), ("owa", oa, Some(od as u64), 0), ("owd", ow, None, 0), ("ora", oa, Some(od as u64), 0)] {
                        top_inputs.push(PortGen {
                            name: nm.into(),
                            width: w,
                            small,
                            ones_pct: ones,
                        });
                    }
                    top_outputs.push(("oq".into(), ow));
                    arrays.push((od, ow, 1, 1));
                }
                for i in 0..n.max(1) {
                    writeln!(tb, "    inst u{i}: RamCore (").unwrap();
                    writeln!(tb, "        clk: clk,\n        rst: rst,").unwrap();
                    for p in &inputs {
                        // the second instance stores complemented data so that the two memories differ
                        let e = if i > 0 && p.name.starts_with("wd") { format!("~{}", p.name) } else { p.name.clone() };
                        writeln!(tb, "        {}: {e},", p.name).unwrap();
                    }
                    for (q, w) in &outputs {
                        writeln!(tb, "        {q}: u{i}_{q},").unwrap();
                        top_outputs.push((format!("u{i}_{q}"), *w));
                    }
                    tb.push_str("    );\n");
                    if i > 0 {
                        arrays.push(arrays[0]);
                    }
                }
                text.push_str(&header("Top", &top_inputs, &top_outputs, &tb));
            }
        }
        Rendered {
            text,
            inputs: top_inputs,
            outputs: top_outputs,
            arrays,
        }
    }
}

pub fn gen_ram_spec(d: &mut Draw) -> RamSpec {
    let depth = *d.pick(&[4usize, 8, 2, 16, 3, 5, 32, 6]);
    let width = match d.weighted(&[5, 3, 1, 1]) {
        0 => 1 + d.below(8) as usize,
        1 => 9 + d.below(16) as usize,
        2 => 33 + d.below(8) as usize,
        _ => 64 + d.below(6) as usize,
    };
    let pow2 = depth.is_power_of_two();
    let counter = d.chance(1, 3);
    let gen_addr = |d: &mut Draw| match d.weighted(&[7, 1, 1]) {
        1 if pow2 => AddrSrc::PortPlus1,
        2 if counter => AddrSrc::Counter,
        _ => AddrSrc::Port,
    };
    let n_reads = 1 + d.weighted(&[4, 3, 1]);
    let mut reads = vec![];
    let mut id = 0;
    while reads.len() < n_reads {
        let style = match d.weighted(&[8, 3, 2, 1, 2]) {
            1 => ReadStyle::Registered,
            2 if width >= 2 => {
                let lo = d.below(width as u32 - 1) as usize;
                let hi = lo + d.below((width - lo) as u32) as usize;
                ReadStyle::Subword(hi, lo)
            }
            3 if reads.len() + 1 < n_reads => ReadStyle::ReassignedIndex,
            4 => ReadStyle::SameTwice,
            _ => ReadStyle::Assign,
        };
        let addr = gen_addr(d);
        reads.push(ReadSpec { id, addr, style });
        id += 1;
        if style == ReadStyle::ReassignedIndex {
            reads.push(ReadSpec {
                id,
                addr: AddrSrc::Port,
                style: ReadStyle::Assign,
            });
            id += 1;
        }
    }
    let n_writes = 1 + d.weighted(&[5, 2, 1]);
    let mut writes = vec![];
    for id in 0..n_writes {
        let addr = gen_addr(d);
        let data = match d.weighted(&[6, 1, 1]) {
            1 => DataSrc::NotPort,
            2 => DataSrc::FromRead,
            _ => DataSrc::Port,
        };
        let guard = !pow2 && d.bool();
        let style = match d.weighted(&[5, 1, 3, 3, 2, 2]) {
            1 => WriteStyle::Uncond,
            2 => WriteStyle::MaskedRmw(d.below(8) as u8),
            3 if width >= 2 => WriteStyle::Lanes(1 + d.below(width as u32 - 1) as usize, d.chance(1, 4)),
            4 => WriteStyle::IfElse,
            5 => WriteStyle::CaseArm,
            _ => WriteStyle::Plain,
        };
        writes.push(WriteSpec { id, addr, data, guard, style });
    }
    let hier = match d.weighted(&[3, 2, 2]) {
        0 => Hier::Flat(d.bool()),
        k => Hier::Child(k, if d.chance(1, 3) { Some((1 + d.below(6) as usize, *d.pick(&[4usize, 8]))) } else { None }),
    };
    RamSpec {
        depth,
        width,
        counter,
        reads,
        writes,
        hier,
    }
}

/// Per-port value streams (by port name, so that a minimised spec keeps the
/// values of the ports that remain).
#[derive(Clone, Debug, Default)]
pub struct Streams {
    pub values: BTreeMap<String, Vec<BigUint>>,
    pub resets: Vec<bool>,
}

pub fn gen_streams(d: &mut Draw, ports: &[PortGen]) -> Streams {
    let cycles = 16 + d.below(24) as usize;
    let n_reset = 1 + d.below(2) as usize;
    // few distinct addresses, so that reads hit what was written
    let hot: u64 = 1 + d.below(4) as u64;
    let mut st = Streams::default();
    for i in 0..n_reset + cycles {
        st.resets.push(i < n_reset || d.chance(1, 40));
    }
    for p in ports {
        let mut v = vec![];
        for _ in 0..n_reset + cycles {
            let x = if p.ones_pct > 0 && d.below(100) < p.ones_pct {
                (BigUint::from(1u32) << p.width) - 1u32
            } else {
                match p.small {
                    Some(n) => {
                        let lim = if p.width > 2 && d.chance(3, 4) { n.min(hot + 1) } else { n };
                        BigUint::from(d.below(lim.max(1) as u32))
                    }
                    None => gen_value(d, p.width as u32),
                }
            };
            v.push(x);
        }
        st.values.insert(p.name.clone(), v);
    }
    st
}

pub fn stimulus_of(r: &Rendered, st: &Streams) -> Stimulus {
    let n = st.resets.len();
    Stimulus {
        clock: Some("clk".into()),
        reset: Some("rst".into()),
        inputs: r
            .inputs
            .iter()
            .map(|p| PortSpec {
                name: p.name.clone(),
                width: p.width,
            })
            .collect(),
        outputs: r
            .outputs
            .iter()
            .map(|(n, w)| PortSpec {
                name: n.clone(),
                width: *w,
            })
            .collect(),
        steps: (0..n)
            .map(|i| StimStep {
                reset: st.resets[i],
                values: r
                    .inputs
                    .iter()
                    .map(|p| {
                        let v = st.values.get(&p.name).and_then(|s| s.get(i)).cloned().unwrap_or_default();
                        // a port that got narrower during minimisation
                        v & ((BigUint::from(1u32) << p.width) - 1u32)
                    })
                    .collect(),
            })
            .collect(),
    }
}

/// Candidate simplifications of a spec (each one step simpler).
pub fn simpler(s: &RamSpec) -> Vec<RamSpec> {
    let mut out = vec![];
    let mut push = |f: &dyn Fn(&mut RamSpec)| {
        let mut c = s.clone();
        f(&mut c);
        out.push(c);
    };
    match s.hier {
        Hier::Child(_, Some(_)) => push(&|c| {
            if let Hier::Child(n, _) = c.hier {
                c.hier = Hier::Child(n, None)
            }
        }),
        Hier::Child(2, None) => push(&|c| c.hier = Hier::Child(1, None)),
        Hier::Child(..) => push(&|c| c.hier = Hier::Flat(false)),
        Hier::Flat(true) => push(&|c| c.hier = Hier::Flat(false)),
        Hier::Flat(false) => {}
    }
    if s.writes.len() > 1 {
        for i in 0..s.writes.len() {
            push(&|c| {
                c.writes.remove(i);
            });
        }
    }
    if s.reads.len() > 1 {
        for i in 0..s.reads.len() {
            // the partner of a re-assigned index pair goes with it
            if i > 0 && s.reads[i - 1].style == ReadStyle::ReassignedIndex {
                continue;
            }
            push(&|c| {
                if c.reads[i].style == ReadStyle::ReassignedIndex && i + 1 < c.reads.len() {
                    c.reads.remove(i + 1);
                }
                c.reads.remove(i);
            });
        }
    }
    for i in 0..s.writes.len() {
        let w = &s.writes[i];
        if w.style != WriteStyle::Plain {
            push(&|c| c.writes[i].style = WriteStyle::Plain);
        }
        if w.data != DataSrc::Port {
            push(&|c| c.writes[i].data = DataSrc::Port);
        }
        if w.addr != AddrSrc::Port {
            push(&|c| c.writes[i].addr = AddrSrc::Port);
        }
    }
    for i in 0..s.reads.len() {
        let r = &s.reads[i];
        if r.style != ReadStyle::Assign {
            push(&|c| c.reads[i].style = ReadStyle::Assign);
        }
        if r.addr != AddrSrc::Port {
            push(&|c| c.reads[i].addr = AddrSrc::Port);
        }
    }
    if s.counter {
        push(&|c| c.counter = false);
    }
    if s.width > 4 {
        push(&|c| {
            c.width = 4;
            for w in c.writes.iter_mut() {
                if let WriteStyle::Lanes(cut, o) = w.style {
                    w.style = WriteStyle::Lanes(cut.clamp(1, 3), o);
                }
            }
            for r in c.reads.iter_mut() {
                if let ReadStyle::Subword(hi, lo) = r.style {
                    r.style = ReadStyle::Subword(hi.min(3), lo.min(3).min(hi.min(3)));
                }
            }
        });
    }
    out
}
