//! Trigger shapes of the *known defects* of the synthesizer (C19), as
//! predicates over vdesign's IR.  The generator draws a design again when one
//! of them hits (counted as `excluded:<key>`), except at a low rate; a failing
//! case whose minimised design hits exactly one of them gets that key as its
//! signature (matched against /verif/known_findings.d/C19.json).
//!
//! Every entry was demonstrated against the real synthesizer with a minimal
//! reproducer under /verif/known/C19/.

#![allow(dead_code)]

use std::collections::BTreeSet;
use vdesign::findings::walk;
use vdesign::*;

pub const KEYS: &[(&str, &str)] = &[
    (
        "signed-operand-in-unsigned-context",
        "a signed operand narrower than an unsigned (mixed-signedness) context is sign-extended; IEEE 1800 §11.8.2 propagates the unsigned type to the operand first (zero extension). conv/expression.rs: synthesize_expr resizes with the operand's own signedness",
    ),
    (
        "ashr-in-unsigned-context",
        "`>>>` is synthesized as an arithmetic shift even when the expression is unsigned (mixed context or unsigned left operand); IEEE 1800 §11.4.10 makes it logical then. conv/expression.rs: signed_ext = matches!(op, ArithShiftR)",
    ),
    (
        "ff-read-after-write-in-block",
        "inside always_ff a read of a variable after an assignment to it in the same block sees the new value (blocking), Veryl / the emitted SystemVerilog use non-blocking assignments (the read sees the flip-flop output). conv.rs: `current` shadows the Q nets in Declaration::Ff",
    ),
    (
        "const-wider-than-declared-type",
        "a const / param whose initialiser does not fit the declared type is used untruncated (the synthesizer takes the analyzer's evaluated value of the initialiser, `try_constant` -> eval_value, instead of the value converted to the declared width)",
    ),
    (
        "reset-branch-not-plain-constants",
        "when the if_reset branch contains anything but whole-variable `v = <literal>;` assignments (a bit / part select, struct field, array element, for loop, …) split_if_reset drops the WHOLE branch: every flip-flop of the block resets to 0 (conv.rs: extract_constant_assigns returns Err)",
    ),
    (
        "signed-comparison-in-unsigned-context",
        "`<: <= >: >=` of two signed operands used as an operand of an expression with an unsigned leaf is synthesized as an unsigned comparison (expression.rs passes the enclosing context's signedness, comptime.expr_context.signed, to arith::compare); IEEE 1800 §11.8.1: the operands of a relational operator are sized and signed among themselves",
    ),
    (
        "signed-constant-not-sign-extended",
        "a negative signed constant (literal or constant expression) narrower than its signed context / assignment target is zero-extended: synthesize_expr -> try_constant -> build_constant pads the u64 payload with zeros",
    ),
    (
        "operand-truncated-to-target-width",
        "the width of the assignment target (function argument, port, index) is used as the context width of the whole right-hand side, so an operand wider than the target is truncated BEFORE `>>`, `>>>`, `/` or `%` instead of after (IEEE 1800 §11.6: the context width is the maximum of both sides). expression.rs: synthesize_expr(expr, target_width)",
    ),
    (
        "select-of-signed-variable-is-signed",
        "a bit / part select of a signed variable keeps the variable's signedness (IEEE 1800 11.8.1: selects are unsigned): where it is extended — e.g. compared with wider case range bounds, `case s[3:2] { 4'h2..4'h3: … }` — it is sign-extended. expression.rs resizes with expr.comptime().type.signed, which the analyzer leaves set on the select",
    ),
    (
        "width-cast-ignored",
        "`e as N` (and `as u8` …) is synthesized as `e` at the width of the surrounding context (expression.rs: Op::As => synthesize_expr(x, result_width)): no truncation to N bits, so `(-v) as 2` in a 16-bit context gives 16'hffff instead of 16'h0003",
    ),
    (
        "multi-bit-condition-tests-bit-0",
        "the condition of if / ternary / switch and the operands of && / || are synthesized with `synthesize_expr(cond, 1)[0]`: for a condition wider than one bit only bit 0 is tested (IEEE 1800: true when non-zero)",
    ),
    (
        "fill-literal-ones-not-filled",
        "the fill literal `'1` (all ones at the context width) is synthesized as the 1-bit value 1 zero-extended: `a + '1` becomes a + 1 (try_constant yields 1, build_constant pads with zeros)",
    ),
];

/// Mirror of how the synthesizer hands widths down (`synthesize_expr(e, w)`):
/// report an operation whose low result bits depend on operand bits at or
/// above `w`.
fn narrow(m: &Module, e: &Expr, w: u32, hit: &mut bool) {
    match e {
        Expr::Lit(_) | Expr::EnumVal(..) | Expr::Bits(_) | Expr::Clog2(_) => {}
        Expr::Ref(r) => {
            let d = &m.decls[r.decl];
            if let Some(i) = &r.idx {
                // index at clog2(elements) bits
                let n = d.array.unwrap_or(1).max(2);
                narrow(m, i, 32 - (n - 1).leading_zeros(), hit);
            }
            match &r.sel {
                Sel::BitD(x) | Sel::PlusC(x, _) | Sel::MinusC(x, _) | Sel::Step(x, _) => {
                    let n = eval::ref_base_ty(m, r).w.max(2);
                    narrow(m, x, 32 - (n - 1).leading_zeros(), hit);
                }
                _ => {}
            }
        }
        Expr::Un(op, a) => match op {
            UnOp::Plus | UnOp::Neg | UnOp::BitNot => narrow(m, a, w, hit),
            _ => narrow(m, a, ty_of(m, a).w, hit),
        },
        Expr::Bin(op, a, b) => {
            let (ta, tb) = (ty_of(m, a), ty_of(m, b));
            match op {
                BinOp::Shr | BinOp::AShr => {
                    if ta.w > w {
                        *hit = true;
                    }
                    narrow(m, a, w, hit);
                    narrow(m, b, tb.w, hit);
                }
                BinOp::Shl | BinOp::AShl | BinOp::Pow => {
                    narrow(m, a, w, hit);
                    narrow(m, b, tb.w, hit);
                }
                BinOp::Div | BinOp::Rem => {
                    if ta.w > w || tb.w > w {
                        *hit = true;
                    }
                    narrow(m, a, w, hit);
                    narrow(m, b, w, hit);
                }
                _ if op.is_compare() => {
                    let c = ta.w.max(tb.w);
                    narrow(m, a, c, hit);
                    narrow(m, b, c, hit);
                }
                BinOp::LogAnd | BinOp::LogOr => {
                    narrow(m, a, 1, hit);
                    narrow(m, b, 1, hit);
                }
                _ => {
                    narrow(m, a, w, hit);
                    narrow(m, b, w, hit);
                }
            }
        }
        Expr::If(c, a, b) => {
            narrow(m, c, 1, hit);
            narrow(m, a, w, hit);
            narrow(m, b, w, hit);
        }
        Expr::Case(s, arms, dflt) => {
            narrow(m, s, ty_of(m, s).w, hit);
            for (_, a) in arms {
                narrow(m, a, w, hit);
            }
            narrow(m, dflt, w, hit);
        }
        Expr::Switch(arms, dflt) => {
            for (cs, a) in arms {
                for c in cs {
                    narrow(m, c, 1, hit);
                }
                narrow(m, a, w, hit);
            }
            narrow(m, dflt, w, hit);
        }
        Expr::Concat(ps) => {
            for (p, _) in ps {
                narrow(m, p, ty_of(m, p).w, hit);
            }
        }
        // `x as N`: the synthesizer passes the outer width through
        Expr::Cast(a, _) => narrow(m, a, w, hit),
        Expr::Signed(a) | Expr::Unsigned(a) => narrow(m, a, ty_of(m, e).w, hit),
        Expr::Inside(x, _, _) => narrow(m, x, ty_of(m, x).w, hit),
        Expr::Call(fi, args) => {
            for (a, d) in args.iter().zip(&m.funcs[*fi].args) {
                narrow(m, a, m.decls[*d].ty.w, hit);
            }
        }
    }
}

/// no reads of signals, no calls
fn is_const_expr(m: &Module, e: &Expr) -> bool {
    let mut all = true;
    walk(m, e, 1, &mut |mm, n| match n.e {
        Expr::Ref(r) => {
            if !matches!(mm.decls[r.decl].kind, DeclKind::Const | DeclKind::Param) {
                all = false;
            }
        }
        Expr::Call(..) => all = false,
        _ => {}
    });
    all
}

fn expr_hits(design: &Design, m: &Module, e: &Expr, dest_w: u32, out: &mut BTreeSet<&'static str>) {
    if dest_w > 0 {
        let mut hit = false;
        narrow(m, e, dest_w, &mut hit);
        if hit {
            out.insert("operand-truncated-to-target-width");
        }
    }
    walk(m, e, dest_w, &mut |mm, n| {
        let t = ty_of(mm, n.e);
        if (n.in_ctx || n.root) && t.signed && n.ctx.signed && t.w < n.ctx.w && !matches!(n.e, Expr::Lit(Lit::Dec(_))) && is_const_expr(mm, n.e) {
            let v = eval::eval_const(design, mm, n.e);
            if v.x || v.v.bit(t.w as u64 - 1) {
                out.insert("signed-constant-not-sign-extended");
            }
        }
        if n.in_ctx && t.signed && !n.ctx.signed && t.w < n.ctx.w {
            out.insert("signed-operand-in-unsigned-context");
        }
        if let Expr::Bin(op, a, b) = n.e {
            if matches!(op, BinOp::Lt | BinOp::Le | BinOp::Gt | BinOp::Ge) && n.in_ctx && ty_of(mm, a).signed && ty_of(mm, b).signed {
                out.insert("signed-comparison-in-unsigned-context");
            }
        }
        match n.e {
            Expr::Lit(Lit::AllOne) => {
                if n.ctx.w > 1 {
                    out.insert("fill-literal-ones-not-filled");
                }
            }
            Expr::Cast(..) => {
                if (n.in_ctx || n.root) && t.w < n.ctx.w {
                    out.insert("width-cast-ignored");
                }
            }
            Expr::If(c, _, _) => {
                if ty_of(mm, c).w > 1 {
                    out.insert("multi-bit-condition-tests-bit-0");
                }
            }
            Expr::Switch(arms, _) => {
                if arms.iter().any(|(cs, _)| cs.iter().any(|c| ty_of(mm, c).w > 1)) {
                    out.insert("multi-bit-condition-tests-bit-0");
                }
            }
            Expr::Bin(BinOp::LogAnd | BinOp::LogOr, a, b) => {
                if ty_of(mm, a).w > 1 || ty_of(mm, b).w > 1 {
                    out.insert("multi-bit-condition-tests-bit-0");
                }
            }
            _ => {}
        }
        if let Expr::Ref(r) = n.e {
            if !matches!(r.sel, Sel::None) && eval::ref_base_ty(mm, r).signed {
                out.insert("select-of-signed-variable-is-signed");
            }
        }
        if let Expr::Bin(BinOp::AShr, a, _) = n.e {
            if !n.ctx.signed || !ty_of(mm, a).signed {
                out.insert("ashr-in-unsigned-context");
            }
        }
    });
}

fn reads_of(m: &Module, e: &Expr, out: &mut BTreeSet<DeclId>) {
    walk(m, e, 1, &mut |_, n| {
        if let Expr::Ref(r) = n.e {
            out.insert(r.decl);
        }
    });
}

fn ref_index_reads(m: &Module, r: &Ref, out: &mut BTreeSet<DeclId>) {
    if let Some(i) = &r.idx {
        reads_of(m, i, out);
    }
    match &r.sel {
        Sel::BitD(x) | Sel::PlusC(x, _) | Sel::MinusC(x, _) | Sel::Step(x, _) => reads_of(m, x, out),
        _ => {}
    }
}

/// statements of an always_ff body in program order: a read of a decl that an
/// earlier statement (on any path) assigned
fn ff_raw(m: &Module, ss: &[Stmt], written: &mut BTreeSet<DeclId>) -> bool {
    for s in ss {
        let mut reads = BTreeSet::new();
        match s {
            Stmt::Assign { lhs, op, rhs } => {
                reads_of(m, rhs, &mut reads);
                ref_index_reads(m, lhs, &mut reads);
                if !matches!(op, AssignOp::Set) {
                    reads.insert(lhs.decl);
                }
                if reads.iter().any(|d| written.contains(d)) {
                    return true;
                }
                written.insert(lhs.decl);
            }
            Stmt::AssignConcat { lhs, rhs } => {
                reads_of(m, rhs, &mut reads);
                for l in lhs {
                    ref_index_reads(m, l, &mut reads);
                }
                if reads.iter().any(|d| written.contains(d)) {
                    return true;
                }
                for l in lhs {
                    written.insert(l.decl);
                }
            }
            Stmt::If { cond, then, els } => {
                reads_of(m, cond, &mut reads);
                if reads.iter().any(|d| written.contains(d)) {
                    return true;
                }
                let mut w1 = written.clone();
                let mut w2 = written.clone();
                if ff_raw(m, then, &mut w1) || ff_raw(m, els, &mut w2) {
                    return true;
                }
                written.extend(w1);
                written.extend(w2);
            }
            Stmt::Case { sel, arms, default } => {
                reads_of(m, sel, &mut reads);
                if reads.iter().any(|d| written.contains(d)) {
                    return true;
                }
                let mut all = written.clone();
                for (_, b) in arms {
                    let mut w = written.clone();
                    if ff_raw(m, b, &mut w) {
                        return true;
                    }
                    all.extend(w);
                }
                if let Some(d) = default {
                    let mut w = written.clone();
                    if ff_raw(m, d, &mut w) {
                        return true;
                    }
                    all.extend(w);
                }
                *written = all;
            }
            Stmt::Switch { arms, default } => {
                for (cs, _) in arms {
                    for c in cs {
                        reads_of(m, c, &mut reads);
                    }
                }
                if reads.iter().any(|d| written.contains(d)) {
                    return true;
                }
                let mut all = written.clone();
                for (_, b) in arms {
                    let mut w = written.clone();
                    if ff_raw(m, b, &mut w) {
                        return true;
                    }
                    all.extend(w);
                }
                if let Some(d) = default {
                    let mut w = written.clone();
                    if ff_raw(m, d, &mut w) {
                        return true;
                    }
                    all.extend(w);
                }
                *written = all;
            }
            Stmt::For { body, break_if, .. } => {
                if let Some(b) = break_if {
                    reads_of(m, b, &mut reads);
                    if reads.iter().any(|d| written.contains(d)) {
                        return true;
                    }
                }
                // two iterations see each other's writes
                if ff_raw(m, body, written) || ff_raw(m, body, written) {
                    return true;
                }
                if let Some(b) = break_if {
                    let mut r2 = BTreeSet::new();
                    reads_of(m, b, &mut r2);
                    if r2.iter().any(|d| written.contains(d)) {
                        return true;
                    }
                }
            }
            Stmt::Display { .. } | Stmt::Return(_) => {}
        }
    }
    false
}

fn stmt_exprs<'a>(m: &'a Module, ss: &'a [Stmt], out: &mut Vec<(&'a Expr, u32)>) {
    for s in ss {
        match s {
            Stmt::Assign { lhs, rhs, .. } => {
                out.push((rhs, eval::ref_ty(m, lhs).w));
                ref_exprs(m, lhs, out);
            }
            Stmt::AssignConcat { lhs, rhs } => {
                out.push((rhs, lhs.iter().map(|r| eval::ref_ty(m, r).w).sum()));
                for l in lhs {
                    ref_exprs(m, l, out);
                }
            }
            Stmt::If { cond, then, els } => {
                out.push((cond, 1));
                stmt_exprs(m, then, out);
                stmt_exprs(m, els, out);
            }
            Stmt::Case { sel, arms, default } => {
                out.push((sel, ty_of(m, sel).w));
                for (_, b) in arms {
                    stmt_exprs(m, b, out);
                }
                if let Some(d) = default {
                    stmt_exprs(m, d, out);
                }
            }
            Stmt::Switch { arms, default } => {
                for (cs, b) in arms {
                    for c in cs {
                        out.push((c, 1));
                    }
                    stmt_exprs(m, b, out);
                }
                if let Some(d) = default {
                    stmt_exprs(m, d, out);
                }
            }
            Stmt::For { body, break_if, .. } => {
                if let Some(b) = break_if {
                    out.push((b, 1));
                }
                stmt_exprs(m, body, out);
            }
            Stmt::Display { .. } => {}
            Stmt::Return(e) => out.push((e, 0)),
        }
    }
}

fn ref_exprs<'a>(m: &Module, r: &'a Ref, out: &mut Vec<(&'a Expr, u32)>) {
    if let Some(i) = &r.idx {
        let n = m.decls[r.decl].array.unwrap_or(1).max(2);
        out.push((i, 32 - (n - 1).leading_zeros()));
    }
    match &r.sel {
        Sel::BitD(x) | Sel::PlusC(x, _) | Sel::MinusC(x, _) | Sel::Step(x, _) => {
            let n = eval::ref_base_ty(m, r).w.max(2);
            out.push((x, 32 - (n - 1).leading_zeros()));
        }
        _ => {}
    }
}

/// every (expression, width of its assignment target) of a design
pub fn all_exprs<'a>(m: &'a Module) -> Vec<(&'a Expr, u32)> {
    let mut out = vec![];
    let used = used_consts(m);
    // function bodies count when some function is called at all
    let mut calls = false;
    {
        let mut tmp = vec![];
        for it in &m.items {
            match it {
                Item::Assign { rhs, .. } | Item::Let { rhs, .. } => tmp.push((rhs, 0)),
                Item::AlwaysComb(b) => stmt_exprs(m, b, &mut tmp),
                Item::AlwaysFf { reset, body, .. } => {
                    stmt_exprs(m, reset, &mut tmp);
                    stmt_exprs(m, body, &mut tmp);
                }
                Item::Inst { conns, .. } => {
                    for (_, c) in conns {
                        if let Conn::In(e) = c {
                            tmp.push((e, 0));
                        }
                    }
                }
            }
        }
        for (e, _) in tmp {
            walk(m, e, 1, &mut |_, n| {
                if matches!(n.e, Expr::Call(..)) {
                    calls = true;
                }
            });
        }
    }
    if calls {
        for f in &m.funcs {
            let mut v = vec![];
            stmt_exprs(m, &f.body, &mut v);
            for (e, w) in v {
                out.push((e, if w == 0 { f.ret.w } else { w }));
            }
        }
    }
    for (di, d) in m.decls.iter().enumerate() {
        if !used.contains(&di) {
            continue;
        }
        if let (DeclKind::Const | DeclKind::Param, Some(e)) = (&d.kind, &d.init) {
            out.push((e, d.ty.w));
        }
    }
    for it in &m.items {
        match it {
            Item::Assign { lhs, rhs } => {
                out.push((rhs, eval::ref_ty(m, lhs).w));
                ref_exprs(m, lhs, &mut out);
            }
            Item::Let { decl, rhs } => out.push((rhs, m.decls[*decl].ty.w)),
            Item::AlwaysComb(b) => stmt_exprs(m, b, &mut out),
            Item::AlwaysFf { reset, body, .. } => {
                stmt_exprs(m, reset, &mut out);
                stmt_exprs(m, body, &mut out);
            }
            Item::Inst { conns, .. } => {
                for (_, c) in conns {
                    if let Conn::In(e) = c {
                        out.push((e, 0));
                    }
                }
            }
        }
    }
    out
}

/// consts / params that some item (transitively) reads
fn used_consts(m: &Module) -> BTreeSet<DeclId> {
    let mut roots: Vec<(&Expr, u32)> = vec![];
    let mut tmp = vec![];
    for it in &m.items {
        match it {
            Item::Assign { lhs, rhs } => {
                tmp.push((rhs, 0));
                ref_exprs(m, lhs, &mut tmp);
            }
            Item::Let { rhs, .. } => tmp.push((rhs, 0)),
            Item::AlwaysComb(b) => stmt_exprs(m, b, &mut tmp),
            Item::AlwaysFf { reset, body, .. } => {
                stmt_exprs(m, reset, &mut tmp);
                stmt_exprs(m, body, &mut tmp);
            }
            Item::Inst { conns, params, .. } => {
                for (_, c) in conns {
                    if let Conn::In(e) = c {
                        tmp.push((e, 0));
                    }
                }
                for (_, e) in params {
                    tmp.push((e, 0));
                }
            }
        }
    }
    roots.extend(tmp);
    let mut calls = false;
    let mut used: BTreeSet<DeclId> = BTreeSet::new();
    let mut work: Vec<&Expr> = roots.iter().map(|r| r.0).collect();
    // widths written as `logic<P>`
    for d in &m.decls {
        if let TySyntax::LogicOf(p) = d.syntax {
            used.insert(p);
        }
    }
    let mut seen_funcs = false;
    loop {
        let mut new: Vec<DeclId> = vec![];
        for e in work.drain(..) {
            walk(m, e, 1, &mut |mm, n| match n.e {
                Expr::Ref(r) => {
                    if matches!(mm.decls[r.decl].kind, DeclKind::Const | DeclKind::Param) && !used.contains(&r.decl) {
                        new.push(r.decl);
                    }
                }
                Expr::Bits(d) => {
                    if !used.contains(d) {
                        new.push(*d);
                    }
                }
                Expr::Call(..) => calls = true,
                _ => {}
            });
        }
        if calls && !seen_funcs {
            seen_funcs = true;
            for f in &m.funcs {
                let mut v = vec![];
                stmt_exprs(m, &f.body, &mut v);
                for (e, _) in v {
                    work.push(e);
                }
            }
        }
        let mut grew = false;
        for d in new {
            if used.insert(d) {
                grew = true;
                if let Some(e) = &m.decls[d].init {
                    work.push(e);
                }
            }
        }
        if !grew && work.is_empty() {
            break;
        }
    }
    used
}

/// statement-level shapes: conditions wider than a bit; `x op= e` is `x = x op e`
fn stmt_level_hits(design: &Design, m: &Module, ss: &[Stmt], out: &mut BTreeSet<&'static str>) {
    for s in ss {
        match s {
            Stmt::Assign { lhs, op: AssignOp::Op(b), rhs } => {
                let e = Expr::bin(*b, Expr::Ref(lhs.clone()), rhs.clone());
                expr_hits(design, m, &e, eval::ref_ty(m, lhs).w, out);
            }
            Stmt::If { cond, then, els } => {
                if ty_of(m, cond).w > 1 {
                    out.insert("multi-bit-condition-tests-bit-0");
                }
                stmt_level_hits(design, m, then, out);
                stmt_level_hits(design, m, els, out);
            }
            Stmt::Case { arms, default, .. } => {
                for (_, b) in arms {
                    stmt_level_hits(design, m, b, out);
                }
                if let Some(d) = default {
                    stmt_level_hits(design, m, d, out);
                }
            }
            Stmt::Switch { arms, default } => {
                for (cs, b) in arms {
                    if cs.iter().any(|c| ty_of(m, c).w > 1) {
                        out.insert("multi-bit-condition-tests-bit-0");
                    }
                    stmt_level_hits(design, m, b, out);
                }
                if let Some(d) = default {
                    stmt_level_hits(design, m, d, out);
                }
            }
            Stmt::For { body, break_if, .. } => {
                if let Some(b) = break_if {
                    if ty_of(m, b).w > 1 {
                        out.insert("multi-bit-condition-tests-bit-0");
                    }
                }
                stmt_level_hits(design, m, body, out);
            }
            _ => {}
        }
    }
}

/// Keys of the known findings whose trigger shape occurs in `design`.
pub fn design_hits(design: &Design) -> Vec<&'static str> {
    let mut out: BTreeSet<&'static str> = BTreeSet::new();
    for (mi, m) in design.modules.iter().enumerate() {
        for (e, w) in all_exprs(m) {
            expr_hits(design, m, e, w, &mut out);
        }
        let used = used_consts(m);
        for (di, d) in m.decls.iter().enumerate() {
            if !used.contains(&di) {
                continue;
            }
            if let (DeclKind::Const | DeclKind::Param, Some(e)) = (&d.kind, &d.init) {
                let full = eval::eval_const(design, m, e);
                let conv = eval::eval_const_assign(design, m, e, d.ty.w);
                let ti = ty_of(m, e);
                // value or shape differs (the width of the initialiser also leaks: `{C repeat 2}`)
                if full.x || conv.x || full.v != conv.v || ti.w != d.ty.w || ti.signed != d.ty.signed {
                    out.insert("const-wider-than-declared-type");
                }
            }
        }
        // input connections are assignments to the child's port
        for it in &m.items {
            if let Item::Inst { module, conns, .. } = it {
                for (port, c) in conns {
                    if let Conn::In(e) = c {
                        let w = design.modules[*module].decls[*port].ty.w;
                        expr_hits(design, m, e, w, &mut out);
                    }
                }
            }
            let mut bodies: Vec<&[Stmt]> = vec![];
            match it {
                Item::AlwaysComb(b) => bodies.push(b),
                Item::AlwaysFf { body, .. } => bodies.push(body),
                _ => {}
            }
            for b in bodies {
                stmt_level_hits(design, m, b, &mut out);
            }
            if let Item::AlwaysFf { reset, .. } = it {
                let plain = reset.iter().all(|s| {
                    matches!(s, Stmt::Assign { lhs, op: AssignOp::Set, rhs: Expr::Lit(Lit::Sized { .. } | Lit::Dec(_)) }
                        if lhs.idx.is_none() && lhs.field.is_none() && matches!(lhs.sel, Sel::None) && m.decls[lhs.decl].array.is_none())
                });
                if !plain {
                    out.insert("reset-branch-not-plain-constants");
                }
            }
            if let Item::AlwaysFf { body, .. } = it {
                let mut written = BTreeSet::new();
                if ff_raw(m, body, &mut written) {
                    out.insert("ff-read-after-write-in-block");
                }
            }
        }
        let _ = mi;
    }
    out.into_iter().collect()
}


/// Rewrite the trigger shapes that can be removed locally (so that fewer
/// designs have to be drawn again): returns the keys that were repaired.
///
/// * `ff-read-after-write-in-block`: top-level statements of an always_ff
///   body that read what an earlier statement of the block assigned are dropped;
/// * `reset-branch-not-plain-constants`: when every flip-flop of the block is
///   a plain vector, the reset branch becomes `v = <literal>;` per variable;
/// * `const-wider-than-declared-type`: the initialiser of a `const` becomes
///   the literal of its declared type and value.
pub fn repair(design: &mut Design) -> Vec<&'static str> {
    let mut done: BTreeSet<&'static str> = BTreeSet::new();
    let snapshot = design.clone();
    for (mi, m) in design.modules.iter_mut().enumerate() {
        let ms = &snapshot.modules[mi];
        for it in m.items.iter_mut() {
            if let Item::AlwaysFf { reset, body, .. } = it {
                // K3
                let mut written: BTreeSet<DeclId> = BTreeSet::new();
                let mut keep = vec![];
                for st in body.iter() {
                    let mut w2 = written.clone();
                    if ff_raw(ms, std::slice::from_ref(st), &mut w2) {
                        done.insert("ff-read-after-write-in-block");
                        continue;
                    }
                    written = w2;
                    keep.push(st.clone());
                }
                *body = keep;
                // K5
                let plain = reset.iter().all(|s| {
                    matches!(s, Stmt::Assign { lhs, op: AssignOp::Set, rhs: Expr::Lit(Lit::Sized { .. } | Lit::Dec(_)) }
                        if lhs.idx.is_none() && lhs.field.is_none() && matches!(lhs.sel, Sel::None) && ms.decls[lhs.decl].array.is_none())
                });
                if !plain {
                    let mut targets: Vec<DeclId> = vec![];
                    fn tg(ss: &[Stmt], out: &mut Vec<DeclId>) {
                        for s in ss {
                            match s {
                                Stmt::Assign { lhs, .. } => out.push(lhs.decl),
                                Stmt::AssignConcat { lhs, .. } => out.extend(lhs.iter().map(|l| l.decl)),
                                Stmt::For { body, .. } => tg(body, out),
                                Stmt::If { then, els, .. } => {
                                    tg(then, out);
                                    tg(els, out);
                                }
                                _ => {}
                            }
                        }
                    }
                    tg(reset, &mut targets);
                    targets.sort();
                    targets.dedup();
                    targets.retain(|d| ms.decls[*d].kind != DeclKind::LoopVar);
                    let simple = targets.iter().all(|d| ms.decls[*d].array.is_none() && matches!(ms.decls[*d].syntax, TySyntax::Logic | TySyntax::Bit | TySyntax::Fixed | TySyntax::LogicOf(_)));
                    if simple && !targets.is_empty() {
                        *reset = targets
                            .iter()
                            .map(|d| {
                                let ty = ms.decls[*d].ty;
                                // a value that depends on the variable, not all zero
                                let v = (num_bigint::BigUint::from(0x5a5a_5a5a_5a5a_5a5au64) >> (*d % 7)) & eval::mask(ty.w);
                                Stmt::Assign {
                                    lhs: Ref::whole(*d),
                                    op: AssignOp::Set,
                                    rhs: Expr::lit(ty, v),
                                }
                            })
                            .collect();
                        done.insert("reset-branch-not-plain-constants");
                    }
                }
            }
        }
        // K4
        let used = used_consts(ms);
        for (di, d) in m.decls.iter_mut().enumerate() {
            if d.kind != DeclKind::Const || !used.contains(&di) {
                continue;
            }
            if let (Some(e), Some(v)) = (&d.init, &d.value) {
                let full = eval::eval_const(&snapshot, ms, e);
                let conv = eval::eval_const_assign(&snapshot, ms, e, d.ty.w);
                let ti = ty_of(ms, e);
                if (full.x || conv.x || full.v != conv.v || ti.w != d.ty.w || ti.signed != d.ty.signed) && !matches!(d.syntax, TySyntax::Struct(_) | TySyntax::Enum(_)) {
                    d.init = Some(Expr::lit(d.ty, v.clone()));
                    done.insert("const-wider-than-declared-type");
                }
            }
        }
    }
    done.into_iter().collect()
}
