mod c19;
mod c20;

fn main() {
    let args: Vec<String> = std::env::args().skip(1).collect();
    let id = args.first().cloned().unwrap_or_default();
    vcore::quiet_panics();
    let ctx = vcore::Ctx::new(&id, &args[1.min(args.len())..]);
    match id.as_str() {
        "C19" => c19::run(&ctx),
        "C20" => c20::run(&ctx),
        _ => {
            eprintln!("unknown property id {id:?}");
            std::process::exit(2);
        }
    }
}
