mod c19;
mod c20;
mod gate_eval;
mod ram_tpl;
mod synth_findings;
mod selftest;
mod shape_tpl;
mod synth_case;
mod wellformed;

fn main() {
    let args: Vec<String> = std::env::args().skip(1).collect();
    let id = args.first().cloned().unwrap_or_default();
    if id != "probe" {
        vcore::quiet_panics();
    }
    if id == "probe" {
        // development aid: vc-synth probe <reproducer.json> — both traces side by side
        let text = std::fs::read_to_string(&args[1]).expect("read");
        let v: vcore::Value = serde_json::from_str(&text).expect("json");
        let p = if v.get("payload").is_some() { v["payload"].clone() } else { v };
        std::thread::Builder::new().stack_size(64 << 20).spawn(move || c19::probe(&p)).unwrap().join().unwrap();
        return;
    }
    let ctx = vcore::Ctx::new(&id, &args[1.min(args.len())..]);
    match id.as_str() {
        "C19" => c19::run(&ctx),
        "C20" => c20::run(&ctx),
        _ => {
            eprintln!("unknown property id {id:?}");
            std::process::exit(2);
        }
    }
}
