//! Hand-built netlists that pin the gate evaluator's state elements to the
//! documentation of `ir.rs` (flip-flop reset spec / value, RAM write ports
//! with enable and mask, asynchronous and registered reads).  A failure here
//! is a harness bug (exit 2), never a finding.

#![allow(dead_code)]

use crate::gate_eval::{ClockSpec, GateSim, X};
use num_bigint::BigUint;
use veryl_analyzer::symbol::ClockDomain;
use veryl_parser::resource_table::insert_str;
use veryl_synthesizer::ir::*;

struct B {
    m: GateModule,
}

impl B {
    fn new() -> B {
        let mut m = GateModule::default();
        m.nets.push(NetInfo {
            driver: NetDriver::Const(false),
            origin: None,
        });
        m.nets.push(NetInfo {
            driver: NetDriver::Const(true),
            origin: None,
        });
        B { m }
    }
    fn net(&mut self) -> u32 {
        self.m.nets.push(NetInfo {
            driver: NetDriver::Undriven,
            origin: None,
        });
        self.m.nets.len() as u32 - 1
    }
    fn port(&mut self, name: &str, dir: PortDir, w: usize) -> Vec<u32> {
        let nets: Vec<u32> = (0..w).map(|_| self.net()).collect();
        let n = insert_str(name);
        self.m.ports.push(GatePort {
            name: n,
            path: vec![n],
            dir,
            nets: nets.clone(),
        });
        nets
    }
}

fn u(v: u32) -> BigUint {
    BigUint::from(v)
}

pub fn ram_self_test() -> Result<(), String> {
    // ---- flip-flops: every reset flavour
    for (pol, sync, high) in [
        (ResetPolarity::ActiveHigh, false, true),
        (ResetPolarity::ActiveLow, false, false),
        (ResetPolarity::ActiveHigh, true, true),
        (ResetPolarity::ActiveLow, true, false),
    ] {
        let mut b = B::new();
        let clk = b.port("clk", PortDir::Input, 1)[0];
        let rst = b.port("rst", PortDir::Input, 1)[0];
        let d = b.port("d", PortDir::Input, 2);
        let q = b.port("q", PortDir::Output, 2);
        for i in 0..2 {
            b.m.ffs.push(FfCell {
                clock: clk,
                clock_edge: ClockEdge::Posedge,
                reset: Some(ResetSpec {
                    net: rst,
                    polarity: pol,
                    sync,
                }),
                d: d[i],
                q: q[i],
                reset_value: i == 1,
                clock_domain: ClockDomain::None,
                origin: None,
            });
        }
        let cs = ClockSpec {
            clock: Some("clk".into()),
            reset: Some("rst".into()),
            reset_active_high: high,
        };
        let mut s = GateSim::new(&b.m, &cs)?;
        s.set_input("d", &u(1))?;
        s.step(false);
        let (v, x, _) = s.get_output("q")?;
        if v != u(1) || x != u(0) {
            return Err(format!("ff: q = d expected after a plain edge ({pol:?}, sync {sync}): {v} / {x}"));
        }
        s.step(true);
        let (v, x, _) = s.get_output("q")?;
        if v != u(2) || x != u(0) {
            return Err(format!("ff: reset values expected after a reset edge ({pol:?}, sync {sync}): {v} / {x}"));
        }
        // the wrong polarity must NOT reset
        let cs2 = ClockSpec {
            reset_active_high: !high,
            ..cs.clone()
        };
        let mut s = GateSim::new(&b.m, &cs2)?;
        s.set_input("d", &u(1))?;
        s.step(true);
        let (v, _, _) = s.get_output("q")?;
        if v != u(1) {
            return Err("ff: a reset driven with the opposite level must load d".into());
        }
        if s.clocking_errors(false, Some(sync)).is_empty() {
            return Err("clocking_errors misses a polarity mismatch".into());
        }
    }
    // ---- RAM 4 x 3: one masked write port, one plain, async + registered read
    let mut b = B::new();
    let clk = b.port("clk", PortDir::Input, 1)[0];
    let we = b.port("we", PortDir::Input, 2);
    let wa = b.port("wa", PortDir::Input, 2);
    let wd = b.port("wd", PortDir::Input, 3);
    let wm = b.port("wm", PortDir::Input, 3);
    let wa2 = b.port("wa2", PortDir::Input, 2);
    let wd2 = b.port("wd2", PortDir::Input, 3);
    let ra = b.port("ra", PortDir::Input, 2);
    let qa = b.port("qa", PortDir::Output, 3);
    let qs = b.port("qs", PortDir::Output, 3);
    b.m.ram_blocks.push(RamBlock {
        name: insert_str("mem"),
        depth: 4,
        width: 3,
        clock: clk,
        clock_edge: ClockEdge::Posedge,
        read_ports: vec![
            RamReadPort {
                addr: ra.clone(),
                data: qa.clone(),
                sync: false,
            },
            RamReadPort {
                addr: ra.clone(),
                data: qs.clone(),
                sync: true,
            },
        ],
        write_ports: vec![
            RamWritePort {
                addr: wa.clone(),
                data: wd.clone(),
                enable: we[0],
                mask: Some(wm.clone()),
            },
            RamWritePort {
                addr: wa2.clone(),
                data: wd2.clone(),
                enable: we[1],
                mask: None,
            },
        ],
    });
    let cs = ClockSpec {
        clock: Some("clk".into()),
        reset: None,
        reset_active_high: false,
    };
    let mut s = GateSim::new(&b.m, &cs)?;
    let set = |s: &mut GateSim, we: u32, wa: u32, wd: u32, wm: u32, wa2: u32, wd2: u32, ra: u32| -> Result<(), String> {
        s.set_input("we", &u(we))?;
        s.set_input("wa", &u(wa))?;
        s.set_input("wd", &u(wd))?;
        s.set_input("wm", &u(wm))?;
        s.set_input("wa2", &u(wa2))?;
        s.set_input("wd2", &u(wd2))?;
        s.set_input("ra", &u(ra))
    };
    let get = |s: &GateSim, n: &str| -> Result<(u32, u32), String> {
        let (v, x, _) = s.get_output(n)?;
        Ok((v.iter_u32_digits().next().unwrap_or(0), x.iter_u32_digits().next().unwrap_or(0)))
    };
    // nothing written yet: X
    set(&mut s, 0, 0, 0, 0, 0, 0, 1)?;
    s.step(false);
    if get(&s, "qa")?.1 != 7 {
        return Err("ram: a word never written must read X".into());
    }
    // plain write of 5 to word 1 through port 2, read it asynchronously in the same step's settle
    set(&mut s, 2, 0, 0, 0, 1, 5, 1)?;
    s.step(false);
    if get(&s, "qa")? != (5, 0) {
        return Err(format!("ram: async read after write: {:?}", get(&s, "qa")?));
    }
    // the registered port sampled word 1 while it was being written: X (collision)
    if get(&s, "qs")?.1 != 7 {
        return Err("ram: registered read colliding with a write must be X".into());
    }
    // no write: the registered port now delivers the word, one cycle after the address
    set(&mut s, 0, 0, 0, 0, 0, 0, 1)?;
    s.step(false);
    if get(&s, "qs")? != (5, 0) {
        return Err(format!("ram: registered read: {:?}", get(&s, "qs")?));
    }
    // masked write: bits 0 and 2 of word 1 get 0b010 -> bit1 retained (0), bit0 <- 0, bit2 <- 0 => 0
    set(&mut s, 1, 1, 2, 5, 0, 0, 1)?;
    s.step(false);
    if get(&s, "qa")? != (0, 0) {
        return Err(format!("ram: masked write (mask 101, data 010 over 101): {:?}", get(&s, "qa")?));
    }
    // masked write with mask 010, data 111 -> 010
    set(&mut s, 1, 1, 7, 2, 0, 0, 1)?;
    s.step(false);
    if get(&s, "qa")? != (2, 0) {
        return Err(format!("ram: masked write (mask 010): {:?}", get(&s, "qa")?));
    }
    // enable low: nothing happens
    set(&mut s, 0, 1, 7, 7, 1, 7, 1)?;
    s.step(false);
    if get(&s, "qa")? != (2, 0) {
        return Err("ram: a write with enable low must not change the word".into());
    }
    // both ports on the same word: undefined by the documentation -> X
    set(&mut s, 3, 1, 1, 7, 1, 6, 1)?;
    s.step(false);
    if get(&s, "qa")?.1 != 7 {
        return Err(format!("ram: two ports on one word must give X: {:?}", get(&s, "qa")?));
    }
    // two ports on different words: both happen
    set(&mut s, 3, 0, 3, 7, 2, 4, 0)?;
    s.step(false);
    if get(&s, "qa")? != (3, 0) {
        return Err(format!("ram: port 1 of two: {:?}", get(&s, "qa")?));
    }
    set(&mut s, 0, 0, 0, 0, 0, 0, 2)?;
    s.step(false);
    if get(&s, "qa")? != (4, 0) {
        return Err(format!("ram: port 2 of two: {:?}", get(&s, "qa")?));
    }
    let _ = X;
    Ok(())
}
