//! Gate-level evaluator for `veryl_synthesizer::ir::GateModule`, written from
//! the doc comments of `ir.rs` (not from `analysis.rs` / `conv`):
//!
//! * every `CellKind` by its documented Boolean function
//!   (`Ao21 = (A & B) | C`, `Mux2 inputs = [sel, d_when_sel_0, d_when_sel_1]`, …);
//! * flip-flops: `q <= d` on the active clock edge; `ResetSpec { net,
//!   polarity, sync }` and `reset_value`;
//! * RAM blocks: write ports commit on the clock edge when `enable` is high
//!   (`addr` / `data` LSB first, `mask[i]` high = bit `i` written, retained
//!   otherwise); read ports drive their `data` nets, `sync = false`
//!   combinationally, `sync = true` one cycle after the address.
//!
//! Values are three-valued (0, 1, X).  X is "the documentation does not say":
//! flip-flops before their first reset, RAM words never written (real SRAM has
//! no reset), an out-of-range address, a read that collides with a write on a
//! registered read port.  A cell output is X only if it really depends on an X
//! input (all completions of the X inputs are enumerated, arity ≤ 4).  The
//! comparison with the RTL simulator then only uses known bits, so nothing the
//! netlist leaves open can become a false alarm.
//!
//! The evaluator derives drivers from the structure (cell outputs, FF `q`,
//! RAM read data, input ports), never from `NetInfo::driver` — that field is
//! checked against the structure by C20.

#![allow(dead_code)]

use num_bigint::BigUint;
use veryl_synthesizer::ir::{CellKind, GateModule, PortDir, ResetPolarity};

/// 0, 1 or X (2)
pub type V = u8;
pub const X: V = 2;

/// Boolean function of a cell, 64 evaluations in parallel; `a` holds
/// `kind.arity()` words.  The arity table is the number of operands in the
/// documented formula.
pub fn cell_fn(kind: CellKind, a: &[u64]) -> u64 {
    use CellKind::*;
    match kind {
        Buf => a[0],
        Not => !a[0],
        And2 => a[0] & a[1],
        Or2 => a[0] | a[1],
        Nand2 => !(a[0] & a[1]),
        Nor2 => !(a[0] | a[1]),
        Xor2 => a[0] ^ a[1],
        Xnor2 => !(a[0] ^ a[1]),
        And3 => a[0] & a[1] & a[2],
        Or3 => a[0] | a[1] | a[2],
        Nand3 => !(a[0] & a[1] & a[2]),
        Nor3 => !(a[0] | a[1] | a[2]),
        Ao21 => (a[0] & a[1]) | a[2],
        Aoi21 => !((a[0] & a[1]) | a[2]),
        Oa21 => (a[0] | a[1]) & a[2],
        Oai21 => !((a[0] | a[1]) & a[2]),
        Ao31 => (a[0] & a[1] & a[2]) | a[3],
        Aoi31 => !((a[0] & a[1] & a[2]) | a[3]),
        Ao22 => (a[0] & a[1]) | (a[2] & a[3]),
        Aoi22 => !((a[0] & a[1]) | (a[2] & a[3])),
        Oai22 => !((a[0] | a[1]) & (a[2] | a[3])),
        // inputs = [sel, d_when_sel_0, d_when_sel_1]
        Mux2 => (!a[0] & a[1]) | (a[0] & a[2]),
    }
}

/// number of operands of the documented formula
pub fn doc_arity(kind: CellKind) -> usize {
    use CellKind::*;
    match kind {
        Buf | Not => 1,
        And2 | Or2 | Nand2 | Nor2 | Xor2 | Xnor2 => 2,
        And3 | Or3 | Nand3 | Nor3 | Ao21 | Aoi21 | Oa21 | Oai21 | Mux2 => 3,
        Ao31 | Aoi31 | Ao22 | Aoi22 | Oai22 => 4,
    }
}

/// three-valued cell evaluation: exact over all completions of the X inputs
pub fn cell_tern(kind: CellKind, ins: &[V]) -> V {
    let n = ins.len();
    let mut words = [0u64; 4];
    let mut xs: [usize; 4] = [0; 4];
    let mut nx = 0;
    for (i, &v) in ins.iter().enumerate() {
        match v {
            0 => words[i] = 0,
            1 => words[i] = !0,
            _ => {
                xs[nx] = i;
                nx += 1;
            }
        }
    }
    if nx == 0 {
        return (cell_fn(kind, &words[..n]) & 1) as V;
    }
    // completion k of the X inputs lives in bit k
    const PAT: [u64; 4] = [0xAAAA, 0xCCCC, 0xF0F0, 0xFF00];
    for (j, &i) in xs[..nx].iter().enumerate() {
        words[i] = PAT[j];
    }
    let r = cell_fn(kind, &words[..n]) & ((1u64 << (1 << nx)) - 1);
    if r == 0 {
        0
    } else if r == (1u64 << (1 << nx)) - 1 {
        1
    } else {
        X
    }
}

#[inline]
fn merge(a: V, b: V) -> V {
    if a == b { a } else { X }
}

#[derive(Clone, Copy, Debug)]
pub enum Node {
    Cell(usize),
    /// asynchronous read port `(ram, port)`
    RamRead(usize, usize),
}

/// Structural driver of a net.
#[derive(Clone, Copy, Debug, PartialEq, Eq)]
pub enum Drv {
    None,
    Const(bool),
    Input,
    Cell(usize),
    FfQ(usize),
    RamRead(usize, usize, usize),
}

/// Topological order of the combinational nodes (cells and asynchronous RAM
/// reads; flip-flops and registered reads cut the graph) plus the structural
/// driver of every net.  `Err` = the netlist cannot be evaluated (names the
/// reason: out-of-range id, wrong arity, two drivers, combinational cycle).
pub struct Topo {
    pub order: Vec<Node>,
    pub drv: Vec<Drv>,
}

pub fn topo(m: &GateModule) -> Result<Topo, String> {
    let n = m.nets.len();
    let chk = |id: u32, what: &str| -> Result<(), String> {
        if (id as usize) < n { Ok(()) } else { Err(format!("net-id-out-of-range:{what}")) }
    };
    let mut drv = vec![Drv::None; n];
    let mut set = |drv: &mut Vec<Drv>, net: u32, d: Drv| -> Result<(), String> {
        let slot = &mut drv[net as usize];
        if *slot != Drv::None && *slot != d {
            return Err(format!("multiple-drivers:{:?}+{:?}", kind_of(slot), kind_of(&d)));
        }
        *slot = d;
        Ok(())
    };
    fn kind_of(d: &Drv) -> &'static str {
        match d {
            Drv::None => "none",
            Drv::Const(_) => "const",
            Drv::Input => "input",
            Drv::Cell(_) => "cell",
            Drv::FfQ(_) => "ff",
            Drv::RamRead(..) => "ram",
        }
    }
    if n < 2 {
        return Err("net-table-too-small".into());
    }
    drv[0] = Drv::Const(false);
    drv[1] = Drv::Const(true);
    for p in &m.ports {
        for &x in &p.nets {
            chk(x, "port")?;
            if matches!(p.dir, PortDir::Input | PortDir::Inout) {
                set(&mut drv, x, Drv::Input)?;
            }
        }
    }
    for (i, c) in m.cells.iter().enumerate() {
        if c.inputs.len() != doc_arity(c.kind) {
            return Err(format!("cell-arity:{}", c.kind));
        }
        for &x in &c.inputs {
            chk(x, "cell-input")?;
        }
        chk(c.output, "cell-output")?;
        set(&mut drv, c.output, Drv::Cell(i))?;
    }
    for (i, f) in m.ffs.iter().enumerate() {
        chk(f.clock, "ff-clock")?;
        chk(f.d, "ff-d")?;
        chk(f.q, "ff-q")?;
        if let Some(r) = &f.reset {
            chk(r.net, "ff-reset")?;
        }
        set(&mut drv, f.q, Drv::FfQ(i))?;
    }
    for (ri, r) in m.ram_blocks.iter().enumerate() {
        chk(r.clock, "ram-clock")?;
        for w in &r.write_ports {
            for &x in w.addr.iter().chain(&w.data).chain(w.mask.iter().flatten()) {
                chk(x, "ram-write")?;
            }
            chk(w.enable, "ram-enable")?;
            if w.data.len() != r.width || w.mask.as_ref().is_some_and(|k| k.len() != w.data.len()) {
                return Err("ram-port-width".into());
            }
        }
        for (pi, p) in r.read_ports.iter().enumerate() {
            if p.data.len() != r.width {
                return Err("ram-port-width".into());
            }
            for &x in &p.addr {
                chk(x, "ram-read-addr")?;
            }
            for (b, &x) in p.data.iter().enumerate() {
                chk(x, "ram-read-data")?;
                set(&mut drv, x, Drv::RamRead(ri, pi, b))?;
            }
        }
    }
    // Kahn
    let mut nodes: Vec<Node> = (0..m.cells.len()).map(Node::Cell).collect();
    for (ri, r) in m.ram_blocks.iter().enumerate() {
        for (pi, p) in r.read_ports.iter().enumerate() {
            if !p.sync {
                nodes.push(Node::RamRead(ri, pi));
            }
        }
    }
    let node_of_net = |x: u32| -> Option<usize> {
        match drv[x as usize] {
            Drv::Cell(i) => Some(i),
            Drv::RamRead(ri, pi, _) if !m.ram_blocks[ri].read_ports[pi].sync => {
                // index of that node
                let mut k = m.cells.len();
                for (r2, r) in m.ram_blocks.iter().enumerate() {
                    for (p2, p) in r.read_ports.iter().enumerate() {
                        if !p.sync {
                            if r2 == ri && p2 == pi {
                                return Some(k);
                            }
                            k += 1;
                        }
                    }
                }
                None
            }
            _ => None,
        }
    };
    let ins = |nd: &Node| -> &[u32] {
        match nd {
            Node::Cell(i) => &m.cells[*i].inputs,
            Node::RamRead(r, p) => &m.ram_blocks[*r].read_ports[*p].addr,
        }
    };
    let mut indeg = vec![0u32; nodes.len()];
    let mut succ: Vec<Vec<u32>> = vec![vec![]; nodes.len()];
    for (k, nd) in nodes.iter().enumerate() {
        for &x in ins(nd) {
            if let Some(src) = node_of_net(x) {
                indeg[k] += 1;
                succ[src].push(k as u32);
            }
        }
    }
    let mut ready: Vec<u32> = (0..nodes.len() as u32).filter(|&k| indeg[k as usize] == 0).collect();
    let mut order = Vec::with_capacity(nodes.len());
    while let Some(k) = ready.pop() {
        order.push(nodes[k as usize]);
        for &s in &succ[k as usize] {
            indeg[s as usize] -= 1;
            if indeg[s as usize] == 0 {
                ready.push(s);
            }
        }
    }
    if order.len() != nodes.len() {
        return Err("combinational-cycle".into());
    }
    Ok(Topo { order, drv })
}

/// How the single clock / reset of the design is driven (from the declared
/// port types, NOT from the netlist).
#[derive(Clone, Debug)]
pub struct ClockSpec {
    pub clock: Option<String>,
    pub reset: Option<String>,
    /// level of the reset port while asserted
    pub reset_active_high: bool,
}

pub struct GateSim<'a> {
    pub m: &'a GateModule,
    pub topo: Topo,
    pub val: Vec<V>,
    /// `ram[r][word * width + bit]`
    pub ram: Vec<Vec<V>>,
    /// registered read data `[ram][port][bit]`
    pub sync_rd: Vec<Vec<Vec<V>>>,
    clk_net: Option<u32>,
    rst_net: Option<u32>,
    rst_high: bool,
    /// statistics
    pub ram_reads_known: u64,
    pub ram_reads_x: u64,
    pub ram_writes: u64,
    pub ram_masked_writes: u64,
    pub ram_collisions: u64,
}

fn port_name(p: &veryl_synthesizer::ir::GatePort) -> String {
    p.path.iter().map(|s| s.to_string()).collect::<Vec<_>>().join(".")
}

impl<'a> GateSim<'a> {
    pub fn new(m: &'a GateModule, cs: &ClockSpec) -> Result<GateSim<'a>, String> {
        let topo = topo(m)?;
        let find = |name: &Option<String>| -> Result<Option<u32>, String> {
            match name {
                None => Ok(None),
                Some(nm) => {
                    let p = m.ports.iter().find(|p| port_name(p) == *nm).ok_or_else(|| format!("port-missing:{nm}"))?;
                    if p.nets.len() != 1 {
                        return Err(format!("clock-or-reset-port-width:{nm}"));
                    }
                    Ok(Some(p.nets[0]))
                }
            }
        };
        let clk_net = find(&cs.clock)?;
        let rst_net = find(&cs.reset)?;
        let mut val = vec![X; m.nets.len()];
        val[0] = 0;
        val[1] = 1;
        if let Some(c) = clk_net {
            val[c as usize] = 0;
        }
        if let Some(r) = rst_net {
            val[r as usize] = if cs.reset_active_high { 0 } else { 1 };
        }
        Ok(GateSim {
            m,
            topo,
            val,
            ram: m.ram_blocks.iter().map(|r| vec![X; r.depth * r.width]).collect(),
            sync_rd: m.ram_blocks.iter().map(|r| r.read_ports.iter().map(|p| vec![X; p.data.len()]).collect()).collect(),
            clk_net,
            rst_net,
            rst_high: cs.reset_active_high,
            ram_reads_known: 0,
            ram_reads_x: 0,
            ram_writes: 0,
            ram_masked_writes: 0,
            ram_collisions: 0,
        })
    }

    pub fn has_port(&self, name: &str, dir: PortDir) -> bool {
        self.m.ports.iter().any(|p| p.dir == dir && port_name(p) == name)
    }

    /// Drive an input port (bit `i` of the value on `nets[i]`).
    pub fn set_input(&mut self, name: &str, v: &BigUint) -> Result<(), String> {
        let p = self.m.ports.iter().find(|p| p.dir == PortDir::Input && port_name(p) == name).ok_or_else(|| format!("input-port-missing:{name}"))?;
        for (i, &n) in p.nets.iter().enumerate() {
            // an input port bit that an optimisation tied to a constant is not ours to drive
            if n >= 2 {
                self.val[n as usize] = v.bit(i as u64) as V;
            }
        }
        Ok(())
    }

    /// (value, X mask) of an output port
    pub fn get_output(&self, name: &str) -> Result<(BigUint, BigUint, usize), String> {
        let p = self.m.ports.iter().find(|p| p.dir == PortDir::Output && port_name(p) == name).ok_or_else(|| format!("output-port-missing:{name}"))?;
        let mut v = BigUint::default();
        let mut x = BigUint::default();
        for (i, &n) in p.nets.iter().enumerate() {
            match self.val[n as usize] {
                0 => {}
                1 => v.set_bit(i as u64, true),
                _ => x.set_bit(i as u64, true),
            }
        }
        Ok((v, x, p.nets.len()))
    }

    fn addr_of(&self, nets: &[u32]) -> (usize, usize) {
        // (known value bits, mask of X bits)
        let mut a = 0usize;
        let mut xm = 0usize;
        for (i, &n) in nets.iter().enumerate() {
            match self.val[n as usize] {
                0 => {}
                1 => a |= 1 << i,
                _ => xm |= 1 << i,
            }
        }
        (a, xm)
    }

    fn read_word(&self, r: usize, addr: &[u32], out: &mut Vec<V>) -> bool {
        let rb = &self.m.ram_blocks[r];
        let w = rb.width;
        out.clear();
        if addr.len() >= usize::BITS as usize - 1 {
            out.resize(w, X);
            return false;
        }
        let (a, xm) = self.addr_of(addr);
        if xm == 0 {
            if a < rb.depth {
                out.extend_from_slice(&self.ram[r][a * w..(a + 1) * w]);
            } else {
                out.resize(w, X);
            }
        } else if xm.count_ones() > 10 {
            out.resize(w, X);
        } else {
            // every address the X bits allow
            let mut first = true;
            let mut sub = 0usize;
            loop {
                let aa = a | sub;
                if aa < rb.depth {
                    let row = &self.ram[r][aa * w..(aa + 1) * w];
                    if first {
                        out.extend_from_slice(row);
                        first = false;
                    } else {
                        for (o, &v) in out.iter_mut().zip(row) {
                            *o = merge(*o, v);
                        }
                    }
                } else {
                    out.clear();
                    out.resize(w, X);
                    break;
                }
                sub = (sub.wrapping_sub(xm)) & xm;
                if sub == 0 {
                    break;
                }
            }
        }
        out.iter().all(|&v| v != X)
    }

    /// settle the combinational logic
    pub fn settle(&mut self) {
        let m = self.m;
        // state elements drive their outputs
        // (flip-flop q nets hold their value in `val` directly)
        for (ri, r) in m.ram_blocks.iter().enumerate() {
            for (pi, p) in r.read_ports.iter().enumerate() {
                if p.sync {
                    for (b, &n) in p.data.iter().enumerate() {
                        self.val[n as usize] = self.sync_rd[ri][pi][b];
                    }
                }
            }
        }
        let mut word = vec![];
        for k in 0..self.topo.order.len() {
            match self.topo.order[k] {
                Node::Cell(i) => {
                    let c = &m.cells[i];
                    let mut ins = [0 as V; 4];
                    for (j, &x) in c.inputs.iter().enumerate() {
                        ins[j] = self.val[x as usize];
                    }
                    self.val[c.output as usize] = cell_tern(c.kind, &ins[..c.inputs.len()]);
                }
                Node::RamRead(r, p) => {
                    let port = &m.ram_blocks[r].read_ports[p];
                    self.read_word(r, &port.addr, &mut word);
                    for (b, &n) in port.data.iter().enumerate() {
                        self.val[n as usize] = word[b];
                    }
                }
            }
        }
    }

    fn reset_active(&self, f: &veryl_synthesizer::ir::FfCell) -> V {
        match &f.reset {
            None => 0,
            Some(r) => match (self.val[r.net as usize], r.polarity) {
                (X, _) => X,
                (v, ResetPolarity::ActiveHigh) => v,
                (v, ResetPolarity::ActiveLow) => 1 - v,
            },
        }
    }

    /// One step of the cycle model the RTL simulator uses: inputs are already
    /// driven; the reset port is asserted around the edge when `reset`; one
    /// active clock edge; the reset is released; outputs can then be sampled.
    ///
    /// Every flip-flop and RAM block of the netlist must be clocked by the
    /// clock port (checked by the caller through `clocking_errors`).
    pub fn step(&mut self, reset: bool) {
        let m = self.m;
        if let Some(r) = self.rst_net {
            self.val[r as usize] = (reset == self.rst_high) as V;
        }
        self.settle();
        // An asynchronous reset acts before the edge.  Whether a reset-less
        // element (RAM, flip-flop without reset) sees the old or the cleared
        // value of such a flip-flop at this edge depends on when the reset was
        // asserted inside the cycle, which the cycle model does not fix: what
        // differs between the two views is X for this edge.
        let mut any_async = false;
        for f in &m.ffs {
            if let Some(r) = &f.reset {
                if !r.sync {
                    let act = self.reset_active(f);
                    if act != 0 {
                        let q = f.q as usize;
                        let nv = merge(self.val[q], f.reset_value as V);
                        if nv != self.val[q] {
                            self.val[q] = nv;
                            any_async = true;
                        }
                    }
                }
            }
        }
        if any_async {
            self.settle();
        }
        // ---- the edge
        let mut next: Vec<V> = Vec::with_capacity(m.ffs.len());
        for f in &m.ffs {
            let d = self.val[f.d as usize];
            let nv = match self.reset_active(f) {
                0 => d,
                1 => f.reset_value as V,
                _ => merge(d, f.reset_value as V),
            };
            next.push(nv);
        }
        // registered reads sample the old contents; a colliding write makes the word X
        let mut word = vec![];
        let mut new_sync: Vec<(usize, usize, Vec<V>, (usize, usize))> = vec![];
        for (ri, r) in m.ram_blocks.iter().enumerate() {
            for (pi, p) in r.read_ports.iter().enumerate() {
                if p.sync {
                    self.read_word(ri, &p.addr, &mut word);
                    new_sync.push((ri, pi, word.clone(), self.addr_of(&p.addr)));
                }
            }
        }
        // Write ports.  Two ports that (may) address the same word at the same
        // edge: the documentation defines no priority between ports and no
        // meaning for the retained bits of a masked port in that situation, so
        // the whole word becomes X.
        for (ri, r) in m.ram_blocks.iter().enumerate() {
            let w = r.width;
            let mut touched = vec![false; r.depth];
            for wp in &r.write_ports {
                let en = self.val[wp.enable as usize];
                if en == 0 {
                    continue;
                }
                let (a, xm) = if wp.addr.len() >= usize::BITS as usize - 1 { (0, usize::MAX) } else { self.addr_of(&wp.addr) };
                let data: Vec<V> = wp.data.iter().map(|&n| self.val[n as usize]).collect();
                let mask: Option<Vec<V>> = wp.mask.as_ref().map(|k| k.iter().map(|&n| self.val[n as usize]).collect());
                self.ram_writes += 1;
                if mask.is_some() {
                    self.ram_masked_writes += 1;
                }
                let certain = en == 1 && xm == 0;
                if xm == 0 && a >= r.depth {
                    // the documentation does not say what an out-of-range
                    // write does: nothing can be claimed about the contents
                    for v in self.ram[ri].iter_mut() {
                        *v = X;
                    }
                    continue;
                }
                if xm != 0 && xm.count_ones() > 10 {
                    for v in self.ram[ri].iter_mut() {
                        *v = X;
                    }
                    continue;
                }
                let mut sub = 0usize;
                loop {
                    let aa = a | sub;
                    if aa < r.depth {
                        if touched[aa] {
                            for b in 0..w {
                                self.ram[ri][aa * w + b] = X;
                            }
                            self.ram_collisions += 1;
                        } else {
                            touched[aa] = true;
                            for b in 0..w {
                                let mb = mask.as_ref().map(|k| k[b]).unwrap_or(1);
                                if mb == 0 {
                                    continue;
                                }
                                let cell = &mut self.ram[ri][aa * w + b];
                                if certain && mb == 1 {
                                    *cell = data[b];
                                } else {
                                    *cell = merge(*cell, data[b]);
                                }
                            }
                        }
                    } else {
                        for v in self.ram[ri].iter_mut() {
                            *v = X;
                        }
                        break;
                    }
                    if xm == 0 {
                        break;
                    }
                    sub = (sub.wrapping_sub(xm)) & xm;
                    if sub == 0 {
                        break;
                    }
                }
                // registered read ports of this block that may address the same word
                for (r2, _p2, wd, (ra, rx)) in new_sync.iter_mut() {
                    if *r2 == ri && ((*ra ^ a) & !(*rx | xm)) == 0 {
                        for v in wd.iter_mut() {
                            *v = X;
                        }
                    }
                }
            }
        }
        for (i, f) in m.ffs.iter().enumerate() {
            self.val[f.q as usize] = next[i];
        }
        for (ri, pi, wd, _) in new_sync {
            self.sync_rd[ri][pi] = wd;
        }
        // ---- after the edge
        if let Some(r) = self.rst_net {
            self.val[r as usize] = (!self.rst_high) as V;
        }
        self.settle();
        for (ri, r) in m.ram_blocks.iter().enumerate() {
            for p in &r.read_ports {
                let _ = ri;
                if p.data.iter().all(|&n| self.val[n as usize] != X) {
                    self.ram_reads_known += 1;
                } else {
                    self.ram_reads_x += 1;
                }
            }
        }
    }

    /// Clocking of the state elements against the declared clock: every
    /// flip-flop / RAM must be clocked by the clock port on the declared edge,
    /// and reset by the reset port with the declared polarity / synchronicity.
    pub fn clocking_errors(&self, negedge: bool, reset_sync: Option<bool>) -> Vec<String> {
        use veryl_synthesizer::ir::ClockEdge;
        let mut errs = vec![];
        let want = if negedge { ClockEdge::Negedge } else { ClockEdge::Posedge };
        for f in &self.m.ffs {
            if Some(f.clock) != self.clk_net {
                errs.push("ff-clock-net-is-not-the-clock-port".to_string());
            }
            if f.clock_edge != want {
                errs.push("ff-clock-edge".to_string());
            }
            if let Some(r) = &f.reset {
                if Some(r.net) != self.rst_net {
                    errs.push("ff-reset-net-is-not-the-reset-port".to_string());
                }
                let ph = matches!(r.polarity, ResetPolarity::ActiveHigh);
                if ph != self.rst_high {
                    errs.push("ff-reset-polarity".to_string());
                }
                if let Some(s) = reset_sync {
                    if r.sync != s {
                        errs.push("ff-reset-sync".to_string());
                    }
                }
            }
        }
        for r in &self.m.ram_blocks {
            if Some(r.clock) != self.clk_net {
                errs.push("ram-clock-net-is-not-the-clock-port".to_string());
            }
            if r.clock_edge != want {
                errs.push("ram-clock-edge".to_string());
            }
        }
        errs.sort();
        errs.dedup();
        errs
    }
}

// ---------------------------------------------------------------------------
// Two-valued, 64 vectors in parallel: the combinational function of every net
// over the free variables (input ports, flip-flop outputs, RAM read data,
// nets nothing drives) — used by C21 to compare sinks before / after the AIG
// round trip.
// ---------------------------------------------------------------------------

/// Nets that are free variables of the combinational logic.
pub fn comb_leaves(m: &GateModule, t: &Topo) -> Vec<u32> {
    let mut used = vec![false; m.nets.len()];
    for c in &m.cells {
        for &x in &c.inputs {
            used[x as usize] = true;
        }
    }
    for f in &m.ffs {
        used[f.d as usize] = true;
    }
    for p in &m.ports {
        if p.dir != PortDir::Input {
            for &x in &p.nets {
                used[x as usize] = true;
            }
        }
    }
    m.for_each_ram_input_net(|x| used[x as usize] = true);
    (2..m.nets.len() as u32)
        .filter(|&x| used[x as usize] && !matches!(t.drv[x as usize], Drv::Cell(_) | Drv::Const(_)))
        .collect()
}

/// Evaluate all cells with the given leaf words (`vals[net]` preset for the
/// leaves; constants are set here).  RAM reads are leaves (their data nets
/// keep the preset value).
pub fn eval_comb64(m: &GateModule, t: &Topo, vals: &mut [u64]) {
    vals[0] = 0;
    vals[1] = !0;
    for nd in &t.order {
        if let Node::Cell(i) = nd {
            let c = &m.cells[*i];
            let mut a = [0u64; 4];
            for (j, &x) in c.inputs.iter().enumerate() {
                a[j] = vals[x as usize];
            }
            vals[c.output as usize] = cell_fn(c.kind, &a[..c.inputs.len()]);
        }
    }
}

/// Hand-built netlists that pin the evaluator to the documentation (run once
/// per process; a failure is a harness bug, reported as such).
pub fn self_test() -> Result<(), String> {
    use CellKind::*;
    // formulas, spelled out minterm by minterm
    let table: &[(CellKind, fn(&[bool]) -> bool)] = &[
        (Buf, |a| a[0]),
        (Not, |a| !a[0]),
        (And2, |a| a[0] && a[1]),
        (Or2, |a| a[0] || a[1]),
        (Nand2, |a| !(a[0] && a[1])),
        (Nor2, |a| !(a[0] || a[1])),
        (Xor2, |a| a[0] != a[1]),
        (Xnor2, |a| a[0] == a[1]),
        (And3, |a| a[0] && a[1] && a[2]),
        (Or3, |a| a[0] || a[1] || a[2]),
        (Nand3, |a| !(a[0] && a[1] && a[2])),
        (Nor3, |a| !(a[0] || a[1] || a[2])),
        (Ao21, |a| (a[0] && a[1]) || a[2]),
        (Aoi21, |a| !((a[0] && a[1]) || a[2])),
        (Oa21, |a| (a[0] || a[1]) && a[2]),
        (Oai21, |a| !((a[0] || a[1]) && a[2])),
        (Ao31, |a| (a[0] && a[1] && a[2]) || a[3]),
        (Aoi31, |a| !((a[0] && a[1] && a[2]) || a[3])),
        (Ao22, |a| (a[0] && a[1]) || (a[2] && a[3])),
        (Aoi22, |a| !((a[0] && a[1]) || (a[2] && a[3]))),
        (Oai22, |a| !((a[0] || a[1]) && (a[2] || a[3]))),
        (Mux2, |a| if a[0] { a[2] } else { a[1] }),
    ];
    for (k, f) in table {
        let n = doc_arity(*k);
        if n != k.arity() {
            return Err(format!("arity table differs from CellKind::arity for {k}"));
        }
        for mt in 0..(1u32 << n) {
            let b: Vec<bool> = (0..n).map(|i| (mt >> i) & 1 == 1).collect();
            let v: Vec<V> = b.iter().map(|&x| x as V).collect();
            if cell_tern(*k, &v) != f(&b) as V {
                return Err(format!("cell_tern({k}) wrong at {mt:b}"));
            }
            // X on one input: known iff both completions agree
            for xi in 0..n {
                let mut v2 = v.clone();
                v2[xi] = X;
                let mut b0 = b.clone();
                b0[xi] = false;
                let mut b1 = b.clone();
                b1[xi] = true;
                let want = if f(&b0) == f(&b1) { f(&b0) as V } else { X };
                if cell_tern(*k, &v2) != want {
                    return Err(format!("cell_tern({k}) X handling wrong at {mt:b}/{xi}"));
                }
            }
        }
    }
    Ok(())
}
