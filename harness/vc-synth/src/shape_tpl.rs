//! Hand-templated shapes with generated widths / constants / values, for the
//! rewrite rules that random expressions reach too rarely:
//!
//! * `mux`: two to five outputs, each a nested 2:1 mux tree over the SAME two
//!   or three 1-bit selects (plain, inverted, `s1 & s2`, `s1 | s2`), leaves
//!   from a small pool so that inner and outer muxes share data legs in every
//!   position (`if s1 ? c : (if s2 ? c : a)`, `if s1 ? (if s2 ? e : d) : d`,
//!   …), priority chains (`if s1 … else if s2 … else if s1 & s2 …`), written
//!   as ternary expressions, as if / else statements or as a `case` over the
//!   concatenated selects; every select combination is applied (all input
//!   bits when there are at most 6);
//! * `shift`: `>>> >> << <<<` by a NON-constant amount that is wider than
//!   clog2(width), signed and unsigned operand, stimulus with amount = width-1,
//!   width, width+1, all ones and MSB(x) = 1;
//! * `arith`: adders / subtractors (with carry in, with a carry-out bit) and
//!   comparators at widths 1, 2, 31..33, 63..65 with carry-corner operands;
//!   counters with a non-zero reset value, enable, up / down / wrap.

#![allow(dead_code)]

use num_bigint::BigUint;
use std::fmt::Write as _;
use vcore::Draw;
use vdesign::{PortSpec, StimStep, Stimulus, gen_value};

pub struct Tpl {
    pub text: String,
    pub stim: Stimulus,
    pub classes: Vec<String>,
    /// label for the signature of a failure
    pub label: String,
    /// trigger shape of a C19 known finding (its key), if the template contains one
    pub known: Option<&'static str>,
}

fn ones(w: usize) -> BigUint {
    (BigUint::from(1u32) << w) - 1u32
}

fn ty(w: usize, signed: bool) -> String {
    format!("{}logic<{w}>", if signed { "signed " } else { "" })
}

// ---------------------------------------------------------------------------
// mux trees
// ---------------------------------------------------------------------------

#[derive(Clone, Debug)]
enum Sel {
    Var(usize, bool),
    And(usize, usize),
    Or(usize, usize),
}

#[derive(Clone, Debug)]
enum Mux {
    Leaf(usize),
    /// (sel, when true, when false)
    Node(Sel, Box<Mux>, Box<Mux>),
}

fn sel_text(s: &Sel) -> String {
    match s {
        Sel::Var(i, false) => format!("s{i}"),
        Sel::Var(i, true) => format!("!s{i}"),
        Sel::And(i, j) => format!("(s{i} & s{j})"),
        Sel::Or(i, j) => format!("(s{i} | s{j})"),
    }
}

fn sel_val(s: &Sel, sv: u32) -> bool {
    let b = |i: usize| (sv >> i) & 1 == 1;
    match s {
        Sel::Var(i, n) => b(*i) != *n,
        Sel::And(i, j) => b(*i) && b(*j),
        Sel::Or(i, j) => b(*i) || b(*j),
    }
}

fn leaf_name(i: usize) -> String {
    format!("d{i}")
}

fn mux_expr(m: &Mux) -> String {
    match m {
        Mux::Leaf(i) => leaf_name(*i),
        Mux::Node(s, t, e) => format!("(if {} ? {} : {})", sel_text(s), mux_expr(t), mux_expr(e)),
    }
}

fn mux_stmt(m: &Mux, y: &str, lvl: usize, out: &mut String) {
    let ind = "    ".repeat(lvl);
    match m {
        Mux::Leaf(i) => writeln!(out, "{ind}{y} = {};", leaf_name(*i)).unwrap(),
        Mux::Node(s, t, e) => {
            writeln!(out, "{ind}if {} {{", sel_text(s)).unwrap();
            mux_stmt(t, y, lvl + 1, out);
            writeln!(out, "{ind}}} else {{").unwrap();
            mux_stmt(e, y, lvl + 1, out);
            writeln!(out, "{ind}}}").unwrap();
        }
    }
}

fn mux_eval(m: &Mux, sv: u32) -> usize {
    match m {
        Mux::Leaf(i) => *i,
        Mux::Node(s, t, e) => {
            if sel_val(s, sv) {
                mux_eval(t, sv)
            } else {
                mux_eval(e, sv)
            }
        }
    }
}

fn gen_sel(d: &mut Draw, ns: usize) -> Sel {
    let i = d.below(ns as u32) as usize;
    let j = (i + 1 + d.below(ns as u32 - 1) as usize) % ns;
    match d.weighted(&[8, 2, 2, 2]) {
        1 => Sel::Var(i, true),
        2 => Sel::And(i.min(j), i.max(j)),
        3 => Sel::Or(i.min(j), i.max(j)),
        _ => Sel::Var(i, false),
    }
}

fn gen_tree(d: &mut Draw, ns: usize, nd: usize, depth: u32) -> Mux {
    if depth == 0 || d.chance(1, 5) {
        return Mux::Leaf(d.below(nd as u32) as usize);
    }
    let s = gen_sel(d, ns);
    // mostly one leaf + one subtree, the shape the mux-of-mux rewrites look for
    let (t, e) = match d.weighted(&[3, 3, 2]) {
        0 => (Mux::Leaf(d.below(nd as u32) as usize), gen_tree(d, ns, nd, depth - 1)),
        1 => (gen_tree(d, ns, nd, depth - 1), Mux::Leaf(d.below(nd as u32) as usize)),
        _ => (gen_tree(d, ns, nd, depth - 1), gen_tree(d, ns, nd, depth - 1)),
    };
    Mux::Node(s, Box::new(t), Box::new(e))
}

/// the named mux-of-mux shapes: inner mux shares a data leg with the outer one
fn named_tree(d: &mut Draw, ns: usize, nd: usize) -> (Mux, &'static str) {
    let s1 = d.below(ns as u32) as usize;
    let s2 = (s1 + 1 + d.below(ns as u32 - 1) as usize) % ns;
    let a = d.below(nd as u32) as usize;
    let c = (a + 1 + d.below(nd as u32 - 1) as usize) % nd;
    let e = d.below(nd as u32) as usize;
    let v = |i: usize| Sel::Var(i, false);
    let l = |i: usize| Box::new(Mux::Leaf(i));
    let n = |s: Sel, t: Box<Mux>, e: Box<Mux>| Box::new(Mux::Node(s, t, e));
    match d.below(8) {
        // outer.d0 = inner, outer.d1 == inner.d1
        0 => (*n(v(s1), l(c), n(v(s2), l(c), l(a))), "mom_d0_shared_d1"),
        // outer.d1 = inner, outer.d0 == inner.d0
        1 => (*n(v(s1), n(v(s2), l(e), l(c)), l(c)), "mom_d1_shared_d0"),
        // outer.d0 = inner, outer.d1 == inner.d0
        2 => (*n(v(s1), l(c), n(v(s2), l(a), l(c))), "mom_d0_shared_d0"),
        // outer.d1 = inner, outer.d0 == inner.d1
        3 => (*n(v(s1), n(v(s2), l(c), l(e)), l(c)), "mom_d1_shared_d1"),
        // same select nested
        4 => (*n(v(s1), n(v(s1), l(a), l(c)), l(e)), "same_select_nested"),
        // inverted select nested
        5 => (*n(v(s1), l(a), n(Sel::Var(s1, true), l(c), l(e))), "inverted_select_nested"),
        // priority chain with a redundant third condition
        6 => (*n(v(s1), l(a), n(v(s2), l(c), n(Sel::And(s1.min(s2), s1.max(s2)), l(e), l(a)))), "priority_chain"),
        // and / or of the same pair
        _ => (*n(Sel::And(s1.min(s2), s1.max(s2)), l(a), n(Sel::Or(s1.min(s2), s1.max(s2)), l(c), l(e))), "and_or_same_pair"),
    }
}

pub fn gen_mux(d: &mut Draw) -> Tpl {
    let ns = 2 + d.below(2) as usize;
    let nd = 3 + d.below(3) as usize;
    let w = match d.weighted(&[3, 4, 2, 1]) {
        0 => 1,
        1 => 2 + d.below(7) as usize,
        2 => 9 + d.below(8) as usize,
        _ => 33,
    };
    let n_out = 2 + d.below(4) as usize;
    let mut classes = vec!["tpl:mux".to_string()];
    let mut decl = String::new();
    let mut body = String::new();
    for i in 0..ns {
        writeln!(decl, "    s{i}: input logic,").unwrap();
    }
    for i in 0..nd {
        writeln!(decl, "    d{i}: input logic<{w}>,").unwrap();
    }
    let mut outputs = vec![];
    for k in 0..n_out {
        let y = format!("y{k}");
        writeln!(decl, "    {y}: output logic<{w}>,").unwrap();
        outputs.push(PortSpec {
            name: y.clone(),
            width: w,
        });
        let tree = if d.chance(2, 3) {
            let (t, name) = named_tree(d, ns, nd);
            classes.push(format!("tpl:mux:{name}"));
            t
        } else {
            classes.push("tpl:mux:random_tree".into());
            gen_tree(d, ns, nd, 3)
        };
        match d.weighted(&[4, 3, 2]) {
            0 => {
                writeln!(body, "    assign {y} = {};", mux_expr(&tree)).unwrap();
                classes.push("tpl:mux:form_ternary".into());
            }
            1 => {
                writeln!(body, "    always_comb {{").unwrap();
                mux_stmt(&tree, &y, 2, &mut body);
                writeln!(body, "    }}").unwrap();
                classes.push("tpl:mux:form_if_else".into());
            }
            _ => {
                let sels: Vec<String> = (0..ns).rev().map(|i| format!("s{i}")).collect();
                writeln!(body, "    always_comb {{\n        case {{{}}} {{", sels.join(", ")).unwrap();
                for sv in 0..(1u32 << ns) {
                    let bits: String = (0..ns).rev().map(|i| if (sv >> i) & 1 == 1 { '1' } else { '0' }).collect();
                    if sv + 1 == 1 << ns {
                        writeln!(body, "            default: {{\n                {y} = {};\n            }}", leaf_name(mux_eval(&tree, sv))).unwrap();
                    } else {
                        writeln!(body, "            {ns}'b{bits}: {{\n                {y} = {};\n            }}", leaf_name(mux_eval(&tree, sv))).unwrap();
                    }
                }
                // a complete case without default needs one for the analyzer's coverage rule
                writeln!(body, "        }}\n    }}").unwrap();
                classes.push("tpl:mux:form_case".into());
            }
        }
    }
    let text = format!("module Top (\n{decl}) {{\n{body}}}\n");
    // ---- stimulus: every select combination; every input bit pattern when <= 6 bits
    let mut inputs: Vec<PortSpec> = (0..ns)
        .map(|i| PortSpec {
            name: format!("s{i}"),
            width: 1,
        })
        .collect();
    inputs.extend((0..nd).map(|i| PortSpec {
        name: format!("d{i}"),
        width: w,
    }));
    let mut steps = vec![];
    let total_bits = ns + nd * w;
    if total_bits <= 6 {
        for v in 0..(1u32 << total_bits) {
            let mut vals = vec![];
            for i in 0..ns {
                vals.push(BigUint::from((v >> i) & 1));
            }
            for i in 0..nd {
                vals.push(BigUint::from((v >> (ns + i * w)) & ((1 << w) - 1)));
            }
            steps.push(StimStep {
                reset: false,
                values: vals,
            });
        }
        classes.push("tpl:mux:stim_exhaustive".into());
    } else {
        for r in 0..4 {
            // distinct data values make a wrong leg visible
            let mut data: Vec<BigUint> = vec![];
            for i in 0..nd {
                let mut v = gen_value(d, w as u32);
                if w >= 3 && r < 3 {
                    let mut tries = 0;
                    while data.contains(&v) && tries < 8 {
                        v = (v + BigUint::from(1u32 + i as u32)) & ones(w);
                        tries += 1;
                    }
                }
                data.push(v);
            }
            for sv in 0..(1u32 << ns) {
                let mut vals: Vec<BigUint> = (0..ns).map(|i| BigUint::from((sv >> i) & 1)).collect();
                vals.extend(data.iter().cloned());
                steps.push(StimStep {
                    reset: false,
                    values: vals,
                });
            }
        }
        // single-bit data: all combinations of up to 5 legs next to the selects
        if w == 1 && ns + nd <= 8 {
            steps.clear();
            for v in 0..(1u32 << (ns + nd)) {
                steps.push(StimStep {
                    reset: false,
                    values: (0..ns + nd).map(|i| BigUint::from((v >> i) & 1)).collect(),
                });
            }
            classes.push("tpl:mux:stim_exhaustive".into());
        }
    }
    classes.sort();
    classes.dedup();
    Tpl {
        text,
        stim: Stimulus {
            clock: None,
            reset: None,
            inputs,
            outputs,
            steps,
        },
        classes,
        label: "mux".into(),
        known: None,
    }
}

// ---------------------------------------------------------------------------
// shifts by a wide, non-constant amount
// ---------------------------------------------------------------------------

fn clog2(n: usize) -> usize {
    if n <= 1 { 1 } else { (usize::BITS - (n - 1).leading_zeros()) as usize }
}

pub fn gen_shift(d: &mut Draw, known_per_mille: u32) -> Tpl {
    let w = match d.weighted(&[4, 2, 2, 1]) {
        0 => 2 + d.below(8) as usize,
        1 => 10 + d.below(7) as usize,
        2 => *d.pick(&[31usize, 32, 33]),
        _ => *d.pick(&[63usize, 64, 65]),
    };
    let aw = clog2(w) + 1 + d.below(3) as usize;
    let mut classes = vec!["tpl:shift".to_string(), format!("tpl:shift:width:{}", if w <= 9 { "2_9" } else if w <= 16 { "10_16" } else if w <= 33 { "31_33" } else { "63_65" })];
    let n = 1 + d.below(3) as usize;
    let mut decl = String::new();
    let mut body = String::new();
    let mut inputs = vec![];
    let mut outputs = vec![];
    let mut known = None;
    writeln!(decl, "    amt: input logic<{aw}>,").unwrap();
    inputs.push(PortSpec {
        name: "amt".into(),
        width: aw,
    });
    for k in 0..n {
        let mut signed = d.bool();
        let op = *d.pick(&[">>>", ">>", "<<", "<<<", ">>>"]);
        // `>>>` of an unsigned operand is the known finding ashr-in-unsigned-context
        if op == ">>>" && !signed {
            if d.chance(known_per_mille, 1000) && known.is_none() {
                known = Some("ashr-in-unsigned-context");
                classes.push("known:ashr-in-unsigned-context".into());
            } else {
                signed = true;
                classes.push("excluded:ashr-in-unsigned-context".into());
            }
        }
        let x = format!("x{k}");
        let y = format!("y{k}");
        writeln!(decl, "    {x}: input {},", ty(w, signed)).unwrap();
        writeln!(decl, "    {y}: output {},", ty(w, signed)).unwrap();
        inputs.push(PortSpec {
            name: x.clone(),
            width: w,
        });
        outputs.push(PortSpec {
            name: y.clone(),
            width: w,
        });
        let opname = match op {
            ">>>" => "ashr",
            ">>" => "shr",
            "<<" => "shl",
            _ => "ashl",
        };
        classes.push(format!("tpl:shift:{opname}:{}", if signed { "signed" } else { "unsigned" }));
        match d.weighted(&[5, 2, 2]) {
            0 => writeln!(body, "    assign {y} = {x} {op} amt;").unwrap(),
            1 => {
                writeln!(body, "    always_comb {{\n        {y} = {x};\n        {y} {op}= amt;\n    }}").unwrap();
                classes.push("tpl:shift:op_assign".into());
            }
            _ => {
                // the shifted value inside a same-signedness expression of the same width
                writeln!(body, "    assign {y} = ({x} {op} amt) ^ {x};").unwrap();
                classes.push("tpl:shift:in_expression".into());
            }
        }
    }
    let text = format!("module Top (\n{decl}) {{\n{body}}}\n");
    // ---- stimulus: amount corners x operand corners
    let amax = (1u64 << aw) - 1;
    let mut amts: Vec<u64> = vec![0, 1, w as u64 - 1, w as u64, w as u64 + 1, amax, amax - 1, (w as u64) / 2];
    for _ in 0..4 {
        amts.push(d.below((amax + 1).min(u32::MAX as u64) as u32) as u64);
    }
    amts.retain(|a| *a <= amax);
    let mut steps = vec![];
    for (i, a) in amts.iter().enumerate() {
        for r in 0..3 {
            let mut vals = vec![BigUint::from(*a)];
            for _ in 0..n {
                let v = match (i + r) % 4 {
                    0 => ones(w),
                    1 => BigUint::from(1u32) << (w - 1),
                    2 => gen_value(d, w as u32) | (BigUint::from(1u32) << (w - 1)),
                    _ => gen_value(d, w as u32),
                };
                vals.push(v);
            }
            steps.push(StimStep {
                reset: false,
                values: vals,
            });
        }
    }
    classes.sort();
    classes.dedup();
    Tpl {
        text,
        stim: Stimulus {
            clock: None,
            reset: None,
            inputs,
            outputs,
            steps,
        },
        classes,
        label: "shift".into(),
        known,
    }
}

// ---------------------------------------------------------------------------
// adders, comparators, counters
// ---------------------------------------------------------------------------

fn corner(d: &mut Draw, w: usize) -> BigUint {
    match d.below(8) {
        0 => BigUint::default(),
        1 => ones(w),
        2 => BigUint::from(1u32),
        3 => BigUint::from(1u32) << (w - 1),
        4 => ones(w) >> 1,
        5 => ones(w) - 1u32,
        _ => gen_value(d, w as u32),
    }
}

pub fn gen_arith(d: &mut Draw, clock_ty: &str, reset_ty: &str) -> Tpl {
    if d.chance(2, 5) {
        return gen_counter(d, clock_ty, reset_ty);
    }
    let w = match d.weighted(&[2, 3, 3, 2]) {
        0 => 1 + d.below(2) as usize,
        1 => *d.pick(&[31usize, 32, 33]),
        2 => *d.pick(&[63usize, 64, 65]),
        _ => 3 + d.below(14) as usize,
    };
    let signed = d.bool();
    let mut classes = vec!["tpl:arith".to_string(), format!("tpl:arith:width:{}", if w <= 2 { "1_2" } else if w <= 16 { "3_16" } else if w <= 33 { "31_33" } else { "63_65" }), format!("tpl:arith:{}", if signed { "signed" } else { "unsigned" })];
    let mut decl = String::new();
    let mut body = String::new();
    let t = ty(w, signed);
    writeln!(decl, "    a: input {t},\n    b: input {t},\n    cin: input logic,").unwrap();
    let inputs = vec![
        PortSpec {
            name: "a".into(),
            width: w,
        },
        PortSpec {
            name: "b".into(),
            width: w,
        },
        PortSpec {
            name: "cin".into(),
            width: 1,
        },
    ];
    let mut outputs = vec![];
    let mut out = |decl: &mut String, name: &str, wd: usize, sg: bool| {
        writeln!(decl, "    {name}: output {},", ty(wd, sg)).unwrap();
        outputs.push(PortSpec {
            name: name.into(),
            width: wd,
        });
    };
    let n = 2 + d.below(4);
    let mut used = std::collections::BTreeSet::new();
    for _ in 0..n {
        let k = d.below(9);
        if !used.insert(k) {
            continue;
        }
        match k {
            0 => {
                out(&mut decl, "sum", w, signed);
                writeln!(body, "    assign sum = a + b;").unwrap();
                classes.push("tpl:arith:add".into());
            }
            1 => {
                out(&mut decl, "dif", w, signed);
                writeln!(body, "    assign dif = a - b;").unwrap();
                classes.push("tpl:arith:sub".into());
            }
            2 if signed => {}
            2 => {
                // carry out: both operands widened by a zero bit
                out(&mut decl, "sumc", w + 1, false);
                writeln!(body, "    assign sumc = {{1'b0, a}} + {{1'b0, b}} + {{{w}'d0, cin}};").unwrap();
                classes.push("tpl:arith:add_carry_out".into());
            }
            3 => {
                out(&mut decl, "lt", 1, false);
                writeln!(body, "    assign lt = a <: b;").unwrap();
                classes.push("tpl:arith:lt".into());
            }
            4 => {
                out(&mut decl, "le", 1, false);
                writeln!(body, "    assign le = a <= b;").unwrap();
                classes.push("tpl:arith:le".into());
            }
            5 => {
                out(&mut decl, "gt", 1, false);
                out(&mut decl, "ge", 1, false);
                writeln!(body, "    assign gt = a >: b;\n    assign ge = a >= b;").unwrap();
                classes.push("tpl:arith:gt_ge".into());
            }
            6 => {
                out(&mut decl, "eq", 1, false);
                out(&mut decl, "ne", 1, false);
                writeln!(body, "    assign eq = a == b;\n    assign ne = a != b;").unwrap();
                classes.push("tpl:arith:eq_ne".into());
            }
            7 => {
                out(&mut decl, "neg", w, signed);
                writeln!(body, "    assign neg = -a;").unwrap();
                classes.push("tpl:arith:neg".into());
            }
            _ => {
                // min / max through a comparison
                out(&mut decl, "mx", w, signed);
                writeln!(body, "    assign mx = if a >: b ? a : b;").unwrap();
                classes.push("tpl:arith:max".into());
            }
        }
    }
    // always at least the plain adder
    if used.insert(0) {
        out(&mut decl, "sum", w, signed);
        writeln!(body, "    assign sum = a + b;").unwrap();
    }
    let text = format!("module Top (\n{decl}) {{\n{body}}}\n");
    let mut steps = vec![];
    for i in 0..28 {
        let a = corner(d, w);
        // b: equal, complement, off by one, corner
        let b = match i % 5 {
            0 => a.clone(),
            1 => &a ^ ones(w),
            2 => (&a + 1u32) & ones(w),
            _ => corner(d, w),
        };
        steps.push(StimStep {
            reset: false,
            values: vec![a, b, BigUint::from(d.below(2))],
        });
    }
    classes.sort();
    classes.dedup();
    Tpl {
        text,
        stim: Stimulus {
            clock: None,
            reset: None,
            inputs,
            outputs,
            steps,
        },
        classes,
        label: "arith".into(),
        known: None,
    }
}

fn gen_counter(d: &mut Draw, clock_ty: &str, reset_ty: &str) -> Tpl {
    let w = match d.weighted(&[4, 2, 1, 1]) {
        0 => 1 + d.below(8) as usize,
        1 => 9 + d.below(8) as usize,
        2 => 33,
        _ => 64,
    };
    let mut classes = vec!["tpl:counter".to_string()];
    let rv = {
        let v = gen_value(d, w as u32);
        if v == BigUint::default() { BigUint::from(1u32) } else { v }
    };
    let step = if w >= 3 && d.chance(1, 3) { 1 + d.below(3) } else { 1 };
    let down = d.chance(1, 3);
    let op = if down { "-" } else { "+" };
    let mut decl = String::new();
    writeln!(decl, "    clk: input {clock_ty},\n    rst: input {reset_ty},\n    en: input logic,\n    ld: input logic,\n    dv: input logic<{w}>,\n    q: output logic<{w}>,\n    tc: output logic,").unwrap();
    let lim = {
        let v = gen_value(d, w as u32);
        if v == BigUint::default() { ones(w) } else { v }
    };
    let mut body = String::new();
    writeln!(body, "    always_ff {{\n        if_reset {{\n            q = {w}'h{rv:x};\n        }} else if ld {{\n            q = dv;").unwrap();
    match d.weighted(&[3, 2]) {
        0 => {
            writeln!(body, "        }} else if en {{\n            q = q {op} {w}'d{step};\n        }}\n    }}").unwrap();
            classes.push("tpl:counter:free_running".into());
        }
        _ => {
            writeln!(body, "        }} else if en {{\n            if q == {w}'h{lim:x} {{\n                q = {w}'h{rv:x};\n            }} else {{\n                q = q {op} {w}'d{step};\n            }}\n        }}\n    }}").unwrap();
            classes.push("tpl:counter:wrap_at_limit".into());
        }
    }
    writeln!(body, "    assign tc = q == {w}'h{lim:x};").unwrap();
    classes.push(if down { "tpl:counter:down".into() } else { "tpl:counter:up".to_string() });
    classes.push("tpl:counter:nonzero_reset_value".into());
    let text = format!("module Top (\n{decl}) {{\n{body}}}\n");
    let inputs = vec![
        PortSpec {
            name: "en".into(),
            width: 1,
        },
        PortSpec {
            name: "ld".into(),
            width: 1,
        },
        PortSpec {
            name: "dv".into(),
            width: w,
        },
    ];
    let outputs = vec![
        PortSpec {
            name: "q".into(),
            width: w,
        },
        PortSpec {
            name: "tc".into(),
            width: 1,
        },
    ];
    let cycles = 20 + d.below(20) as usize;
    let mut steps = vec![];
    for i in 0..cycles {
        let ld = d.chance(1, 8);
        // load values next to the limit / the wrap-around so that the corner is reached
        let dv = match d.below(4) {
            0 => (&lim + ones(w)) & ones(w),
            1 => ones(w) - 1u32.min(if w > 1 { 1 } else { 0 }),
            2 => BigUint::from(1u32),
            _ => gen_value(d, w as u32),
        } & ones(w);
        steps.push(StimStep {
            reset: i == 0 || d.chance(1, 30),
            values: vec![BigUint::from(d.chance(3, 4) as u32), BigUint::from(ld as u32), dv],
        });
    }
    classes.sort();
    classes.dedup();
    Tpl {
        text,
        stim: Stimulus {
            clock: Some("clk".into()),
            reset: Some("rst".into()),
            inputs,
            outputs,
            steps,
        },
        classes,
        label: "counter".into(),
        known: None,
    }
}
