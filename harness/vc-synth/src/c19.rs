//! C19 — synthesized netlists behave like the RTL (translation validation per
//! generated case).
//!
//! Case (see `synth_case`): Veryl text (vdesign design in the synthesizable
//! dialect, or a memory-shaped module) × stimulus × declared clock / reset
//! type × cell library × `RamConfig` drawn around the arrays.
//!
//! Oracle: `synthesize_with` (the call of `veryl synth`) → `GateModule`,
//! simulated by `gate_eval::GateSim` (written from the doc comments of
//! `ir.rs`) with the same step model as the RTL driver (drive inputs, one
//! active clock edge with the reset asserted around it on reset steps, sample
//! outputs); every *known* bit of every output must equal what veryl's RTL
//! simulator (`vdesign::Analyzed::run`, default `Config`) reports after the
//! same step.  Bits the netlist leaves open (RAM words never written, state
//! before the first reset) are X in the gate simulation and are not compared.
//! State elements must be clocked by the clock port on the declared edge and
//! reset by the reset port with the declared polarity / synchronicity.
//!
//! Before a disagreement is reported it is re-examined: a `design` case is
//! evaluated by vdesign's IEEE 1800 reference (where the reference says
//! "unknown" the case is outside the property; where it sides with the gate
//! netlist against the RTL simulator the case is a simulator matter, counted,
//! not a C19 failure); a `ram` case is re-synthesized with inference disabled
//! to tell RAM inference from the rest.  Failing `design` cases are minimised
//! structurally; the signature names the constructs that remain.

use crate::gate_eval::{ClockSpec, GateSim};
use crate::ram_tpl::{RamSpec, Streams};
use crate::synth_case::*;
use num_bigint::BigUint;
use std::collections::{BTreeMap, BTreeSet};
use vcore::{CaseCfg, Ctx, Draw, Outcome, Value, hash_str, json};
use vdesign::*;
use veryl_simulator::Config;
use veryl_synthesizer::ir::{GateModule, PortDir};
use veryl_synthesizer::{Library, RamConfig};

/// First disagreement between the gate netlist and the RTL trace.
#[derive(Clone, Debug)]
pub struct Mismatch {
    pub step: usize,
    pub output: usize,
    pub gate: BigUint,
    pub gate_x: BigUint,
    pub rtl: BigUint,
}

#[derive(Default, Clone, Debug)]
pub struct CmpStats {
    pub compared_bits: u64,
    pub x_bits: u64,
    pub ram_reads_known: u64,
    pub ram_reads_x: u64,
    pub ram_writes: u64,
    pub ram_masked_writes: u64,
    /// some output changed its value during the run
    pub activity: bool,
}

pub enum GateRun {
    /// structural problem of the netlist (signature)
    Broken(String),
    Done(Option<Mismatch>, CmpStats),
}

/// Simulate `m` over `stim` and compare with the RTL trace.
pub fn gate_vs_rtl(m: &GateModule, case: &SynthCase, stim: &Stimulus, rtl: &Trace) -> GateRun {
    let cs = ClockSpec {
        clock: stim.clock.clone(),
        reset: stim.reset.clone(),
        reset_active_high: case.reset.active_high(),
    };
    // a design whose clock is unused may lose nothing: ports are always kept
    let mut sim = match GateSim::new(m, &cs) {
        Ok(s) => s,
        Err(e) => return GateRun::Broken(format!("netlist-not-evaluable:{e}")),
    };
    let errs = sim.clocking_errors(case.clock == ClockKind::Negedge, Some(case.reset.sync()));
    if let Some(e) = errs.first() {
        return GateRun::Broken(format!("clocking:{e}"));
    }
    for p in &stim.inputs {
        if !sim.has_port(&p.name, PortDir::Input) {
            return GateRun::Broken("port-missing:input".into());
        }
    }
    let mut st = CmpStats::default();
    let mut first: Option<Mismatch> = None;
    let mut prev: Vec<BigUint> = vec![];
    for (si, step) in stim.steps.iter().enumerate() {
        for (p, v) in stim.inputs.iter().zip(&step.values) {
            if let Err(e) = sim.set_input(&p.name, v) {
                return GateRun::Broken(e);
            }
        }
        if stim.clock.is_some() {
            sim.step(step.reset && stim.reset.is_some());
        } else {
            sim.settle();
        }
        let Some(row) = rtl.steps.get(si) else { break };
        for (oi, p) in stim.outputs.iter().enumerate() {
            let (v, x, w) = match sim.get_output(&p.name) {
                Ok(r) => r,
                Err(e) => return GateRun::Broken(e),
            };
            if w != p.width {
                return GateRun::Broken("port-width:output".into());
            }
            let r = &row[oi].value;
            st.x_bits += x.count_ones();
            st.compared_bits += w as u64 - x.count_ones();
            // known bits must agree
            let diff = (&v ^ r) & (mask(w as u32) ^ &x);
            if diff != BigUint::default() && first.is_none() {
                first = Some(Mismatch {
                    step: si,
                    output: oi,
                    gate: v.clone(),
                    gate_x: x.clone(),
                    rtl: r.clone(),
                });
            }
            if si > 0 && prev.get(oi) != Some(r) {
                st.activity = true;
            }
            if si == 0 {
                prev.push(r.clone());
            } else {
                prev[oi] = r.clone();
            }
        }
        if first.is_some() {
            break;
        }
    }
    st.ram_reads_known = sim.ram_reads_known;
    st.ram_reads_x = sim.ram_reads_x;
    st.ram_writes = sim.ram_writes;
    st.ram_masked_writes = sim.ram_masked_writes;
    GateRun::Done(first, st)
}

fn mask(w: u32) -> BigUint {
    (BigUint::from(1u32) << w) - 1u32
}

fn run_rtl_cfg(a: &Analyzed, stim: &Stimulus, cfg: &Config) -> Result<Trace, String> {
    match std::panic::catch_unwind(std::panic::AssertUnwindSafe(|| a.run("Top", cfg, stim))) {
        Ok(r) => r,
        Err(_) => Err("panic".into()),
    }
}

/// The RTL trace: veryl's simulator with the default `Config`.  The same run
/// with `disable_ff_opt` must give the same values — where the simulator's
/// own engines disagree the case says nothing about the synthesizer (C02).
pub fn run_rtl(a: &Analyzed, stim: &Stimulus) -> Result<Trace, String> {
    let mut cfg = Config::default();
    // development aids
    if std::env::var("PROBE_NOFFOPT").is_ok() {
        cfg.disable_ff_opt = true;
    }
    if std::env::var("PROBE_NOJIT").is_ok() {
        cfg.use_jit = false;
    }
    let t = run_rtl_cfg(a, stim, &cfg)?;
    if std::env::var("PROBE_SINGLE").is_ok() {
        return Ok(t);
    }
    let mut c2 = cfg.clone();
    c2.disable_ff_opt = !cfg.disable_ff_opt;
    let t2 = run_rtl_cfg(a, stim, &c2).map_err(|e| format!("engines-disagree: the ff_opt variant fails: {e}"))?;
    for (r1, r2) in t.steps.iter().zip(&t2.steps) {
        for (x, y) in r1.iter().zip(r2) {
            if x.value != y.value {
                return Err("engines-disagree: default Config and disable_ff_opt give different traces (C02 matter)".into());
            }
        }
    }
    Ok(t)
}

/// What happened to a (text, stimulus, options) triple.
pub enum Verdict {
    Skip(String),
    Broken(String, GateModule),
    Agree(Box<veryl_synthesizer::SynthResult>, CmpStats),
    Differ(Box<veryl_synthesizer::SynthResult>, Mismatch),
}

pub fn verdict(text: &str, case: &SynthCase, stim: &Stimulus, library: Library, ram: RamConfig) -> Verdict {
    let a = match Analyzed::new(text) {
        Ok(a) => a,
        Err(r) => {
            let code = r.errors.first().map(|e| e.0.clone()).unwrap_or_default();
            return Verdict::Skip(format!("generated text rejected by the analyzer ({}:{code})", r.stage));
        }
    };
    let sr = match synthesize(&a, library, ram) {
        Synth::Ok(r) => r,
        Synth::Rejected(why) => return Verdict::Skip(format!("synthesizer rejects the design ({why})")),
        Synth::Panic(msg) => {
            // development aid: keep the text of a design that makes the synthesizer panic
            if let Ok(dir) = std::env::var("C19_PANIC_DIR") {
                let _ = std::fs::create_dir_all(&dir);
                let _ = std::fs::write(format!("{dir}/{:016x}.veryl", hash_str(text)), format!("// {msg}\n// {}\n{text}", case.options_json()));
            }
            return Verdict::Skip(format!("synthesizer panics ({msg})"));
        }
    };
    let rtl = match run_rtl(&a, stim) {
        Ok(t) => t,
        Err(e) => {
            let e: String = e.chars().filter(|c| !c.is_ascii_digit()).take(60).collect();
            return Verdict::Skip(format!("RTL simulator: {e}"));
        }
    };
    match gate_vs_rtl(&sr.gate_ir.module, case, stim, &rtl) {
        GateRun::Broken(sig) => Verdict::Broken(sig, sr.gate_ir.module.clone()),
        GateRun::Done(None, st) => Verdict::Agree(sr, st),
        GateRun::Done(Some(mm), _) => Verdict::Differ(sr, mm),
    }
}

/// Constructs that remain in a (minimised) design: the root-cause signature.
pub fn design_features(design: &Design) -> BTreeSet<String> {
    let mut out = BTreeSet::new();
    fn ex(m: &Module, e: &Expr, out: &mut BTreeSet<String>) {
        vdesign::findings::walk(m, e, 1, &mut |mm, n| {
            let t = ty_of(mm, n.e);
            let name = match n.e {
                Expr::Lit(_) | Expr::EnumVal(..) => return,
                Expr::Ref(r) => {
                    if mm.decls[r.decl].array.is_some() {
                        out.insert(if r.idx.as_ref().is_some_and(|i| !matches!(**i, Expr::Lit(_))) { "array[dyn]".into() } else { "array[const]".into() });
                    }
                    match r.sel {
                        Sel::None => return,
                        Sel::BitC(_) | Sel::Range(..) => "select".to_string(),
                        _ => "select[dyn]".to_string(),
                    }
                }
                other => vdesign::findings::top_op(other),
            };
            let sg = if t.signed && matches!(n.e, Expr::Bin(..) | Expr::Un(..)) { "(signed)" } else { "" };
            out.insert(format!("{name}{sg}"));
        });
    }
    fn st(m: &Module, ss: &[Stmt], out: &mut BTreeSet<String>) {
        for s in ss {
            match s {
                Stmt::Assign { lhs, op, rhs } => {
                    if !matches!(lhs.sel, Sel::None) {
                        out.insert(if matches!(lhs.sel, Sel::BitC(_) | Sel::Range(..)) { "lhs-select".into() } else { "lhs-select[dyn]".into() });
                    }
                    if lhs.idx.is_some() {
                        out.insert("lhs-array".into());
                    }
                    if lhs.field.is_some() {
                        out.insert("lhs-field".into());
                    }
                    if let AssignOp::Op(b) = op {
                        out.insert(format!("{}=", b.name()));
                    }
                    ex(m, rhs, out);
                }
                Stmt::AssignConcat { rhs, .. } => {
                    out.insert("lhs-concat".into());
                    ex(m, rhs, out);
                }
                Stmt::If { cond, then, els } => {
                    out.insert("if-stmt".into());
                    ex(m, cond, out);
                    st(m, then, out);
                    st(m, els, out);
                }
                Stmt::Case { sel, arms, default } => {
                    out.insert("case-stmt".into());
                    ex(m, sel, out);
                    for (_, b) in arms {
                        st(m, b, out);
                    }
                    if let Some(d) = default {
                        st(m, d, out);
                    }
                }
                Stmt::Switch { arms, default } => {
                    out.insert("switch-stmt".into());
                    for (cs, b) in arms {
                        for c in cs {
                            ex(m, c, out);
                        }
                        st(m, b, out);
                    }
                    if let Some(d) = default {
                        st(m, d, out);
                    }
                }
                Stmt::For { body, break_if, .. } => {
                    out.insert("for".into());
                    if let Some(b) = break_if {
                        out.insert("break".into());
                        ex(m, b, out);
                    }
                    st(m, body, out);
                }
                Stmt::Display { .. } => {}
                Stmt::Return(e) => ex(m, e, out),
            }
        }
    }
    for m in &design.modules {
        for f in &m.funcs {
            out.insert("function".into());
            st(m, &f.body, &mut out);
        }
        for it in &m.items {
            match it {
                Item::Assign { lhs, rhs } => {
                    if !matches!(lhs.sel, Sel::None) {
                        out.insert("lhs-select".into());
                    }
                    ex(m, rhs, &mut out);
                }
                Item::Let { rhs, .. } => ex(m, rhs, &mut out),
                Item::AlwaysComb(b) => {
                    out.insert("always_comb".into());
                    st(m, b, &mut out);
                }
                Item::AlwaysFf { reset, body, .. } => {
                    out.insert("always_ff".into());
                    st(m, reset, &mut out);
                    st(m, body, &mut out);
                }
                Item::Inst { conns, .. } => {
                    out.insert("inst".into());
                    for (_, c) in conns {
                        if let Conn::In(e) = c {
                            ex(m, e, &mut out);
                        }
                    }
                }
            }
        }
    }
    out
}

fn fail_payload(text: &str, case: &SynthCase, stim: &Stimulus, extra: Value) -> Value {
    json!({"veryl": text, "options": case.options_json(), "stimulus": stim_json(stim), "detail": extra})
}

/// Decide one case.
pub fn evaluate(case: &SynthCase) -> Outcome {
    let v = verdict(&case.text, case, &case.stim, case.library, case.ram);
    match v {
        Verdict::Skip(r) => Outcome::skip(r),
        Verdict::Broken(sig, _) => Outcome::fail(sig.clone(), format!("the netlist cannot be simulated: {sig}\n{}", case.text), fail_payload(&case.text, case, &case.stim, json!(null))),
        Verdict::Agree(sr, st) => {
            let m = &sr.gate_ir.module;
            let mut classes = case.classes.clone();
            classes.push(format!("family:{}", case.family));
            classes.push(format!("library:{}", library_name(case.library)));
            classes.push(format!("clock:{}", case.clock.type_name()));
            classes.push(format!("reset:{}", case.reset.type_name()));
            netlist_classes(m, &mut classes);
            if case.family == "ram" {
                classes.push(if m.ram_blocks.is_empty() { "ram:not_inferred".into() } else { "ram:inferred".to_string() });
                if st.ram_reads_known > 0 {
                    classes.push("ram:read_data_compared".into());
                }
                if st.ram_masked_writes > 0 {
                    classes.push("ram:masked_write_executed".into());
                }
            }
            if st.x_bits > 0 {
                classes.push("compare:some_bits_x".into());
            }
            if st.compared_bits == 0 {
                classes.push("compare:nothing_known".into());
            }
            if case.stim.steps.iter().skip(2).any(|s| s.reset) {
                classes.push("stim:mid_run_reset".into());
            }
            let nt = nontrivial(m) && st.compared_bits > 0 && st.activity;
            let sample = format!("{}// options: {}\n// stimulus: {}", case.text, case.options_json(), stim_json(&case.stim));
            Outcome::pass(hash_str(&sample), nt, classes, sample)
        }
        Verdict::Differ(sr, mm) => explain(case, &sr.gate_ir.module, mm),
    }
}

/// A disagreement: re-examine, minimise, name.
pub fn explain(case: &SynthCase, gate: &GateModule, mm: Mismatch) -> Outcome {
    let oname = case.stim.outputs[mm.output].name.clone();
    let head = format!(
        "output {oname} after step {}: gate netlist {:x} (X mask {:x}), RTL simulator {:x}  [library {}, {:?}]",
        mm.step,
        mm.gate,
        mm.gate_x,
        mm.rtl,
        library_name(case.library),
        case.ram
    );
    if let Some(design) = &case.design {
        let rt = reference_trace(design, &case.stim);
        let rv = &rt.steps[mm.step][mm.output];
        if rv.x {
            return Outcome::skip("the IEEE 1800 reference gives X where netlist and RTL simulator differ (outside the property)");
        }
        let known = mask(case.stim.outputs[mm.output].width as u32) ^ &mm.gate_x;
        let gate_ok = ((&mm.gate ^ &rv.v) & &known) == BigUint::default();
        if gate_ok && rv.v != mm.rtl {
            return Outcome::skip("the RTL simulator deviates from the IEEE 1800 reference, the netlist agrees with it (simulator matter: C02 / C18)");
        }
        // minimise: the netlist must keep disagreeing with an RTL simulator that agrees with the reference
        let mut budget_left = std::env::var("C19_MINIMIZE").ok().and_then(|s| s.parse::<usize>().ok()).unwrap_or(250);
        if !case.stim.steps.is_empty() && budget_left > 0 {
            let lib = case.library;
            let ram = case.ram;
            let mut pred = |dsg: &Design, st: &Stimulus| -> bool {
                let text = retype(&print_design(dsg), case.clock, case.reset);
                match verdict(&text, case, st, lib, ram) {
                    Verdict::Differ(_, m2) => {
                        let rt = reference_trace(dsg, st);
                        match rt.steps.get(m2.step).and_then(|r| r.get(m2.output)) {
                            Some(rv) => !rv.x && rv.v == m2.rtl,
                            None => false,
                        }
                    }
                    _ => false,
                }
            };
            if pred(design, &case.stim) {
                budget_left -= 1;
                let (md, ms) = vdesign::minimize::minimize(design, &case.stim, &mut pred, budget_left);
                let text = retype(&print_design(&md), case.clock, case.reset);
                let feats: Vec<String> = design_features(&md).into_iter().collect();
                let hits = crate::synth_findings::design_hits(&md);
                // several known shapes left in the minimised design: attribute to the most specific one
                const PRIORITY: &[&str] = &[
                    "reset-branch-not-plain-constants",
                    "ff-read-after-write-in-block",
                    "const-wider-than-declared-type",
                    "signed-constant-not-sign-extended",
                    "signed-comparison-in-unsigned-context",
                    "select-of-signed-variable-is-signed",
                    "fill-literal-ones-not-filled",
                    "multi-bit-condition-tests-bit-0",
                    "width-cast-ignored",
                    "ashr-in-unsigned-context",
                    "operand-truncated-to-target-width",
                    "signed-operand-in-unsigned-context",
                ];
                let sig = match PRIORITY.iter().find(|k| hits.contains(k)) {
                    Some(k) => k.to_string(),
                    None if hits.is_empty() => format!("unclassified:{}", feats.join(",")),
                    None => hits.join("+"),
                };
                let detail = match verdict(&text, case, &ms, lib, ram) {
                    Verdict::Differ(sr2, m2) => format!(
                        "minimised: output {} after step {}: gate {:x} (X {:x}), RTL {:x}\n{}\n-- gate ir --\n{}",
                        ms.outputs[m2.output].name,
                        m2.step,
                        m2.gate,
                        m2.gate_x,
                        m2.rtl,
                        text,
                        if sr2.gate_ir.module.cells.len() < 150 { format!("{}", sr2.gate_ir) } else { format!("({} cells)", sr2.gate_ir.module.cells.len()) }
                    ),
                    _ => text.clone(),
                };
                return Outcome::fail(sig, format!("{head}\nthe IEEE 1800 reference agrees with the RTL simulator\n{detail}"), fail_payload(&text, case, &ms, json!({"original": case.text})));
            }
        }
        let feats: Vec<String> = design_features(design).into_iter().collect();
        return Outcome::fail(
            format!("unclassified(unminimised):{}", feats.join(",")),
            format!("{head}\nreference value {:x}\n{}", rv.v, case.text),
            fail_payload(&case.text, case, &case.stim, json!(null)),
        );
    }
    // hand-templated shape: small by construction, the label names the family
    if let Some((label, known)) = &case.tpl {
        let sig = match known {
            Some(k) => k.to_string(),
            None => format!("unclassified(template:{label})"),
        };
        return Outcome::fail(
            sig,
            format!("{head}\n{}\n-- gate ir --\n{}", case.text, if gate.cells.len() < 200 { format!("{gate}") } else { format!("({} cells)", gate.cells.len()) }),
            fail_payload(&case.text, case, &case.stim, json!(null)),
        );
    }
    // memory-shaped case: minimise the specification, then ask the same text without inference
    let Some((spec0, streams0)) = &case.ram_spec else {
        return Outcome::fail("unclassified:recorded", format!("{head}\n{}", case.text), fail_payload(&case.text, case, &case.stim, json!(null)));
    };
    let differs = |sp: &RamSpec, st: &Streams| -> bool {
        let c = ram_case_of(sp, st, case.clock, case.reset, case.library, case.ram);
        matches!(verdict(&c.text, &c, &c.stim, c.library, c.ram), Verdict::Differ(..))
    };
    let mut spec = spec0.clone();
    let mut streams = streams0.clone();
    let mut budget = 120;
    'outer: loop {
        for cand in crate::ram_tpl::simpler(&spec) {
            if budget == 0 {
                break 'outer;
            }
            budget -= 1;
            if differs(&cand, &streams) {
                spec = cand;
                continue 'outer;
            }
        }
        break;
    }
    // shorter stimulus
    while streams.resets.len() > 2 && budget > 0 {
        budget -= 1;
        let mut st = streams.clone();
        st.resets.pop();
        if differs(&spec, &st) {
            streams = st;
        } else {
            break;
        }
    }
    let mc = ram_case_of(&spec, &streams, case.clock, case.reset, case.library, case.ram);
    let off = RamConfig {
        min_bits: usize::MAX,
        max_ff_bits: usize::MAX,
        ..case.ram
    };
    let (inferred, detail) = match verdict(&mc.text, &mc, &mc.stim, mc.library, mc.ram) {
        Verdict::Differ(sr, m2) => (
            !sr.gate_ir.module.ram_blocks.is_empty(),
            format!(
                "minimised: output {} after step {}: gate {:x} (X {:x}), RTL {:x}\n{}\n-- gate ir --\n{}",
                mc.stim.outputs[m2.output].name,
                m2.step,
                m2.gate,
                m2.gate_x,
                m2.rtl,
                mc.text,
                if sr.gate_ir.module.cells.len() < 150 { format!("{}", sr.gate_ir) } else { format!("({} cells)", sr.gate_ir.module.cells.len()) }
            ),
        ),
        _ => (!gate.ram_blocks.is_empty(), mc.text.clone()),
    };
    let without = match verdict(&mc.text, &mc, &mc.stim, mc.library, off) {
        Verdict::Agree(..) => "agrees",
        Verdict::Differ(..) => "differs",
        Verdict::Broken(..) => "broken",
        Verdict::Skip(_) => "skipped",
    };
    let feats = spec.signature_features();
    let sig = if inferred && without == "agrees" && spec.has_reassigned_index() {
        "ram-read-port-shared-by-address-text".to_string()
    } else if !inferred && spec.ff_read_after_write() {
        "ff-read-after-write-in-block".to_string()
    } else if inferred && without == "agrees" {
        format!("ram-inference-changes-behaviour:{}", feats.join(","))
    } else {
        format!("unclassified(memory-module,{}):{}", if inferred { "inferred" } else { "flip-flops" }, feats.join(","))
    };
    Outcome::fail(
        sig,
        format!("{head}\nthe minimised text synthesized without inference {without} with the RTL simulator\n{detail}"),
        fail_payload(&mc.text, &mc, &mc.stim, json!({"without_inference": without, "original": case.text})),
    )
}

// ---------------------------------------------------------------------------
// recorded reproducers: text + options + stimulus
// ---------------------------------------------------------------------------

pub fn stim_from(v: &Value) -> Stimulus {
    let ports = |x: &Value| -> Vec<PortSpec> {
        x.as_array()
            .map(|a| {
                a.iter()
                    .map(|p| PortSpec {
                        name: p["name"].as_str().unwrap_or("").to_string(),
                        width: p["width"].as_u64().unwrap_or(1) as usize,
                    })
                    .collect()
            })
            .unwrap_or_default()
    };
    Stimulus {
        clock: v["clock"].as_str().map(|s| s.to_string()),
        reset: v["reset"].as_str().map(|s| s.to_string()),
        inputs: ports(&v["inputs"]),
        outputs: ports(&v["outputs"]),
        steps: v["steps"]
            .as_array()
            .map(|a| {
                a.iter()
                    .map(|s| StimStep {
                        reset: s["reset"].as_bool().unwrap_or(false),
                        values: s["values"].as_array().map(|r| r.iter().map(|x| x.as_str().and_then(|t| BigUint::parse_bytes(t.as_bytes(), 16)).unwrap_or_default()).collect()).unwrap_or_default(),
                    })
                    .collect()
            })
            .unwrap_or_default(),
    }
}

pub fn case_from_payload(p: &Value) -> SynthCase {
    let o = &p["options"];
    let clock = match o["clock_type"].as_str().unwrap_or("clock") {
        "clock_posedge" => ClockKind::Posedge,
        "clock_negedge" => ClockKind::Negedge,
        _ => ClockKind::Plain,
    };
    let reset = match o["reset_type"].as_str().unwrap_or("reset") {
        "reset_async_high" => ResetKind::AsyncHigh,
        "reset_async_low" => ResetKind::AsyncLow,
        "reset_sync_high" => ResetKind::SyncHigh,
        "reset_sync_low" => ResetKind::SyncLow,
        _ => ResetKind::Plain,
    };
    let library = match o["library"].as_str().unwrap_or("sky130") {
        "asap7" => Library::Asap7,
        "gf180mcu" => Library::Gf180mcu,
        "ihp-sg13g2" => Library::IhpSg13g2,
        _ => Library::Sky130,
    };
    let dflt = RamConfig::default();
    let g = |k: &str, d: usize| o[k].as_u64().map(|x| x as usize).unwrap_or(d);
    SynthCase {
        family: "recorded",
        text: p["veryl"].as_str().unwrap_or("").to_string(),
        design: None,
        ram_spec: None,
        tpl: None,
        stim: stim_from(&p["stimulus"]),
        clock,
        reset,
        library,
        ram: RamConfig {
            min_bits: g("ram_min_bits", dflt.min_bits),
            max_read_ports: g("ram_max_read_ports", dflt.max_read_ports),
            max_write_ports: g("ram_max_write_ports", dflt.max_write_ports),
            max_ff_bits: g("ram_max_ff_bits", dflt.max_ff_bits),
        },
        classes: vec!["recorded".into()],
        arrays: vec![],
    }
}

/// Re-run a recorded reproducer; the signature is the recorded root cause.
pub fn replay_recorded(p: &Value) -> Outcome {
    let case = case_from_payload(p);
    let root = p["root"].as_str().unwrap_or("recorded").to_string();
    match verdict(&case.text, &case, &case.stim, case.library, case.ram) {
        Verdict::Skip(r) => Outcome::skip(r),
        Verdict::Agree(..) => Outcome::pass(hash_str(&case.text), true, vec!["recorded".into()], case.text.clone()),
        Verdict::Broken(sig, _) => Outcome::fail(sig, "recorded reproducer: netlist not evaluable", p.clone()),
        Verdict::Differ(_, mm) => Outcome::fail(
            root,
            format!(
                "recorded reproducer: output {} after step {}: gate {:x} (X {:x}), RTL {:x}\n{}",
                case.stim.outputs[mm.output].name, mm.step, mm.gate, mm.gate_x, mm.rtl, case.text
            ),
            p.clone(),
        ),
    }
}

/// Development aid (`<ID>_DISCOVER=1`): keep searching past failures and
/// print each new signature once; `<ID>_RECORD=dir` writes the smallest
/// reproducer per signature.
pub fn discover(id: &str, o: Outcome) -> Outcome {
    static SEEN: std::sync::Mutex<BTreeMap<String, (u32, usize)>> = std::sync::Mutex::new(BTreeMap::new());
    if std::env::var(format!("{id}_DISCOVER")).is_err() {
        return o;
    }
    match o {
        Outcome::Fail(f) => {
            let mut g = SEEN.lock().unwrap();
            let size = f.input["veryl"].as_str().map(|s| s.len()).unwrap_or(usize::MAX);
            let e = g.entry(f.signature.clone()).or_insert((0, usize::MAX));
            e.0 += 1;
            if e.0 <= 2 {
                println!("=== DISCOVERED {}\n{}", f.signature, f.message);
            }
            if let Ok(dir) = std::env::var(format!("{id}_RECORD")) {
                if size < e.1 {
                    e.1 = size;
                    let _ = std::fs::create_dir_all(&dir);
                    let name: String = f.signature.chars().map(|c| if c.is_ascii_alphanumeric() || c == '-' || c == '+' { c } else { '_' }).take(120).collect();
                    let mut payload = f.input.clone();
                    payload["root"] = json!(f.signature);
                    let body = json!({"property": id, "sub": "recorded", "signature": f.signature, "message": f.message, "payload": payload});
                    let _ = std::fs::write(format!("{dir}/{name}.json"), serde_json::to_string_pretty(&body).unwrap());
                }
            }
            Outcome::pass(hash_str(&f.message), false, vec![format!("FAIL:{}", f.signature)], String::new())
        }
        o => o,
    }
}

pub fn recorded_on_own_thread(p: &Value, f: fn(&Value) -> Outcome) -> Outcome {
    std::thread::scope(|s| {
        std::thread::Builder::new()
            .stack_size(16 << 20)
            .spawn_scoped(s, || f(p))
            .expect("spawn")
            .join()
            .unwrap_or_else(|_| Outcome::fail("panic:recorded", "the replay panicked", p.clone()))
    })
}

pub fn one_case(d: &mut Draw) -> Outcome {
    let case = gen_case(d);
    if std::env::var("C19_DUMP").is_ok() {
        println!("{}// options: {}\n// stimulus: {}", case.text, case.options_json(), stim_json(&case.stim));
    }
    evaluate(&case)
}

// ---------------------------------------------------------------------------
// the polarity-agnostic `clock` / `reset` types under every [build] setting
// ---------------------------------------------------------------------------

const PROJECT_TYPES_DESIGN: &str = r#"module Top (
    clk: input  clock,
    rst: input  reset,
    en : input  logic,
    q  : output logic<4>,
) {
    always_ff {
        if_reset {
            q = 4'h5;
        } else if en {
            q = q + 4'd1;
        }
    }
}
"#;

fn analyze_with_build(text: &str, clock: veryl_metadata::ClockType, reset: veryl_metadata::ResetType) -> Result<veryl_analyzer::ir::Ir, String> {
    use veryl_analyzer::{Analyzer, Context, symbol_table};
    symbol_table::clear();
    let mut metadata = veryl_metadata::Metadata::create_default("prj").map_err(|e| e.to_string())?;
    metadata.build.clock_type = clock;
    metadata.build.reset_type = reset;
    let parser = veryl_parser::Parser::parse(text, &"").map_err(|e| e.to_string())?;
    let analyzer = Analyzer::new(&metadata);
    let mut context = Context::default();
    let mut ir = veryl_analyzer::ir::Ir::default();
    let mut errors = vec![];
    errors.append(&mut analyzer.analyze_pass1("prj", &parser.veryl));
    errors.append(&mut Analyzer::analyze_post_pass1());
    errors.append(&mut analyzer.analyze_pass2(&parser.veryl, &mut context, Some(&mut ir)));
    errors.append(&mut Analyzer::analyze_post_pass2(&ir));
    if let Some(e) = errors.iter().find(|e| e.is_error()) {
        return Err(e.to_string());
    }
    Ok(ir)
}

/// `clock` / `reset` mean what `[build] clock_type / reset_type` say (the
/// emitter and the simulator's `abstract_reset_*` follow them): the flip-flops
/// of the netlist must carry that edge / polarity / synchronicity.
fn project_types_case(p: &Value) -> Outcome {
    use veryl_metadata::{ClockType, ResetType};
    use veryl_synthesizer::ir::{ClockEdge, ResetPolarity};
    let ck = p["clock_type"].as_str().unwrap_or("posedge").to_string();
    let rs = p["reset_type"].as_str().unwrap_or("async_low").to_string();
    let clock = if ck == "negedge" { ClockType::NegEdge } else { ClockType::PosEdge };
    let (reset, high, sync) = match rs.as_str() {
        "async_high" => (ResetType::AsyncHigh, true, false),
        "sync_low" => (ResetType::SyncLow, false, true),
        "sync_high" => (ResetType::SyncHigh, true, true),
        _ => (ResetType::AsyncLow, false, false),
    };
    let ir = match analyze_with_build(PROJECT_TYPES_DESIGN, clock, reset) {
        Ok(ir) => ir,
        Err(e) => return Outcome::skip(format!("analyzer rejects the design ({e})")),
    };
    let top = veryl_parser::resource_table::insert_str("Top");
    let sr = match veryl_synthesizer::synthesize_with(&ir, top, Library::Sky130, RamConfig::default()) {
        Ok(r) => r,
        Err(e) => return Outcome::skip(format!("synthesizer rejects the design ({})", reject_reason(&e))),
    };
    let m = &sr.gate_ir.module;
    let mut wrong = vec![];
    for f in &m.ffs {
        let want = if ck == "negedge" { ClockEdge::Negedge } else { ClockEdge::Posedge };
        if f.clock_edge != want {
            wrong.push(format!("clock edge {} (project: {ck})", f.clock_edge));
        }
        match &f.reset {
            None => wrong.push("no reset".to_string()),
            Some(r) => {
                if matches!(r.polarity, ResetPolarity::ActiveHigh) != high {
                    wrong.push(format!("reset polarity {} (project: {rs})", r.polarity));
                }
                if r.sync != sync {
                    wrong.push(format!("reset {} (project: {rs})", if r.sync { "sync" } else { "async" }));
                }
            }
        }
    }
    wrong.sort();
    wrong.dedup();
    if m.ffs.len() != 4 {
        return Outcome::fail("project-types:flip-flop-count", format!("{} flip-flops for a 4-bit counter", m.ffs.len()), p.clone());
    }
    if wrong.is_empty() {
        Outcome::pass(hash_str(&format!("{ck}/{rs}")), true, vec![format!("project:{ck}/{rs}")], format!("[build] clock_type = {ck}, reset_type = {rs}\n{PROJECT_TYPES_DESIGN}"))
    } else {
        Outcome::fail(
            "build-clock-reset-type-ignored",
            format!("[build] clock_type = \"{ck}\", reset_type = \"{rs}\": the flip-flops of the netlist have {}\n{PROJECT_TYPES_DESIGN}\n{}", wrong.join(", "), sr.gate_ir),
            p.clone(),
        )
    }
}

fn project_types(ctx: &Ctx) {
    if ctx.replay_mode() && ctx.replay_for("project-types").is_none() {
        return;
    }
    if let Some(v) = ctx.replay_for("project-types") {
        let p = v["payload"].clone();
        let out = recorded_on_own_thread(&p, project_types_case);
        ctx.record("project-types", out, p);
        return;
    }
    for ck in ["posedge", "negedge"] {
        for rs in ["async_low", "async_high", "sync_low", "sync_high"] {
            let p = json!({"clock_type": ck, "reset_type": rs, "veryl": PROJECT_TYPES_DESIGN});
            let out = recorded_on_own_thread(&p, project_types_case);
            ctx.record("project-types", out, p);
        }
    }
}

#[allow(dead_code)]
pub fn run(ctx: &Ctx) {
    if let Err(e) = crate::gate_eval::self_test() {
        println!("INCONCLUSIVE property=C19: gate evaluator self-test failed: {e}");
        std::process::exit(2);
    }
    if let Err(e) = crate::selftest::ram_self_test() {
        println!("INCONCLUSIVE property=C19: gate evaluator RAM self-test failed: {e}");
        std::process::exit(2);
    }
    ctx.run_payloads("recorded", |p| recorded_on_own_thread(p, replay_recorded));
    project_types(ctx);
    let n = std::env::var("C19_CASES").ok().and_then(|s| s.parse::<usize>().ok()).unwrap_or(ctx.scale(500, 30_000));
    ctx.run("cases", CaseCfg::cases(n).choices(60_000).timeout_s(600), |d| discover("C19", one_case(d)));
    ctx.assume("the gate evaluator implements the doc comments of crates/synthesizer/src/ir.rs; what they leave open (RAM words never written, state before the first reset, out-of-range RAM addresses, read/write collision on a registered read) is X and not compared");
    ctx.assume("the RTL side is veryl's simulator with the default Config, driven as vdesign's driver does (inputs, one clock edge with the reset asserted around it on reset steps, sample); where vdesign's IEEE 1800 reference says the RTL simulator is wrong and the netlist right, the case is counted as skipped (simulator matter)");
    ctx.assume("generated cases use the default project settings: plain `reset` / `clock` mean async-low / posedge (Metadata::create_default); the other [build] clock_type / reset_type values are covered structurally by the enumerated sub-check `project-types`");
    ctx.finish(
        "translation_validation",
        "vdesign designs in the synthesizable dialect (no **, widths <= 64, mul/div at small widths, hierarchy, counters, case decoding, small arrays) and memory-shaped modules (1-3 write sites: plain / unconditional / masked RMW / sub-word lanes / if-else / case arm; 1-3 reads: assign / registered / re-assigned index / sub-word / computed address; flat or in 1-2 child instances) and hand-templated shapes (nested mux trees over shared selects and data legs in ternary / if-else / case form with all select combinations applied; shifts by a wide non-constant amount with over-range corners; adders / comparators at widths 1, 2, 31..33, 63..65 with carry corners; counters with non-zero reset value, enable, load, wrap) x stimulus x clock/reset type x 4 libraries x RamConfig drawn around the array size and port counts; non-trivial = netlist has FFs and > 20 cells, or a RAM block, and some known output bit was compared and some output changed; distinct by text + options + stimulus",
    );
}

/// Development aid: print both traces of a recorded case side by side.
#[allow(dead_code)]
pub fn probe(p: &Value) {
    let mut case = case_from_payload(p);
    if std::env::var("PROBE_NO_RAM").is_ok() {
        case.ram.min_bits = usize::MAX;
        case.ram.max_ff_bits = usize::MAX;
    }
    println!("{}", case.text);
    println!("options: {}", case.options_json());
    let a = match Analyzed::new(&case.text) {
        Ok(a) => a,
        Err(r) => {
            println!("analyzer rejects: {r}");
            return;
        }
    };
    for w in &a.warnings {
        println!("warning: {w}");
    }
    let sr = match synthesize(&a, case.library, case.ram) {
        Synth::Ok(r) => r,
        Synth::Rejected(w) => {
            println!("synthesizer rejects: {w}");
            return;
        }
        Synth::Panic(m) => {
            println!("synthesizer panics: {m}");
            return;
        }
    };
    let m = &sr.gate_ir.module;
    println!("{} cells, {} ffs, {} ram blocks", m.cells.len(), m.ffs.len(), m.ram_blocks.len());
    if m.cells.len() < 400 || std::env::var("PROBE_IR").is_ok() {
        println!("{}", sr.gate_ir);
        for (i, r) in m.ram_blocks.iter().enumerate() {
            for (k, w) in r.write_ports.iter().enumerate() {
                println!("ram{i} w{k}: addr {:?} data {:?} en n{} mask {:?}", w.addr, w.data, w.enable, w.mask);
            }
            for (k, rp) in r.read_ports.iter().enumerate() {
                println!("ram{i} r{k}: addr {:?} data {:?} sync {}", rp.addr, rp.data, rp.sync);
            }
        }
    }
    println!("{}{}", sr.area, sr.timing);
    let rtl = match run_rtl(&a, &case.stim) {
        Ok(t) => t,
        Err(e) => {
            println!("RTL simulator: {e}");
            return;
        }
    };
    let cs = ClockSpec {
        clock: case.stim.clock.clone(),
        reset: case.stim.reset.clone(),
        reset_active_high: case.reset.active_high(),
    };
    let mut sim = match GateSim::new(m, &cs) {
        Ok(s) => s,
        Err(e) => {
            println!("gate netlist not evaluable: {e}");
            return;
        }
    };
    println!("clocking errors: {:?}", sim.clocking_errors(case.clock == ClockKind::Negedge, Some(case.reset.sync())));
    for (si, step) in case.stim.steps.iter().enumerate() {
        let mut line = format!("step {si}{}:", if step.reset { " RESET" } else { "" });
        for (p, v) in case.stim.inputs.iter().zip(&step.values) {
            sim.set_input(&p.name, v).unwrap();
            line.push_str(&format!(" {}={v:x}", p.name));
        }
        if case.stim.clock.is_some() {
            sim.step(step.reset && case.stim.reset.is_some());
        } else {
            sim.settle();
        }
        line.push_str("  =>");
        for (oi, p) in case.stim.outputs.iter().enumerate() {
            let (v, x, _) = sim.get_output(&p.name).unwrap();
            let r = &rtl.steps[si][oi].value;
            let bad = ((&v ^ r) & (mask(p.width as u32) ^ &x)) != BigUint::default();
            line.push_str(&format!(" {}: gate {v:x}/x{x:x} rtl {r:x}{}", p.name, if bad { " <<<<" } else { "" }));
        }
        println!("{line}");
    }
}
