//! Shared by C19, C20 (vc-synth) and C21 (vc-aig, via `#[path]`): generation
//! of a synthesis case and the run through `veryl_synthesizer::synthesize_with`
//! (the call `veryl synth` makes, crates/veryl/src/cmd_synth.rs).
//!
//! A case = Veryl text + stimulus + declared clock / reset types + cell
//! library + `RamConfig`.  Two families:
//!
//! * `design`: `vdesign::gen_design` restricted to what the synthesizer is
//!   meant to take (no `**`, no `$display`, widths ≤ 64, mul/div operands
//!   small enough to keep netlists in the 10^4-cell range), hierarchy,
//!   counters, case decoding, small arrays;
//! * `ram`: memory-shaped modules written here as text (vdesign's IR has no
//!   reset-less `always_ff`): an array of `depth × width` bits with 1–3 write
//!   sites (plain, unconditional, read-modify-write with mask, constant
//!   sub-word lanes, if/else, case arm) and 1–3 reads (assign, registered,
//!   re-assigned index variable, sub-word, computed address), optionally
//!   inside a child module instantiated once or twice.  `RamConfig` is drawn
//!   *around* the array (min_bits = bits-1 / bits / bits+1, port limits =
//!   ports-1 / ports, max_ff_bits below / above), so the same text is
//!   synthesized with and without inference.

#![allow(dead_code)]

use num_bigint::BigUint;
use std::fmt::Write as _;
use vcore::{Draw, json};
use vdesign::*;
use crate::ram_tpl::*;
use veryl_synthesizer::{Library, RamConfig, SynthResult, SynthesizerError};

#[derive(Clone, Copy, Debug, PartialEq, Eq)]
pub enum ResetKind {
    /// `reset`: the project default, `[build] reset_type = async_low`
    Plain,
    AsyncHigh,
    AsyncLow,
    SyncHigh,
    SyncLow,
}

impl ResetKind {
    pub fn type_name(self) -> &'static str {
        match self {
            ResetKind::Plain => "reset",
            ResetKind::AsyncHigh => "reset_async_high",
            ResetKind::AsyncLow => "reset_async_low",
            ResetKind::SyncHigh => "reset_sync_high",
            ResetKind::SyncLow => "reset_sync_low",
        }
    }
    pub fn active_high(self) -> bool {
        matches!(self, ResetKind::AsyncHigh | ResetKind::SyncHigh)
    }
    pub fn sync(self) -> bool {
        matches!(self, ResetKind::SyncHigh | ResetKind::SyncLow)
    }
}

#[derive(Clone, Copy, Debug, PartialEq, Eq)]
pub enum ClockKind {
    Plain,
    Posedge,
    Negedge,
}

impl ClockKind {
    pub fn type_name(self) -> &'static str {
        match self {
            ClockKind::Plain => "clock",
            ClockKind::Posedge => "clock_posedge",
            ClockKind::Negedge => "clock_negedge",
        }
    }
}

pub const LIBRARIES: [Library; 4] = [Library::Sky130, Library::Asap7, Library::Gf180mcu, Library::IhpSg13g2];

pub fn library_name(l: Library) -> &'static str {
    match l {
        Library::Sky130 => "sky130",
        Library::Asap7 => "asap7",
        Library::Gf180mcu => "gf180mcu",
        Library::IhpSg13g2 => "ihp-sg13g2",
    }
}

pub struct SynthCase {
    pub family: &'static str,
    pub text: String,
    /// vdesign IR (family `design`): lets the reference evaluator give a third opinion
    pub design: Option<Design>,
    /// structured form of a `ram` case (for minimisation)
    pub ram_spec: Option<(RamSpec, Streams)>,
    /// hand-templated shape (`shape_tpl`): (label, key of the known finding it contains)
    pub tpl: Option<(String, Option<&'static str>)>,
    pub stim: Stimulus,
    pub clock: ClockKind,
    pub reset: ResetKind,
    pub library: Library,
    pub ram: RamConfig,
    pub classes: Vec<String>,
    /// (depth, width, reads, writes) of the memory arrays of a `ram` case
    pub arrays: Vec<(usize, usize, usize, usize)>,
}

impl SynthCase {
    pub fn options_json(&self) -> vcore::Value {
        json!({
            "top": "Top",
            "library": library_name(self.library),
            "clock_type": self.clock.type_name(),
            "reset_type": self.reset.type_name(),
            "ram_min_bits": self.ram.min_bits,
            "ram_max_read_ports": self.ram.max_read_ports,
            "ram_max_write_ports": self.ram.max_write_ports,
            "ram_max_ff_bits": self.ram.max_ff_bits,
        })
    }
}

pub fn stim_json(stim: &Stimulus) -> serde_json::Value {
    json!({
        "clock": stim.clock, "reset": stim.reset,
        "inputs": stim.inputs.iter().map(|p| json!({"name": p.name, "width": p.width})).collect::<Vec<_>>(),
        "outputs": stim.outputs.iter().map(|p| json!({"name": p.name, "width": p.width})).collect::<Vec<_>>(),
        "steps": stim.steps.iter().map(|s| json!({
            "reset": s.reset,
            "values": s.values.iter().map(|v| format!("{v:x}")).collect::<Vec<_>>()
        })).collect::<Vec<_>>()
    })
}

/// Rewrite the declared clock / reset types of every module of `text`
/// (vdesign prints `clk: input clock,` / `rst: input reset,`).
pub fn retype(text: &str, clock: ClockKind, reset: ResetKind) -> String {
    text.replace(": input clock,", &format!(": input {},", clock.type_name())).replace(": input reset,", &format!(": input {},", reset.type_name()))
}

fn gen_types(d: &mut Draw) -> (ClockKind, ResetKind) {
    let clock = match d.weighted(&[4, 1, 2]) {
        0 => ClockKind::Plain,
        1 => ClockKind::Posedge,
        _ => ClockKind::Negedge,
    };
    let reset = match d.weighted(&[4, 2, 1, 2, 2]) {
        0 => ResetKind::Plain,
        1 => ResetKind::AsyncHigh,
        2 => ResetKind::AsyncLow,
        3 => ResetKind::SyncHigh,
        _ => ResetKind::SyncLow,
    };
    (clock, reset)
}

fn gen_ram_config(d: &mut Draw, arrays: &[(usize, usize, usize, usize)]) -> RamConfig {
    let mut rc = RamConfig::default();
    if arrays.is_empty() {
        // designs of the `design` family have only tiny reset arrays: make
        // sure a low threshold does not infer them wrongly
        if d.chance(1, 2) {
            rc.min_bits = *d.pick(&[1usize, 2, 8, 64]);
        }
        return rc;
    }
    let &(depth, width, reads, writes) = d.pick(arrays);
    let bits = depth * width;
    rc.min_bits = match d.weighted(&[3, 2, 2, 2, 1, 1]) {
        0 => 1,
        1 => bits,
        2 => bits + 1,
        3 => bits.saturating_sub(1).max(1),
        4 => 1024,
        _ => bits * 2,
    };
    rc.max_read_ports = match d.weighted(&[4, 2, 2]) {
        0 => 16,
        1 => reads,
        _ => reads.saturating_sub(1),
    };
    rc.max_write_ports = match d.weighted(&[4, 2, 2]) {
        0 => 8,
        1 => writes,
        _ => writes.saturating_sub(1),
    };
    rc.max_ff_bits = match d.weighted(&[5, 1, 1]) {
        0 => 1 << 16,
        1 => bits,
        _ => bits.saturating_sub(1),
    };
    rc
}

/// The synthesizable dialect of `vdesign::gen_design`.
pub fn synth_gen_cfg(d: &mut Draw) -> (GenCfg, Vec<String>) {
    let mut cfg = GenCfg::default();
    let mut cls = vec![];
    cfg.pow = false; // UnsupportedKind::PowOperator
    cfg.display = false;
    cfg.unguarded_per_mille = 0; // division by zero / out-of-range index: X in SystemVerilog, nothing to compare
    let w = *d.pick(&[8u32, 4, 16, 12, 24, 32, 64]);
    cfg.max_width = w;
    cls.push(format!("cfg:max_width:{w}"));
    // array multipliers / dividers grow with the square of the width
    cfg.mul = w <= 32 || d.chance(1, 3);
    cfg.div = w <= 16 || (w <= 32 && d.chance(1, 3));
    cfg.max_items = 6;
    cfg.expr_depth = 3;
    (cfg, cls)
}

pub fn gen_design_case(d: &mut Draw, known_per_mille: u32) -> SynthCase {
    let (cfg, mut classes) = synth_gen_cfg(d);
    // designs that contain the trigger shape of a known finding are drawn
    // again (and counted), except at a low rate that keeps the finding visible
    let mut g = gen_design(d, &cfg);
    let mut tries = 0;
    loop {
        let hits = crate::synth_findings::design_hits(&g.design);
        if hits.is_empty() {
            break;
        }
        if d.chance(known_per_mille, 1000) {
            for h in &hits {
                classes.push(format!("known:{h}"));
            }
            break;
        }
        // what can be rewritten in place is rewritten, the rest is drawn again
        for h in crate::synth_findings::repair(&mut g.design) {
            classes.push(format!("excluded(repaired):{h}"));
        }
        let hits = crate::synth_findings::design_hits(&g.design);
        if hits.is_empty() {
            break;
        }
        for h in &hits {
            classes.push(format!("excluded:{h}"));
        }
        tries += 1;
        if tries >= 5 {
            classes.push("excluded:gave-up".into());
            break;
        }
        // second and later attempts: unsigned designs (most expression-level findings need a signed operand)
        let mut c2 = cfg.clone();
        if tries >= 2 {
            c2.signed = false;
            c2.sign_casts = false;
        }
        if tries >= 4 {
            c2.div = false;
            c2.shifts = false;
        }
        g = gen_design(d, &c2);
    }
    let cycles = 6 + d.below(10) as usize;
    let stim = gen_stimulus(d, &g.design, cycles);
    let (clock, reset) = gen_types(d);
    let library = *d.pick(&LIBRARIES);
    let ram = gen_ram_config(d, &[]);
    let text = retype(&print_design(&g.design), clock, reset);
    classes.extend(g.classes.iter().cloned());
    for (k, n) in &g.excluded {
        if *n > 0 {
            classes.push(format!("excluded(sim):{k}"));
        }
    }
    if g.design.modules.len() > 1 && g.design.top().items.iter().any(|i| matches!(i, Item::Inst { .. })) {
        classes.push("design:hierarchy".into());
    }
    if g.design.top().has_ff() {
        classes.push("design:sequential".into());
    }
    classes.sort();
    classes.dedup();
    SynthCase {
        family: "design",
        text,
        design: Some(g.design),
        ram_spec: None,
        tpl: None,
        stim,
        clock,
        reset,
        library,
        ram,
        classes,
        arrays: vec![],
    }
}

// ---------------------------------------------------------------------------
// memory-shaped modules (see `ram_tpl`)
// ---------------------------------------------------------------------------

/// Build the case of a memory specification (also used while minimising).
pub fn ram_case_of(spec: &RamSpec, streams: &Streams, clock: ClockKind, reset: ResetKind, library: Library, ram: RamConfig) -> SynthCase {
    let r = spec.render(clock.type_name(), reset.type_name());
    let stim = stimulus_of(&r, streams);
    let mut classes: Vec<String> = spec.features().into_iter().map(|f| format!("ram:{f}")).collect();
    classes.push(format!("ram:width:{}", if spec.width <= 8 { "1_8" } else if spec.width <= 32 { "9_32" } else if spec.width <= 64 { "33_64" } else { "gt64" }));
    SynthCase {
        family: "ram",
        text: r.text,
        design: None,
        ram_spec: Some((spec.clone(), streams.clone())),
        tpl: None,
        stim,
        clock,
        reset,
        library,
        ram,
        classes,
        arrays: r.arrays,
    }
}

pub fn gen_ram_case(d: &mut Draw, known_per_mille: u32) -> SynthCase {
    let (clock, reset) = gen_types(d);
    let mut spec = gen_ram_spec(d);
    let mut excluded = vec![];
    // known findings: keep their trigger shapes at a low rate only
    if spec.has_reassigned_index() && !d.chance(known_per_mille, 1000) {
        for r in spec.reads.iter_mut() {
            if r.style == ReadStyle::ReassignedIndex {
                r.style = ReadStyle::Assign;
            }
        }
        excluded.push("excluded:ram-read-port-shared-by-address-text");
    }
    if spec.ff_read_after_write() && !d.chance(known_per_mille, 1000) {
        let n = spec.writes.len();
        for w in spec.writes.iter_mut().skip(1) {
            if matches!(w.style, WriteStyle::MaskedRmw(_)) {
                w.style = WriteStyle::Plain;
            }
            if w.data == DataSrc::FromRead {
                w.data = DataSrc::Port;
            }
        }
        let _ = n;
        excluded.push("excluded:ff-read-after-write-in-block");
    }
    let r = spec.render(clock.type_name(), reset.type_name());
    let streams = gen_streams(d, &r.inputs);
    let library = *d.pick(&LIBRARIES);
    let ram = gen_ram_config(d, &r.arrays);
    let mut c = ram_case_of(&spec, &streams, clock, reset, library, ram);
    c.classes.extend(excluded.into_iter().map(|s| s.to_string()));
    c
}

pub fn gen_case(d: &mut Draw) -> SynthCase {
    gen_case_with(d, 15)
}

/// `known_per_mille`: rate at which trigger shapes of known findings are kept
pub fn gen_case_with(d: &mut Draw, known_per_mille: u32) -> SynthCase {
    // families: vdesign designs, memory modules, and the three hand-templated shape families (each >= 8 %)
    match d.weighted(&[36, 28, 13, 11, 12]) {
        0 => gen_design_case(d, known_per_mille),
        1 => gen_ram_case(d, known_per_mille),
        k => gen_tpl_case(d, k, known_per_mille),
    }
}

pub fn gen_tpl_case(d: &mut Draw, which: usize, known_per_mille: u32) -> SynthCase {
    let (clock, reset) = gen_types(d);
    let t = match which {
        2 => crate::shape_tpl::gen_mux(d),
        3 => crate::shape_tpl::gen_shift(d, known_per_mille),
        _ => crate::shape_tpl::gen_arith(d, clock.type_name(), reset.type_name()),
    };
    let library = *d.pick(&LIBRARIES);
    let ram = gen_ram_config(d, &[]);
    SynthCase {
        family: "template",
        text: t.text,
        design: None,
        ram_spec: None,
        tpl: Some((t.label, t.known)),
        stim: t.stim,
        clock,
        reset,
        library,
        ram,
        classes: t.classes,
        arrays: vec![],
    }
}

// ---------------------------------------------------------------------------
// running the synthesizer
// ---------------------------------------------------------------------------

pub enum Synth {
    Ok(Box<SynthResult>),
    /// `SynthesizerError`: outside the accepted subset
    Rejected(String),
    Panic(String),
}

pub fn reject_reason(e: &SynthesizerError) -> String {
    match e {
        SynthesizerError::Unsupported { kind, .. } => {
            let s = format!("{kind:?}");
            format!("unsupported:{}", s.split(|c: char| !c.is_alphanumeric()).next().unwrap_or(""))
        }
        SynthesizerError::UnknownWidth { .. } => "unknown-width".into(),
        SynthesizerError::DynamicSelect { .. } => "dynamic-select".into(),
        SynthesizerError::TopModuleNotFound { .. } => "top-not-found".into(),
        SynthesizerError::Internal { message } => {
            let m: String = message.chars().filter(|c| !c.is_ascii_digit()).take(50).collect();
            format!("internal:{m}")
        }
    }
}

/// `synthesize_with(&ir, top, library, ram)` — the call of `veryl synth`.
pub fn synthesize(a: &Analyzed, library: Library, ram: RamConfig) -> Synth {
    let top = veryl_parser::resource_table::insert_str("Top");
    let r = std::panic::catch_unwind(std::panic::AssertUnwindSafe(|| veryl_synthesizer::synthesize_with(&a.ir, top, library, ram)));
    match r {
        Ok(Ok(r)) => Synth::Ok(Box::new(r)),
        Ok(Err(e)) => Synth::Rejected(reject_reason(&e)),
        Err(e) => {
            let msg = if let Some(s) = e.downcast_ref::<&str>() {
                s.to_string()
            } else if let Some(s) = e.downcast_ref::<String>() {
                s.clone()
            } else {
                "panic".into()
            };
            Synth::Panic(msg.chars().filter(|c| !c.is_ascii_digit()).take(80).collect())
        }
    }
}

/// Classes describing a netlist.
pub fn netlist_classes(m: &veryl_synthesizer::ir::GateModule, out: &mut Vec<String>) {
    let n = m.cells.len();
    out.push(format!(
        "netlist:cells:{}",
        match n {
            0..=20 => "0_20",
            21..=200 => "21_200",
            201..=2000 => "201_2000",
            2001..=20000 => "2001_20000",
            _ => "gt20000",
        }
    ));
    if !m.ffs.is_empty() {
        out.push("netlist:ffs".into());
    }
    if !m.ram_blocks.is_empty() {
        out.push("netlist:ram_block".into());
        if m.ram_blocks.len() > 1 {
            out.push("netlist:ram_blocks_many".into());
        }
        for r in &m.ram_blocks {
            if r.write_ports.iter().any(|w| w.mask.is_some()) {
                out.push("netlist:ram_masked_port".into());
            }
            if r.write_ports.len() > 1 {
                out.push("netlist:ram_multi_write".into());
            }
            if r.read_ports.len() > 1 {
                out.push("netlist:ram_multi_read".into());
            }
        }
    }
    let mut kinds: std::collections::BTreeSet<&'static str> = Default::default();
    for c in &m.cells {
        kinds.insert(c.kind.symbol());
    }
    for k in kinds {
        out.push(format!("cell:{k}"));
    }
}

/// NT rule of C19 / C20: the netlist has flip-flops and more than 20 cells, or a RAM block.
pub fn nontrivial(m: &veryl_synthesizer::ir::GateModule) -> bool {
    (!m.ffs.is_empty() && m.cells.len() > 20) || !m.ram_blocks.is_empty()
}
