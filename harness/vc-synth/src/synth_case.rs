//! Shared by C19, C20 (vc-synth) and C21 (vc-aig, via `#[path]`): generation
//! of a synthesis case and the run through `veryl_synthesizer::synthesize_with`
//! (the call `veryl synth` makes, crates/veryl/src/cmd_synth.rs).
//!
//! A case = Veryl text + stimulus + declared clock / reset types + cell
//! library + `RamConfig`.  Two families:
//!
//! * `design`: `vdesign::gen_design` restricted to what the synthesizer is
//!   meant to take (no `**`, no `$display`, widths ≤ 64, mul/div operands
//!   small enough to keep netlists in the 10^4-cell range), hierarchy,
//!   counters, case decoding, small arrays;
//! * `ram`: memory-shaped modules written here as text (vdesign's IR has no
//!   reset-less `always_ff`): an array of `depth × width` bits with 1–3 write
//!   sites (plain, unconditional, read-modify-write with mask, constant
//!   sub-word lanes, if/else, case arm) and 1–3 reads (assign, registered,
//!   re-assigned index variable, sub-word, computed address), optionally
//!   inside a child module instantiated once or twice.  `RamConfig` is drawn
//!   *around* the array (min_bits = bits-1 / bits / bits+1, port limits =
//!   ports-1 / ports, max_ff_bits below / above), so the same text is
//!   synthesized with and without inference.

#![allow(dead_code)]

use num_bigint::BigUint;
use std::fmt::Write as _;
use vcore::{Draw, json};
use vdesign::*;
use veryl_synthesizer::{Library, RamConfig, SynthResult, SynthesizerError};

#[derive(Clone, Copy, Debug, PartialEq, Eq)]
pub enum ResetKind {
    /// `reset`: the project default, `[build] reset_type = async_low`
    Plain,
    AsyncHigh,
    AsyncLow,
    SyncHigh,
    SyncLow,
}

impl ResetKind {
    pub fn type_name(self) -> &'static str {
        match self {
            ResetKind::Plain => "reset",
            ResetKind::AsyncHigh => "reset_async_high",
            ResetKind::AsyncLow => "reset_async_low",
            ResetKind::SyncHigh => "reset_sync_high",
            ResetKind::SyncLow => "reset_sync_low",
        }
    }
    pub fn active_high(self) -> bool {
        matches!(self, ResetKind::AsyncHigh | ResetKind::SyncHigh)
    }
    pub fn sync(self) -> bool {
        matches!(self, ResetKind::SyncHigh | ResetKind::SyncLow)
    }
}

#[derive(Clone, Copy, Debug, PartialEq, Eq)]
pub enum ClockKind {
    Plain,
    Posedge,
    Negedge,
}

impl ClockKind {
    pub fn type_name(self) -> &'static str {
        match self {
            ClockKind::Plain => "clock",
            ClockKind::Posedge => "clock_posedge",
            ClockKind::Negedge => "clock_negedge",
        }
    }
}

pub const LIBRARIES: [Library; 4] = [Library::Sky130, Library::Asap7, Library::Gf180mcu, Library::IhpSg13g2];

pub fn library_name(l: Library) -> &'static str {
    match l {
        Library::Sky130 => "sky130",
        Library::Asap7 => "asap7",
        Library::Gf180mcu => "gf180mcu",
        Library::IhpSg13g2 => "ihp-sg13g2",
    }
}

pub struct SynthCase {
    pub family: &'static str,
    pub text: String,
    /// vdesign IR (family `design`): lets the reference evaluator give a third opinion
    pub design: Option<Design>,
    pub stim: Stimulus,
    pub clock: ClockKind,
    pub reset: ResetKind,
    pub library: Library,
    pub ram: RamConfig,
    pub classes: Vec<String>,
    /// (depth, width, reads, writes) of the memory arrays of a `ram` case
    pub arrays: Vec<(usize, usize, usize, usize)>,
}

impl SynthCase {
    pub fn options_json(&self) -> vcore::Value {
        json!({
            "top": "Top",
            "library": library_name(self.library),
            "clock_type": self.clock.type_name(),
            "reset_type": self.reset.type_name(),
            "ram_min_bits": self.ram.min_bits,
            "ram_max_read_ports": self.ram.max_read_ports,
            "ram_max_write_ports": self.ram.max_write_ports,
            "ram_max_ff_bits": self.ram.max_ff_bits,
        })
    }
}

pub fn stim_json(stim: &Stimulus) -> serde_json::Value {
    json!({
        "clock": stim.clock, "reset": stim.reset,
        "inputs": stim.inputs.iter().map(|p| json!({"name": p.name, "width": p.width})).collect::<Vec<_>>(),
        "outputs": stim.outputs.iter().map(|p| json!({"name": p.name, "width": p.width})).collect::<Vec<_>>(),
        "steps": stim.steps.iter().map(|s| json!({
            "reset": s.reset,
            "values": s.values.iter().map(|v| format!("{v:x}")).collect::<Vec<_>>()
        })).collect::<Vec<_>>()
    })
}

/// Rewrite the declared clock / reset types of every module of `text`
/// (vdesign prints `clk: input clock,` / `rst: input reset,`).
pub fn retype(text: &str, clock: ClockKind, reset: ResetKind) -> String {
    text.replace(": input clock,", &format!(": input {},", clock.type_name())).replace(": input reset,", &format!(": input {},", reset.type_name()))
}

fn gen_types(d: &mut Draw) -> (ClockKind, ResetKind) {
    let clock = match d.weighted(&[4, 1, 2]) {
        0 => ClockKind::Plain,
        1 => ClockKind::Posedge,
        _ => ClockKind::Negedge,
    };
    let reset = match d.weighted(&[4, 2, 1, 2, 2]) {
        0 => ResetKind::Plain,
        1 => ResetKind::AsyncHigh,
        2 => ResetKind::AsyncLow,
        3 => ResetKind::SyncHigh,
        _ => ResetKind::SyncLow,
    };
    (clock, reset)
}

fn gen_ram_config(d: &mut Draw, arrays: &[(usize, usize, usize, usize)]) -> RamConfig {
    let mut rc = RamConfig::default();
    if arrays.is_empty() {
        // designs of the `design` family have only tiny reset arrays: make
        // sure a low threshold does not infer them wrongly
        if d.chance(1, 2) {
            rc.min_bits = *d.pick(&[1usize, 2, 8, 64]);
        }
        return rc;
    }
    let &(depth, width, reads, writes) = d.pick(arrays);
    let bits = depth * width;
    rc.min_bits = match d.weighted(&[3, 2, 2, 2, 1, 1]) {
        0 => 1,
        1 => bits,
        2 => bits + 1,
        3 => bits.saturating_sub(1).max(1),
        4 => 1024,
        _ => bits * 2,
    };
    rc.max_read_ports = match d.weighted(&[4, 2, 2]) {
        0 => 16,
        1 => reads,
        _ => reads.saturating_sub(1),
    };
    rc.max_write_ports = match d.weighted(&[4, 2, 2]) {
        0 => 8,
        1 => writes,
        _ => writes.saturating_sub(1),
    };
    rc.max_ff_bits = match d.weighted(&[5, 1, 1]) {
        0 => 1 << 16,
        1 => bits,
        _ => bits.saturating_sub(1),
    };
    rc
}

/// The synthesizable dialect of `vdesign::gen_design`.
pub fn synth_gen_cfg(d: &mut Draw) -> (GenCfg, Vec<String>) {
    let mut cfg = GenCfg::default();
    let mut cls = vec![];
    cfg.pow = false; // UnsupportedKind::PowOperator
    cfg.display = false;
    cfg.unguarded_per_mille = 0; // division by zero / out-of-range index: X in SystemVerilog, nothing to compare
    let w = *d.pick(&[8u32, 4, 16, 12, 24, 32, 64]);
    cfg.max_width = w;
    cls.push(format!("cfg:max_width:{w}"));
    // array multipliers / dividers grow with the square of the width
    cfg.mul = w <= 32 || d.chance(1, 3);
    cfg.div = w <= 16 || (w <= 32 && d.chance(1, 3));
    cfg.max_items = 6;
    cfg.expr_depth = 3;
    (cfg, cls)
}

pub fn gen_design_case(d: &mut Draw) -> SynthCase {
    let (cfg, mut classes) = synth_gen_cfg(d);
    let g = gen_design(d, &cfg);
    let cycles = 6 + d.below(10) as usize;
    let stim = gen_stimulus(d, &g.design, cycles);
    let (clock, reset) = gen_types(d);
    let library = *d.pick(&LIBRARIES);
    let ram = gen_ram_config(d, &[]);
    let text = retype(&print_design(&g.design), clock, reset);
    classes.extend(g.classes.iter().cloned());
    for (k, n) in &g.excluded {
        if *n > 0 {
            classes.push(format!("excluded:{k}"));
        }
    }
    if g.design.modules.len() > 1 && g.design.top().items.iter().any(|i| matches!(i, Item::Inst { .. })) {
        classes.push("design:hierarchy".into());
    }
    if g.design.top().has_ff() {
        classes.push("design:sequential".into());
    }
    SynthCase {
        family: "design",
        text,
        design: Some(g.design),
        stim,
        clock,
        reset,
        library,
        ram,
        classes,
        arrays: vec![],
    }
}

// ---------------------------------------------------------------------------
// memory-shaped modules
// ---------------------------------------------------------------------------

#[derive(Clone, Debug)]
struct PortGen {
    name: String,
    width: usize,
    /// values are drawn below this bound (addresses, enables) instead of corner-biased
    small: Option<u64>,
    /// probability (percent) of an all-ones draw (write enables)
    ones_pct: u32,
}

struct RamCore {
    body: String,
    inputs: Vec<PortGen>,
    outputs: Vec<(String, usize)>,
    depth: usize,
    width: usize,
    reads: usize,
    writes: usize,
    classes: Vec<String>,
}

fn clog2(n: usize) -> usize {
    if n <= 1 { 1 } else { (usize::BITS - (n - 1).leading_zeros()) as usize }
}

/// Body (declarations + items, no header) of a module holding one memory
/// array `mem` plus the ports it needs.
fn gen_ram_core(d: &mut Draw) -> RamCore {
    let depth = *d.pick(&[4usize, 8, 2, 16, 3, 5, 32, 6]);
    let width = match d.weighted(&[5, 3, 1, 1]) {
        0 => 1 + d.below(8) as usize,
        1 => 9 + d.below(16) as usize,
        2 => 33 + d.below(8) as usize,
        _ => 64 + d.below(6) as usize,
    };
    let aw = clog2(depth);
    let pow2 = depth.is_power_of_two();
    let mut c = RamCore {
        body: String::new(),
        inputs: vec![],
        outputs: vec![],
        depth,
        width,
        reads: 0,
        writes: 0,
        classes: vec![],
    };
    c.classes.push(format!("ram:depth:{}", if pow2 { "pow2" } else { "non_pow2" }));
    c.classes.push(format!("ram:width:{}", if width <= 8 { "1_8" } else if width <= 32 { "9_32" } else if width <= 64 { "33_64" } else { "gt64" }));
    let mut decls = String::new();
    let mut ff = String::new(); // statements of the reset-less always_ff
    let mut items = String::new();
    writeln!(decls, "    var mem: logic<{width}> [{depth}];").unwrap();

    // a free-running counter (with reset): an address source, and flip-flops next to the RAM
    let use_cnt = d.chance(1, 3);
    if use_cnt {
        writeln!(decls, "    var cnt: logic<{aw}>;").unwrap();
        if pow2 {
            writeln!(items, "    always_ff {{\n        if_reset {{\n            cnt = 0;\n        }} else {{\n            cnt = cnt + 1;\n        }}\n    }}").unwrap();
        } else {
            writeln!(
                items,
                "    always_ff {{\n        if_reset {{\n            cnt = 0;\n        }} else if cnt == {} {{\n            cnt = 0;\n        }} else {{\n            cnt = cnt + 1;\n        }}\n    }}",
                depth - 1
            )
            .unwrap();
        }
        c.classes.push("ram:counter_address".into());
    }

    // ---- reads first (a write may use a read)
    let n_reads = 1 + d.weighted(&[4, 3, 1]);
    let mut read_addr_exprs: Vec<String> = vec![];
    let mut k = 0;
    while k < n_reads {
        let ra = format!("ra{k}");
        c.inputs.push(PortGen {
            name: ra.clone(),
            width: aw,
            small: Some(depth as u64),
            ones_pct: 0,
        });
        let addr = match d.weighted(&[6, 1, 1, 1]) {
            0 => ra.clone(),
            1 if pow2 => {
                c.classes.push("ram:read_addr_plus1".into());
                format!("{ra} + {aw}'d1")
            }
            2 if pow2 && k > 0 => {
                c.classes.push("ram:read_addr_xor".into());
                format!("{ra} ^ ra{}", k - 1)
            }
            3 if use_cnt => {
                c.classes.push("ram:read_addr_counter".into());
                "cnt".to_string()
            }
            _ => ra.clone(),
        };
        let q = format!("q{k}");
        let style = d.weighted(&[6, 3, 2, 2, 2]);
        match style {
            1 => {
                // registered read
                c.outputs.push((q.clone(), width));
                writeln!(items, "    always_ff {{\n        if_reset {{\n            {q} = 0;\n        }} else {{\n            {q} = mem[{addr}];\n        }}\n    }}").unwrap();
                c.classes.push("ram:read_registered".into());
            }
            2 if width >= 2 => {
                let lo = d.below(width as u32 - 1) as usize;
                let hi = lo + d.below((width - lo) as u32) as usize;
                c.outputs.push((q.clone(), hi - lo + 1));
                writeln!(items, "    assign {q} = mem[{addr}][{hi}:{lo}];").unwrap();
                c.classes.push("ram:read_subword".into());
            }
            3 if k + 1 < n_reads => {
                // two reads through one index variable that is re-assigned in between
                k += 1;
                let ra2 = format!("ra{k}");
                c.inputs.push(PortGen {
                    name: ra2.clone(),
                    width: aw,
                    small: Some(depth as u64),
                    ones_pct: 0,
                });
                let q2 = format!("q{k}");
                c.outputs.push((q.clone(), width));
                c.outputs.push((q2.clone(), width));
                writeln!(decls, "    var t{k}: logic<{aw}>;").unwrap();
                writeln!(items, "    always_comb {{\n        t{k} = {addr};\n        {q} = mem[t{k}];\n        t{k} = {ra2};\n        {q2} = mem[t{k}];\n    }}").unwrap();
                c.classes.push("ram:read_reassigned_index".into());
                read_addr_exprs.push(format!("t{k}"));
            }
            4 => {
                // the same address read twice (one port) and combined
                c.outputs.push((q.clone(), width));
                writeln!(items, "    assign {q} = mem[{addr}] ^ {{mem[{addr}][0] repeat {width}}};").unwrap();
                c.classes.push("ram:read_same_address_twice".into());
            }
            _ => {
                c.outputs.push((q.clone(), width));
                writeln!(items, "    assign {q} = mem[{addr}];").unwrap();
                c.classes.push("ram:read_assign".into());
            }
        }
        read_addr_exprs.push(addr);
        k += 1;
    }
    // distinct read addresses by text (what the port limit counts)
    read_addr_exprs.sort();
    read_addr_exprs.dedup();
    c.reads = read_addr_exprs.len();

    // ---- writes
    let n_groups = 1 + d.weighted(&[5, 2, 1]);
    let mut we_bits = 0usize;
    let mut new_we = |we_bits: &mut usize| -> String {
        let s = format!("we[{}]", *we_bits);
        *we_bits += 1;
        s
    };
    for gi in 0..n_groups {
        let wa = format!("wa{gi}");
        let wd = format!("wd{gi}");
        c.inputs.push(PortGen {
            name: wa.clone(),
            width: aw,
            small: Some(depth as u64),
            ones_pct: 0,
        });
        c.inputs.push(PortGen {
            name: wd.clone(),
            width,
            small: None,
            ones_pct: 0,
        });
        let addr = match d.weighted(&[6, 1, 1]) {
            1 if pow2 => {
                c.classes.push("ram:write_addr_plus1".into());
                format!("{wa} + {aw}'d1")
            }
            2 if use_cnt => {
                c.classes.push("ram:write_addr_counter".into());
                "cnt".to_string()
            }
            _ => wa.clone(),
        };
        let data = match d.weighted(&[5, 1, 1]) {
            1 => format!("~{wd}"),
            2 => {
                // a genuine read feeding the write (not the retention read of a masked write)
                c.classes.push("ram:write_data_from_read".into());
                if !read_addr_exprs.contains(&"ra0".to_string()) {
                    read_addr_exprs.push("ra0".into());
                    c.reads = read_addr_exprs.len();
                }
                format!("mem[ra0] + {wd}")
            }
            _ => wd.clone(),
        };
        // a non-power-of-two array: keep the write in range half of the time
        let guard = !pow2 && addr == wa && d.bool();
        let (g0, g1) = if guard { (format!("        if {wa} <: {aw}'d{depth} {{\n"), "        }\n".to_string()) } else { (String::new(), String::new()) };
        if guard {
            c.classes.push("ram:write_guarded".into());
        }
        let mut s = String::new();
        match d.weighted(&[5, 1, 3, 3, 2, 2]) {
            1 => {
                writeln!(s, "        mem[{addr}] = {data};").unwrap();
                c.writes += 1;
                c.classes.push("ram:write_unconditional".into());
            }
            2 => {
                let we = new_we(&mut we_bits);
                let wm = format!("wm{gi}");
                c.inputs.push(PortGen {
                    name: wm.clone(),
                    width,
                    small: None,
                    ones_pct: 0,
                });
                let keep = if d.bool() { format!("mem[{addr}] & ~{wm}") } else { format!("~{wm} & mem[{addr}]") };
                let put = if d.bool() { format!("{data} & {wm}") } else { format!("{wm} & {data}") };
                let data_p = if data.contains('+') { format!("({data})") } else { data.clone() };
                let put = put.replace(&data, &data_p);
                let rhs = if d.bool() { format!("({keep}) | ({put})") } else { format!("({put}) | ({keep})") };
                writeln!(s, "        if {we} {{\n            mem[{addr}] = {rhs};\n        }}").unwrap();
                c.writes += 1;
                c.classes.push("ram:write_masked_rmw".into());
            }
            3 if width >= 2 => {
                // constant sub-word lanes, each with its own enable
                let cut = 1 + d.below(width as u32 - 1) as usize;
                let overlap = d.chance(1, 4) && cut + 1 < width;
                let hi0 = if overlap { cut } else { cut - 1 };
                let we0 = new_we(&mut we_bits);
                let we1 = new_we(&mut we_bits);
                writeln!(s, "        if {we0} {{\n            mem[{addr}][{hi0}:0] = {wd}[{hi0}:0];\n        }}").unwrap();
                writeln!(s, "        if {we1} {{\n            mem[{addr}][{}:{cut}] = ~{wd}[{}:{cut}];\n        }}", width - 1, width - 1).unwrap();
                c.writes += 1;
                c.classes.push(if overlap { "ram:write_lanes_overlapping".into() } else { "ram:write_lanes".to_string() });
            }
            4 => {
                let we = new_we(&mut we_bits);
                let wb = format!("wb{gi}");
                c.inputs.push(PortGen {
                    name: wb.clone(),
                    width: aw,
                    small: Some(depth as u64),
                    ones_pct: 0,
                });
                let g = if pow2 { String::new() } else { format!(" && {wb} <: {aw}'d{depth}") };
                writeln!(s, "        if {we} {{\n            mem[{addr}] = {data};\n        }} else if {wd}[0]{g} {{\n            mem[{wb}] = ~{wd};\n        }}").unwrap();
                c.writes += 2;
                c.classes.push("ram:write_if_else".into());
            }
            5 => {
                let op = format!("op{gi}");
                c.inputs.push(PortGen {
                    name: op.clone(),
                    width: 2,
                    small: Some(4),
                    ones_pct: 0,
                });
                writeln!(s, "        case {op} {{\n            2'd0: {{\n                mem[{addr}] = {data};\n            }}\n            2'd2: {{\n                mem[{addr}] = ~{wd};\n            }}\n            default: {{\n            }}\n        }}").unwrap();
                c.writes += 2;
                c.classes.push("ram:write_case_arm".into());
            }
            _ => {
                let we = new_we(&mut we_bits);
                writeln!(s, "        if {we} {{\n            mem[{addr}] = {data};\n        }}").unwrap();
                c.writes += 1;
                c.classes.push("ram:write_plain".into());
            }
        }
        ff.push_str(&g0);
        ff.push_str(&s);
        ff.push_str(&g1);
    }
    if we_bits > 0 {
        c.inputs.push(PortGen {
            name: "we".into(),
            width: we_bits,
            small: None,
            ones_pct: 60,
        });
    }
    if c.writes > 1 {
        c.classes.push("ram:multi_write".into());
    }
    if c.reads > 1 {
        c.classes.push("ram:multi_read".into());
    }
    c.body.push_str(&decls);
    writeln!(c.body, "    always_ff (clk) {{\n{ff}    }}").unwrap();
    c.body.push_str(&items);
    c
}

fn module_text(name: &str, clock: ClockKind, reset: ResetKind, ins: &[(String, usize)], outs: &[(String, usize)], body: &str) -> String {
    let mut s = String::new();
    writeln!(s, "module {name} (").unwrap();
    writeln!(s, "    clk: input {},", clock.type_name()).unwrap();
    writeln!(s, "    rst: input {},", reset.type_name()).unwrap();
    let ty = |w: usize| if w == 1 { "logic".to_string() } else { format!("logic<{w}>") };
    for (n, w) in ins {
        // `we[0]` needs a vector even when one bit wide
        let t = if n == "we" { format!("logic<{w}>") } else { ty(*w) };
        writeln!(s, "    {n}: input {t},").unwrap();
    }
    for (n, w) in outs {
        writeln!(s, "    {n}: output {},", ty(*w)).unwrap();
    }
    s.push_str(") {\n");
    s.push_str(body);
    s.push_str("}\n");
    s
}

pub fn gen_ram_case(d: &mut Draw) -> SynthCase {
    let (clock, reset) = gen_types(d);
    let core = gen_ram_core(d);
    let mut classes = core.classes.clone();
    let ins: Vec<(String, usize)> = core.inputs.iter().map(|p| (p.name.clone(), p.width)).collect();
    let mut arrays = vec![(core.depth, core.width, core.reads, core.writes)];
    let hier = d.weighted(&[3, 2, 2]);
    let mut text = String::new();
    let mut top_inputs: Vec<PortGen> = core.inputs.clone();
    let mut top_outputs: Vec<(String, usize)> = vec![];
    match hier {
        0 => {
            // flat: some logic after the read data so that cells sit behind the RAM
            let mut body = core.body.clone();
            top_outputs = core.outputs.clone();
            if d.bool() {
                let (q, w) = core.outputs[0].clone();
                writeln!(body, "    assign s0 = {q} + {w}'d1;").unwrap();
                top_outputs.push(("s0".into(), w));
                classes.push("ram:logic_after_read".into());
            }
            text.push_str(&module_text("Top", clock, reset, &ins, &top_outputs, &body));
            classes.push("ram:flat".into());
        }
        _ => {
            text.push_str(&module_text("RamCore", clock, reset, &ins, &core.outputs, &core.body));
            let n_inst = if hier == 1 { 1 } else { 2 };
            let mut body = String::new();
            // optionally an array of the top module's own next to the children's
            let own = d.chance(1, 3);
            if own {
                let ow = 1 + d.below(6) as usize;
                let od = *d.pick(&[4usize, 8]);
                let oa = clog2(od);
                writeln!(body, "    var own: logic<{ow}> [{od}];").unwrap();
                writeln!(body, "    always_ff (clk) {{\n        if owe {{\n            own[owa] = owd;\n        }}\n    }}").unwrap();
                writeln!(body, "    assign oq = own[ora];").unwrap();
                for (n, w, small) in [("owe", 1, Some(2u64)), ("owa", oa, Some(od as u64)), ("owd", ow, None), ("ora", oa, Some(od as u64))] {
                    top_inputs.push(PortGen {
                        name: n.into(),
                        width: w,
                        small,
                        ones_pct: if n == "owe" { 60 } else { 0 },
                    });
                }
                top_outputs.push(("oq".into(), ow));
                arrays.push((od, ow, 1, 1));
                classes.push("ram:own_and_child".into());
            }
            for i in 0..n_inst {
                writeln!(body, "    inst u{i}: RamCore (").unwrap();
                writeln!(body, "        clk: clk,\n        rst: rst,").unwrap();
                for p in &core.inputs {
                    // the second instance sees complemented data / shifted enables so that the two memories differ
                    let e = if i == 0 {
                        p.name.clone()
                    } else if p.name.starts_with("wd") {
                        format!("~{}", p.name)
                    } else {
                        p.name.clone()
                    };
                    writeln!(body, "        {}: {e},", p.name).unwrap();
                }
                for (q, w) in &core.outputs {
                    writeln!(body, "        {q}: u{i}_{q},").unwrap();
                    top_outputs.push((format!("u{i}_{q}"), *w));
                }
                body.push_str("    );\n");
            }
            if n_inst == 2 {
                arrays.push(arrays[0]);
            }
            text.push_str(&module_text("Top", clock, reset, &top_inputs.iter().map(|p| (p.name.clone(), p.width)).collect::<Vec<_>>(), &top_outputs, &body));
            classes.push(format!("ram:child_x{n_inst}"));
        }
    }
    // ---- stimulus
    let cycles = 16 + d.below(24) as usize;
    let mut stim = Stimulus {
        clock: Some("clk".into()),
        reset: Some("rst".into()),
        inputs: top_inputs
            .iter()
            .map(|p| PortSpec {
                name: p.name.clone(),
                width: p.width,
            })
            .collect(),
        outputs: top_outputs
            .iter()
            .map(|(n, w)| PortSpec {
                name: n.clone(),
                width: *w,
            })
            .collect(),
        steps: vec![],
    };
    // few distinct addresses, so that reads hit what was written
    let hot: u64 = 1 + d.below(4) as u64;
    let draw_val = |d: &mut Draw, p: &PortGen| -> BigUint {
        if p.ones_pct > 0 && d.below(100) < p.ones_pct {
            return (BigUint::from(1u32) << p.width) - 1u32;
        }
        match p.small {
            Some(n) => {
                let lim = if p.width > 2 && d.chance(3, 4) { n.min(hot + 1) } else { n };
                BigUint::from(d.below(lim.max(1) as u32))
            }
            None => gen_value(d, p.width as u32),
        }
    };
    let n_reset = 1 + d.below(2) as usize;
    for i in 0..n_reset + cycles {
        let values = top_inputs.iter().map(|p| draw_val(d, p)).collect();
        stim.steps.push(StimStep {
            reset: i < n_reset || d.chance(1, 40),
            values,
        });
    }
    let library = *d.pick(&LIBRARIES);
    let ram = gen_ram_config(d, &arrays);
    SynthCase {
        family: "ram",
        text,
        design: None,
        stim,
        clock,
        reset,
        library,
        ram,
        classes,
        arrays,
    }
}

pub fn gen_case(d: &mut Draw) -> SynthCase {
    if d.chance(2, 5) { gen_ram_case(d) } else { gen_design_case(d) }
}

// ---------------------------------------------------------------------------
// running the synthesizer
// ---------------------------------------------------------------------------

pub enum Synth {
    Ok(Box<SynthResult>),
    /// `SynthesizerError`: outside the accepted subset
    Rejected(String),
    Panic(String),
}

pub fn reject_reason(e: &SynthesizerError) -> String {
    match e {
        SynthesizerError::Unsupported { kind, .. } => {
            let s = format!("{kind:?}");
            format!("unsupported:{}", s.split(|c: char| !c.is_alphanumeric()).next().unwrap_or(""))
        }
        SynthesizerError::UnknownWidth { .. } => "unknown-width".into(),
        SynthesizerError::DynamicSelect { .. } => "dynamic-select".into(),
        SynthesizerError::TopModuleNotFound { .. } => "top-not-found".into(),
        SynthesizerError::Internal { message } => {
            let m: String = message.chars().filter(|c| !c.is_ascii_digit()).take(50).collect();
            format!("internal:{m}")
        }
    }
}

/// `synthesize_with(&ir, top, library, ram)` — the call of `veryl synth`.
pub fn synthesize(a: &Analyzed, library: Library, ram: RamConfig) -> Synth {
    let top = veryl_parser::resource_table::insert_str("Top");
    let r = std::panic::catch_unwind(std::panic::AssertUnwindSafe(|| veryl_synthesizer::synthesize_with(&a.ir, top, library, ram)));
    match r {
        Ok(Ok(r)) => Synth::Ok(Box::new(r)),
        Ok(Err(e)) => Synth::Rejected(reject_reason(&e)),
        Err(e) => {
            let msg = if let Some(s) = e.downcast_ref::<&str>() {
                s.to_string()
            } else if let Some(s) = e.downcast_ref::<String>() {
                s.clone()
            } else {
                "panic".into()
            };
            Synth::Panic(msg.chars().filter(|c| !c.is_ascii_digit()).take(80).collect())
        }
    }
}

/// Classes describing a netlist.
pub fn netlist_classes(m: &veryl_synthesizer::ir::GateModule, out: &mut Vec<String>) {
    let n = m.cells.len();
    out.push(format!(
        "netlist:cells:{}",
        match n {
            0..=20 => "0_20",
            21..=200 => "21_200",
            201..=2000 => "201_2000",
            2001..=20000 => "2001_20000",
            _ => "gt20000",
        }
    ));
    if !m.ffs.is_empty() {
        out.push("netlist:ffs".into());
    }
    if !m.ram_blocks.is_empty() {
        out.push("netlist:ram_block".into());
        if m.ram_blocks.len() > 1 {
            out.push("netlist:ram_blocks_many".into());
        }
        for r in &m.ram_blocks {
            if r.write_ports.iter().any(|w| w.mask.is_some()) {
                out.push("netlist:ram_masked_port".into());
            }
            if r.write_ports.len() > 1 {
                out.push("netlist:ram_multi_write".into());
            }
            if r.read_ports.len() > 1 {
                out.push("netlist:ram_multi_read".into());
            }
        }
    }
    let mut kinds: std::collections::BTreeSet<&'static str> = Default::default();
    for c in &m.cells {
        kinds.insert(c.kind.symbol());
    }
    for k in kinds {
        out.push(format!("cell:{k}"));
    }
}

/// NT rule of C19 / C20: the netlist has flip-flops and more than 20 cells, or a RAM block.
pub fn nontrivial(m: &veryl_synthesizer::ir::GateModule) -> bool {
    (!m.ffs.is_empty() && m.cells.len() > 20) || !m.ram_blocks.is_empty()
}
