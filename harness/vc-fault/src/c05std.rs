//! C05 sub-check `std-expansion`: crash points inside the expansion of the
//! embedded standard library into the user cache (`$XDG_CACHE_HOME/veryl/std/<hash>`).
//!
//! One fixed std-enabled project, cold user cache.  The counting run is the
//! clean build.  Every point up to the end of the expansion is a crash point,
//! except that the ~2 x 50 identical per-file points are capped to the first
//! two files, a middle one and the last one (stated in the evidence).

use crate::common::*;
use serde_json::{Value, json};
use vcore::{Ctx, Outcome, hash_str};
use vproj::cli::Workspace;
use vproj::toml::TomlCfg;

const SRC_A: &str = "package PkgA {\n    const W: u32 = 4;\n}\n";
const SRC_B: &str = "module ModB (\n    i_a: input  logic<PkgA::W>,\n    o_a: output logic<PkgA::W>,\n) {\n    assign o_a = i_a + 1;\n}\n";

struct Env {
    ws: Workspace,
    points: Vec<Point>,
    clean: SeqRes,
    selected: Vec<usize>,
    file_points: usize,
}

fn wipe_xdg(ws: &Workspace) {
    let _ = std::fs::remove_dir_all(&ws.xdg);
    let _ = std::fs::create_dir_all(&ws.xdg);
    ws.log("rm -rf $R/xdg; mkdir -p $R/xdg");
}

fn setup() -> Result<Env, String> {
    let mut cfg = TomlCfg::basic("prj");
    cfg.exclude_std = false;
    let mut ws = Workspace::new("c05s", "prj");
    ws.timeout = crate::c05::CMD_TIMEOUT;
    ws.write("Veryl.toml", &cfg.render());
    ws.write("src/a.veryl", SRC_A);
    ws.write("src/b.veryl", SRC_B);
    ws.save_state("fresh");
    let log_path = ws.scratch.path.join("points.log");
    let log_s = log_path.to_string_lossy().into_owned();
    let r = veryl_env(&ws, &["build"], &[("VERYL_VERIF_LOG", &log_s), COUNTING]);
    if r.timed_out || r.code != Some(0) {
        return Err(format!("std-enabled probe project does not build: exit {:?} timed out {}", r.code, r.timed_out));
    }
    let clean = SeqRes {
        cmds: vec![CmdRes::of("build", &r)],
        outputs: ws.outputs(),
    };
    let points = parse_points(&std::fs::read_to_string(&log_path).unwrap_or_default());
    let Some(last_std) = points.iter().rposition(|q| q.name.starts_with("std:")) else {
        return Err("no std: point was logged (hooks missing?)".into());
    };
    // up to and including the unlock that follows the last file
    let end = (last_std + 1).min(points.len() - 1);
    let file_idx: Vec<usize> = (0..=end)
        .filter(|k| points[*k].name == "std:before-file-write" || points[*k].name == "std:file-half-written")
        .collect();
    let mut files: Vec<&str> = vec![];
    for k in &file_idx {
        if !files.contains(&points[*k].path.as_str()) {
            files.push(points[*k].path.as_str());
        }
    }
    let keep_files: Vec<&str> = if files.len() <= 4 {
        files.clone()
    } else {
        vec![files[0], files[1], files[files.len() / 2], files[files.len() - 1]]
    };
    let selected: Vec<usize> = (0..=end)
        .filter(|k| !file_idx.contains(k) || keep_files.contains(&points[*k].path.as_str()))
        .collect();
    Ok(Env {
        file_points: file_idx.len(),
        ws,
        points,
        clean,
        selected,
    })
}

fn one(env: &Env, k: usize) -> Outcome {
    let ws = &env.ws;
    wipe_xdg(ws);
    ws.restore_state("fresh", false);
    let ks = k.to_string();
    let cr = veryl_env(ws, &["build"], &[("VERYL_VERIF_CRASH_AT", &ks)]);
    if cr.timed_out {
        return Outcome::skip("crash run timed out");
    }
    if cr.code != Some(137) {
        return Outcome::skip("crash point not reached");
    }
    let got = run_seq(ws, &[Cmd::Build]);
    if got.timed_out() {
        return Outcome::skip("recovery timed out");
    }
    let q = &env.points[k];
    let xdg = ws.xdg.to_string_lossy().into_owned();
    let rel = q.path.replace(&xdg, "<XDG>").replace(&ws.root_str(), "<ROOT>");
    let text = format!("cold user cache; veryl build dies at point {k} = {} {rel}; veryl build", q.name);
    // the directory exists from `std:missing` on
    let nt = env.points[..k].iter().any(|x| x.name == "std:missing");
    match compare(&got, &env.clean, None) {
        None => Outcome::pass(hash_str(&text), nt, vec![format!("crash@{}", q.name)], text),
        Some(m) => Outcome::fail(
            "crash/std-expansion-not-atomic",
            format!("{text}: not the clean result ({}):\n{}", m.what, m.detail),
            json!({"k": k, "point": q.name, "path": rel, "what": m.what, "detail": m.detail, "script": ws.script()}),
        ),
    }
}

pub fn run(ctx: &Ctx) {
    let sub = "std-expansion";
    if ctx.replay_mode() {
        ctx.run_payloads(sub, |p: &Value| {
            let env = match setup() {
                Ok(e) => e,
                Err(e) => return Outcome::skip(e),
            };
            one(&env, p.get("k").and_then(|k| k.as_u64()).unwrap_or(0) as usize)
        });
        return;
    }
    let env = match setup() {
        Ok(e) => e,
        Err(e) => {
            ctx.record(sub, Outcome::skip(e), json!(null));
            return;
        }
    };
    let mut ran = 0;
    for &k in &env.selected {
        if ctx.stopped() {
            break;
        }
        ctx.record(sub, one(&env, k), json!({"k": k}));
        ran += 1;
    }
    ctx.note(
        "std_expansion",
        json!({
            "points_of_the_command": env.points.len(),
            "points_up_to_end_of_expansion": env.selected.last().map(|x| x + 1),
            "per_file_points": env.file_points,
            "crash_points_run": ran,
            "capped": "per-file points (std:before-file-write / std:file-half-written) only for the first two, a middle and the last std file; every other point up to the unlock after the expansion",
        }),
    );
}
