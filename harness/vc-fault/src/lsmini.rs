//! Minimal non-blocking LSP client for `veryl-ls` (C30's build ‖ language
//! server cases).  Derived from vc-ls/src/lsp.rs (the C07 client); this one
//! never waits by itself: the caller polls `try_recv` so that it can serve the
//! verification socket and watch /proc/locks in the same loop.

use serde_json::{Value, json};
use std::io::{BufRead, BufReader, Read, Write};
use std::path::Path;
use std::process::{Child, ChildStdin, Command, Stdio};
use std::sync::mpsc::{Receiver, RecvTimeoutError, channel};
use std::sync::{Arc, Mutex};
use std::time::Duration;

pub enum Recv {
    Msg(Value),
    Timeout,
    Closed,
}

pub struct Ls {
    child: Child,
    pub pid: u32,
    stdin: Option<ChildStdin>,
    rx: Receiver<Option<Value>>,
    stderr: Arc<Mutex<String>>,
    next_id: i64,
}

impl Ls {
    pub fn spawn(bin: &Path, root: &Path, xdg: &Path, extra: &[(&str, &str)]) -> std::io::Result<Ls> {
        let mut c = Command::new(bin);
        c.current_dir(root)
            .env("XDG_CACHE_HOME", xdg)
            .env("HOME", xdg)
            .env("TOKIO_WORKER_THREADS", "2")
            .env("NO_COLOR", "1")
            .env_remove("RUST_LOG")
            .stdin(Stdio::piped())
            .stdout(Stdio::piped())
            .stderr(Stdio::piped());
        for (k, v) in extra {
            c.env(k, v);
        }
        let mut child = c.spawn()?;
        let stdin = child.stdin.take();
        let stdout = child.stdout.take().unwrap();
        let mut se = child.stderr.take().unwrap();
        let stderr = Arc::new(Mutex::new(String::new()));
        let se2 = stderr.clone();
        std::thread::spawn(move || {
            let mut buf = [0u8; 4096];
            while let Ok(n) = se.read(&mut buf) {
                if n == 0 {
                    break;
                }
                let mut g = se2.lock().unwrap();
                if g.len() < 16384 {
                    g.push_str(&String::from_utf8_lossy(&buf[..n]));
                }
            }
        });
        let (tx, rx) = channel();
        std::thread::spawn(move || {
            let mut r = BufReader::new(stdout);
            loop {
                let mut len: Option<usize> = None;
                loop {
                    let mut line = String::new();
                    match r.read_line(&mut line) {
                        Ok(0) | Err(_) => {
                            let _ = tx.send(None);
                            return;
                        }
                        Ok(_) => {}
                    }
                    let l = line.trim();
                    if l.is_empty() {
                        break;
                    }
                    if let Some(v) = l.to_ascii_lowercase().strip_prefix("content-length:") {
                        len = v.trim().parse().ok();
                    }
                }
                let Some(n) = len else {
                    let _ = tx.send(None);
                    return;
                };
                let mut body = vec![0u8; n];
                if r.read_exact(&mut body).is_err() {
                    let _ = tx.send(None);
                    return;
                }
                match serde_json::from_slice::<Value>(&body) {
                    Ok(v) => {
                        if tx.send(Some(v)).is_err() {
                            return;
                        }
                    }
                    Err(_) => {
                        let _ = tx.send(None);
                        return;
                    }
                }
            }
        });
        Ok(Ls {
            pid: child.id(),
            child,
            stdin,
            rx,
            stderr,
            next_id: 0,
        })
    }

    pub fn stderr_text(&self) -> String {
        self.stderr.lock().unwrap().clone()
    }

    fn send(&mut self, v: &Value) -> bool {
        let body = serde_json::to_vec(v).unwrap();
        let mut msg = format!("Content-Length: {}\r\n\r\n", body.len()).into_bytes();
        msg.extend_from_slice(&body);
        match self.stdin.as_mut() {
            Some(si) => si.write_all(&msg).and_then(|_| si.flush()).is_ok(),
            None => false,
        }
    }

    pub fn notify(&mut self, method: &str, params: Value) -> bool {
        self.send(&json!({"jsonrpc": "2.0", "method": method, "params": params}))
    }

    pub fn request(&mut self, method: &str, params: Value) -> i64 {
        self.next_id += 1;
        let id = self.next_id;
        self.send(&json!({"jsonrpc": "2.0", "id": id, "method": method, "params": params}));
        id
    }

    /// One message if there is one within `t`; server->client requests are
    /// answered with `null` right here.
    pub fn try_recv(&mut self, t: Duration) -> Recv {
        match self.rx.recv_timeout(t) {
            Ok(Some(m)) => {
                if m.get("method").is_some()
                    && let Some(id) = m.get("id").cloned()
                {
                    self.send(&json!({"jsonrpc": "2.0", "id": id, "result": null}));
                }
                Recv::Msg(m)
            }
            Ok(None) | Err(RecvTimeoutError::Disconnected) => Recv::Closed,
            Err(RecvTimeoutError::Timeout) => Recv::Timeout,
        }
    }
}

impl Drop for Ls {
    fn drop(&mut self) {
        self.stdin.take();
        let _ = self.child.kill();
        let _ = self.child.wait();
    }
}

/// The conversation "initialize, open one document, wait for its final
/// diagnostics" as a state machine fed with the received messages.
pub struct OpenDoc {
    pub uri: String,
    text: String,
    root_uri: String,
    init_id: Option<i64>,
    opened: bool,
    ends: u64,
    /// diagnostics of the last publish for `uri`, and whether it came after a progress end
    pub last_publish: Option<Vec<Value>>,
    pub publishes: u64,
    publish_after_end: bool,
    pub trace: Vec<String>,
    pub internal_error: Option<String>,
}

impl OpenDoc {
    pub fn new(root: &Path, file_rel: &str, text: &str) -> OpenDoc {
        OpenDoc {
            uri: format!("file://{}/{}", root.display(), file_rel),
            text: text.to_string(),
            root_uri: format!("file://{}", root.display()),
            init_id: None,
            opened: false,
            ends: 0,
            last_publish: None,
            publishes: 0,
            publish_after_end: false,
            trace: vec![],
            internal_error: None,
        }
    }

    pub fn start(&mut self, ls: &mut Ls) {
        self.init_id = Some(ls.request(
            "initialize",
            json!({
                "processId": null,
                "rootUri": self.root_uri,
                "capabilities": {
                    "window": {"workDoneProgress": true},
                    "textDocument": {"publishDiagnostics": {"relatedInformation": true, "versionSupport": true}}
                }
            }),
        ));
        self.trace.push("-> initialize".into());
    }

    pub fn feed(&mut self, ls: &mut Ls, m: &Value) {
        let method = m.get("method").and_then(|x| x.as_str()).unwrap_or("");
        if method.is_empty() {
            if m.get("id").and_then(|x| x.as_i64()) == self.init_id && !self.opened {
                self.trace.push("<- initialize response".into());
                ls.notify("initialized", json!({}));
                ls.notify(
                    "textDocument/didOpen",
                    json!({"textDocument": {"uri": self.uri, "languageId": "veryl", "version": 1, "text": self.text}}),
                );
                self.trace.push("-> initialized, didOpen".into());
                self.opened = true;
            }
            return;
        }
        match method {
            "textDocument/publishDiagnostics" => {
                let p = &m["params"];
                if p["uri"].as_str() == Some(self.uri.as_str()) {
                    let d = p["diagnostics"].as_array().cloned().unwrap_or_default();
                    self.trace.push(format!("<- publish n={}{}", d.len(), if self.ends > 0 { " (after progress end)" } else { "" }));
                    self.last_publish = Some(d);
                    self.publishes += 1;
                    if self.ends > 0 {
                        self.publish_after_end = true;
                    }
                }
            }
            "$/progress" => {
                if m["params"]["value"]["kind"] == "end" {
                    self.ends += 1;
                    self.trace.push("<- progress end".into());
                }
            }
            "window/logMessage" => {
                if m["params"]["type"] == 1 {
                    self.internal_error = Some(m["params"]["message"].to_string());
                }
            }
            _ => {}
        }
    }

    /// the background analysis ended and the document was published after it
    pub fn done(&self) -> bool {
        self.publish_after_end
    }

    /// the diagnostics as comparable lines
    pub fn diag_lines(&self) -> Vec<String> {
        let mut v: Vec<String> = self
            .last_publish
            .clone()
            .unwrap_or_default()
            .iter()
            .map(|d| format!("{} sev={} code={} {}", d["range"], d["severity"], d["code"], d["message"]))
            .collect();
        v.sort();
        v
    }
}
