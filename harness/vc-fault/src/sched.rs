//! The harness side of `VERYL_VERIF_SOCK`: a Unix socket on which every
//! instrumented point of every steered process is announced and on which the
//! process blocks until it is answered (`g` go on, `k` die).
//!
//! The scheduler never guesses from elapsed time.  A steered process is in
//! exactly one observable state:
//!   * `AtPoint`   it announced a point and waits for the answer,
//!   * `FlockWait` it sleeps in flock(2) — seen in /proc/locks (`->` lines),
//!   * `Exited`    reaped,
//!   * `Running`   none of the above; it will reach one of them by itself.
//! A decision is only taken when no process is `Running`.

use crate::common::Point;
use std::collections::{BTreeMap, BTreeSet};
use std::io::{Read, Write};
use std::os::unix::net::{UnixListener, UnixStream};
use std::path::{Path, PathBuf};
use std::process::{Child, Command, Stdio};
use std::sync::{Arc, Mutex};
use std::time::{Duration, Instant};

struct Conn {
    stream: UnixStream,
    buf: Vec<u8>,
    pid: Option<u32>,
}

pub struct Director {
    pub sock_path: PathBuf,
    listener: UnixListener,
    conns: Vec<Conn>,
    /// announced and not yet answered, per pid
    pending: BTreeMap<u32, Point>,
    by_pid: BTreeMap<u32, usize>,
}

impl Director {
    pub fn new(dir: &Path) -> std::io::Result<Director> {
        // socket paths are limited to ~100 bytes: keep it short
        let sock_path = dir.join("s");
        let _ = std::fs::remove_file(&sock_path);
        let listener = UnixListener::bind(&sock_path)?;
        listener.set_nonblocking(true)?;
        Ok(Director {
            sock_path,
            listener,
            conns: vec![],
            pending: BTreeMap::new(),
            by_pid: BTreeMap::new(),
        })
    }

    /// Accept new connections and read every complete announcement.
    pub fn poll(&mut self) {
        while let Ok((s, _)) = self.listener.accept() {
            let _ = s.set_nonblocking(true);
            self.conns.push(Conn {
                stream: s,
                buf: vec![],
                pid: None,
            });
        }
        for (ci, c) in self.conns.iter_mut().enumerate() {
            let mut tmp = [0u8; 4096];
            loop {
                match c.stream.read(&mut tmp) {
                    Ok(0) => break,
                    Ok(n) => c.buf.extend_from_slice(&tmp[..n]),
                    Err(_) => break,
                }
            }
            while let Some(nl) = c.buf.iter().position(|b| *b == b'\n') {
                let line: Vec<u8> = c.buf.drain(..=nl).collect();
                let text = String::from_utf8_lossy(&line[..line.len() - 1]).into_owned();
                let mut it = text.splitn(4, '\t');
                let (Some(pid), Some(idx), Some(name)) = (it.next(), it.next(), it.next()) else {
                    continue;
                };
                let (Ok(pid), Ok(idx)) = (pid.parse::<u32>(), idx.parse::<usize>()) else {
                    continue;
                };
                c.pid = Some(pid);
                self.by_pid.insert(pid, ci);
                self.pending.insert(
                    pid,
                    Point {
                        pid,
                        index: idx,
                        name: name.to_string(),
                        path: it.next().unwrap_or("").to_string(),
                    },
                );
            }
        }
    }

    pub fn pending(&self, pid: u32) -> Option<&Point> {
        self.pending.get(&pid)
    }

    /// Answer the pending point of `pid`.
    pub fn release(&mut self, pid: u32, kill: bool) -> Option<Point> {
        let p = self.pending.remove(&pid)?;
        if let Some(ci) = self.by_pid.get(&pid) {
            let _ = self.conns[*ci].stream.write_all(if kill { b"k" } else { b"g" });
        }
        Some(p)
    }
}

/// Processes that currently sleep in flock(2) / fcntl lock waits: waiter pid ->
/// pid of the holder it waits for (0 if the holder line is not understood).
pub fn flock_wait_map() -> BTreeMap<u32, u32> {
    let mut out = BTreeMap::new();
    if let Ok(t) = std::fs::read_to_string("/proc/locks") {
        // "3: FLOCK ADVISORY WRITE 1200 fe:00:99 0 EOF"      the lock
        // "3: -> FLOCK ADVISORY WRITE 1234 fe:00:99 0 EOF"   a process waiting for it
        let mut holder: BTreeMap<&str, u32> = BTreeMap::new();
        for l in t.lines() {
            let tok: Vec<&str> = l.split_whitespace().collect();
            let Some(id) = tok.first() else { continue };
            if tok.get(1) == Some(&"->") {
                if let Some(pid) = tok.get(5).and_then(|x| x.parse::<u32>().ok()) {
                    out.insert(pid, holder.get(id).copied().unwrap_or(0));
                }
            } else if let Some(pid) = tok.get(4).and_then(|x| x.parse::<u32>().ok()) {
                holder.insert(id, pid);
            }
        }
    }
    out
}

pub fn flock_waiters() -> BTreeSet<u32> {
    flock_wait_map().into_keys().collect()
}

/// utime + stime (clock ticks) of a process, from /proc/<pid>/stat.
pub fn cpu_ticks(pid: u32) -> Option<u64> {
    let t = std::fs::read_to_string(format!("/proc/{pid}/stat")).ok()?;
    // fields after the ")" that ends the command name: state is #3, utime #14, stime #15
    let rest = &t[t.rfind(')')? + 1..];
    let f: Vec<&str> = rest.split_whitespace().collect();
    Some(f.get(11)?.parse::<u64>().ok()? + f.get(12)?.parse::<u64>().ok()?)
}

/// Is /proc/locks usable (readable and showing flock holders)?
pub fn proc_locks_usable() -> bool {
    std::fs::read_to_string("/proc/locks").is_ok()
}

/// A spawned command whose output is collected in the background.
pub struct Proc {
    pub child: Child,
    pub pid: u32,
    out: Arc<Mutex<Vec<u8>>>,
    err: Arc<Mutex<Vec<u8>>>,
    readers: Vec<std::thread::JoinHandle<()>>,
    pub status: Option<std::process::ExitStatus>,
}

fn drain<R: Read + Send + 'static>(mut r: R, into: Arc<Mutex<Vec<u8>>>) -> std::thread::JoinHandle<()> {
    std::thread::spawn(move || {
        let mut buf = [0u8; 8192];
        while let Ok(n) = r.read(&mut buf) {
            if n == 0 {
                break;
            }
            into.lock().unwrap().extend_from_slice(&buf[..n]);
        }
    })
}

impl Proc {
    pub fn spawn(_label: &str, bin: &Path, args: &[&str], cwd: &Path, env: &[(&str, &str)]) -> std::io::Result<Proc> {
        let mut c = Command::new(bin);
        c.args(args).current_dir(cwd).stdin(Stdio::null()).stdout(Stdio::piped()).stderr(Stdio::piped());
        for (k, v) in env {
            c.env(k, v);
        }
        let mut child = c.spawn()?;
        let out = Arc::new(Mutex::new(vec![]));
        let err = Arc::new(Mutex::new(vec![]));
        let readers = vec![
            drain(child.stdout.take().unwrap(), out.clone()),
            drain(child.stderr.take().unwrap(), err.clone()),
        ];
        Ok(Proc {
            pid: child.id(),
            child,
            out,
            err,
            readers,
            status: None,
        })
    }

    pub fn exited(&mut self) -> bool {
        if self.status.is_none()
            && let Ok(Some(s)) = self.child.try_wait()
        {
            self.status = Some(s);
        }
        self.status.is_some()
    }

    pub fn kill(&mut self) {
        let _ = self.child.kill();
        if let Ok(s) = self.child.wait() {
            self.status.get_or_insert(s);
        }
    }

    /// (stdout, stderr) after the process ended.
    pub fn output(&mut self) -> (String, String) {
        for h in self.readers.drain(..) {
            let _ = h.join();
        }
        (
            String::from_utf8_lossy(&self.out.lock().unwrap()).into_owned(),
            String::from_utf8_lossy(&self.err.lock().unwrap()).into_owned(),
        )
    }

    pub fn code(&self) -> Option<i32> {
        self.status.and_then(|s| s.code())
    }

    pub fn signal(&self) -> Option<i32> {
        use std::os::unix::process::ExitStatusExt;
        self.status.and_then(|s| s.signal())
    }
}

impl Drop for Proc {
    fn drop(&mut self) {
        if self.status.is_none() {
            self.kill();
        }
    }
}

#[derive(Clone, Debug, PartialEq)]
pub enum PState {
    Running,
    AtPoint(Point),
    FlockWait,
    Exited,
}

/// Snapshot of the states of `procs`.
pub fn states(dir: &mut Director, procs: &mut [Proc]) -> Vec<PState> {
    dir.poll();
    let mut ex: Vec<bool> = procs.iter_mut().map(|p| p.exited()).collect();
    // a process may have announced and been reaped in between: poll again
    dir.poll();
    let waiters = flock_waiters();
    procs
        .iter()
        .enumerate()
        .map(|(i, p)| {
            if std::mem::take(&mut ex[i]) {
                PState::Exited
            } else if let Some(q) = dir.pending(p.pid) {
                PState::AtPoint(q.clone())
            } else if waiters.contains(&p.pid) {
                PState::FlockWait
            } else {
                PState::Running
            }
        })
        .collect()
}

pub enum Quiet {
    /// no process is running; the states
    States(Vec<PState>),
    /// the watchdog expired first (inconclusive)
    Watchdog(Vec<PState>),
}

/// Wait until no process of `procs` is `Running`.
pub fn quiesce(dir: &mut Director, procs: &mut [Proc], deadline: Instant) -> Quiet {
    loop {
        let st = states(dir, procs);
        if !st.iter().any(|s| *s == PState::Running) {
            return Quiet::States(st);
        }
        if Instant::now() > deadline {
            return Quiet::Watchdog(st);
        }
        std::thread::sleep(Duration::from_micros(300));
    }
}
