//! C30 — concurrent veryl processes never corrupt each other.
//!
//! The harness owns the schedule (`VERYL_VERIF_SOCK`, see sched.rs): every
//! instrumented point of every steered process blocks until the harness
//! answers.  A case = 2–3 commands + a generated release order, a shrinkable
//! list of (which ready process goes next, for how many points); "ready" =
//! not yet started, or waiting at a point.  A process sleeping in flock(2) is
//! recognised through /proc/locks and is never waited for.
//!
//! Sub-checks
//!   same-project   build‖build, build‖check (2–3 processes) of one generated project
//!   two-projects   build A ‖ build/check B, two projects, one COLD user cache, std on
//!   build-ls       a build held paused at a generated point ‖ veryl-ls opening a file
//!   stress         N concurrent commands without the socket
//!
//! Oracle: every finished command's exit status and diagnostics equal those of
//! the same command run alone on the same sources without `.build` / emitted
//! files; the emitted files left at the end equal the clean build's; no
//! process reads an output another process has truncated and not yet
//! rewritten; no process logs a parse/IO failure on a shared cache file; the
//! language server completes `didOpen` (background analysis + diagnostics)
//! while the build is still paused with its locks.
//! Only instrumented points are interleaved.

use crate::common::*;
use crate::lsmini::{Ls, OpenDoc, Recv};
use crate::sched::*;
use serde_json::json;
use std::collections::{BTreeMap, BTreeSet};
use std::path::{Path, PathBuf};
use std::sync::atomic::{AtomicU64, Ordering};
use std::time::{Duration, Instant};
use vcore::{CaseCfg, Ctx, Draw, Outcome, hash_str};
use vproj::cli::{CliResult, Workspace, parse_diags};
use vproj::edit::{EditPolicy, Editor};
use vproj::toml::TomlCfg;
use vproj::{GenOpts, gen_project};

const RUNS: [usize; 11] = [usize::MAX, 1, 2, 3, 4, 6, 9, 14, 25, 50, 100];
const WATCHDOG: Duration = Duration::from_secs(1500);
/// a solo reference command (the machine may be heavily loaded)
const SOLO_TIMEOUT: Duration = Duration::from_secs(1200);

static AVOIDED: AtomicU64 = AtomicU64::new(0);
static INFO_HALF_READ: AtomicU64 = AtomicU64::new(0);

/// Log lines that tell that a process could not read / parse a shared cache file.
const SHARED_FILE_COMPLAINTS: &[&str] = &[
    "Failed to load fragment",
    "Failed to decode fragment",
    "Failed to restore fragment",
    "Failed to restore diagnostics",
    "cache: failed",
];

struct Spec {
    label: String,
    root: PathBuf,
    cmd: Cmd,
    filter: Option<&'static str>,
}

#[derive(Default)]
struct Steered {
    results: Vec<Option<CliResult>>,
    trace: Vec<String>,
    /// releases of a process while another one was paused in the middle of its command
    switches_inside: usize,
    /// ... while the paused one was inside its std expansion window
    switches_in_std_window: usize,
    classes: BTreeSet<String>,
    problem: Option<(String, String)>,
    inconclusive: Option<String>,
}

fn cli_result(args: &[&str], code: Option<i32>, signal: Option<i32>, stdout: String, stderr: String, root: &Path) -> CliResult {
    let root_s = root.to_string_lossy().into_owned();
    CliResult {
        args: args.iter().map(|s| s.to_string()).collect(),
        code,
        timed_out: false,
        signal,
        panicked: stderr.contains("panicked at") || code == Some(101),
        diags: parse_diags(&stderr, &root_s),
        restored: None,
        stdout,
        stderr,
    }
}

#[derive(Clone, Copy, PartialEq)]
enum Ready {
    Start(usize),
    Go(usize),
}

/// Run `specs` concurrently under a generated schedule.
fn run_steered(bin: &Path, scratch: &Path, xdg: &Path, specs: &[Spec], d: &mut Draw, avoid_std_race: bool) -> Steered {
    let mut out = Steered {
        results: specs.iter().map(|_| None).collect(),
        ..Default::default()
    };
    let mut dir = match Director::new(scratch) {
        Ok(d) => d,
        Err(e) => {
            out.inconclusive = Some(format!("cannot create the verification socket: {e}"));
            return out;
        }
    };
    let sock = dir.sock_path.to_string_lossy().into_owned();
    let xdg_s = xdg.to_string_lossy().into_owned();
    let tmp_s = tmp_dir_for(xdg);
    let deadline = Instant::now() + WATCHDOG;
    let mut procs: Vec<Proc> = vec![];
    let mut spec_of: Vec<usize> = vec![];
    let mut unstarted: Vec<usize> = (0..specs.len()).collect();
    let mut seen: Vec<Option<usize>> = vec![];
    let mut last_name: Vec<String> = vec![];
    // proc -> inside its std expansion window (it found the directory missing)
    let mut std_open: Vec<bool> = vec![];
    let mut out_window: BTreeMap<String, usize> = BTreeMap::new();
    let mut info_window: Option<usize> = None;
    let mut current: Option<(Ready, usize)> = None;
    let mut last_released: Option<usize> = None;

    loop {
        let st = match quiesce(&mut dir, &mut procs, deadline) {
            Quiet::States(s) => s,
            Quiet::Watchdog(s) => {
                out.inconclusive = Some(format!("watchdog: a process stayed running for {}s (states {s:?})", WATCHDOG.as_secs()));
                break;
            }
        };
        // ---- monitors on newly announced points
        for (pi, s) in st.iter().enumerate() {
            match s {
                PState::AtPoint(q) if seen[pi] != Some(q.index) => {
                    seen[pi] = Some(q.index);
                    last_name[pi] = q.name.clone();
                    match q.name.as_str() {
                        "write_file:truncated" => {
                            out_window.insert(q.path.clone(), pi);
                        }
                        "write_file:written" => {
                            if out_window.get(&q.path) == Some(&pi) {
                                out_window.remove(&q.path);
                            }
                        }
                        "write_file:before-open" => {
                            if let Some(owner) = out_window.get(&q.path)
                                && *owner != pi
                                && out.problem.is_none()
                            {
                                out.problem = Some((
                                    "partial-output-read".into(),
                                    format!(
                                        "{} compared its output with {} while {} had truncated that file and not yet rewritten it",
                                        specs[spec_of[pi]].label,
                                        q.path,
                                        specs[spec_of[*owner]].label
                                    ),
                                ));
                            }
                        }
                        "build_info:half-written" => info_window = Some(pi),
                        "build_info:written" => {
                            if info_window == Some(pi) {
                                info_window = None;
                            }
                        }
                        "std:missing" => std_open[pi] = true,
                        n if !n.starts_with("std:") && !n.starts_with("lock_dir") && !n.starts_with("unlock_dir") => std_open[pi] = false,
                        _ => {}
                    }
                    // the unlock that ends the expansion
                    if q.name == "unlock_dir:before-unlock" && std_open[pi] && !specs[spec_of[pi]].filter.is_some() {
                        std_open[pi] = false;
                    }
                }
                PState::Exited => {
                    std_open[pi] = false;
                    out_window.retain(|_, o| *o != pi);
                    if info_window == Some(pi) {
                        info_window = None;
                    }
                }
                _ => {}
            }
        }
        // ---- who can go
        let mut ready: Vec<Ready> = unstarted.iter().map(|s| Ready::Start(*s)).collect();
        for (pi, s) in st.iter().enumerate() {
            if let PState::AtPoint(q) = s {
                if avoid_std_race
                    && q.name == "std:before-exists-check"
                    && (0..procs.len()).any(|o| o != pi && std_open[o] && st[o] != PState::Exited)
                {
                    // the listed finding's schedule class, excluded by construction
                    continue;
                }
                ready.push(Ready::Go(pi));
            }
        }
        if ready.is_empty() {
            if st.iter().all(|s| *s == PState::Exited) {
                break;
            }
            if st.iter().any(|s| matches!(s, PState::AtPoint(_))) {
                // only held-back existence checks are left: let the window owner finish first
                // (cannot happen: the owner is at a point or exited) — treat as inconclusive
                out.inconclusive = Some("scheduler: only excluded processes are ready".into());
                break;
            }
            out.problem = Some((
                "deadlock".into(),
                format!("every live process sleeps in flock(2) and none is at a point: {st:?}"),
            ));
            break;
        }
        let choice = match current {
            Some((r, rem)) if rem > 0 && ready.contains(&r) => {
                current = Some((r, rem - 1));
                r
            }
            _ => {
                let r = ready[d.below_usize(ready.len())];
                let run = RUNS[d.below_usize(RUNS.len())];
                current = Some((r, run.saturating_sub(1)));
                r
            }
        };
        match choice {
            Ready::Start(si) => {
                let sp = &specs[si];
                let mut env: Vec<(&str, &str)> = vec![
                    ("XDG_CACHE_HOME", xdg_s.as_str()),
                    ("TMPDIR", tmp_s.as_str()),
                    ("NO_GRAPHICS", "1"),
                    ("NO_COLOR", "1"),
                    ("RUST_BACKTRACE", "0"),
                    ("VERYL_VERIF_SOCK", sock.as_str()),
                ];
                if let Some(f) = sp.filter {
                    env.push(("VERYL_VERIF_FILTER", f));
                }
                let mut args = vec!["--verbose"];
                args.extend(sp.cmd.args());
                match Proc::spawn(&sp.label, bin, &args, &sp.root, &env) {
                    Ok(p) => {
                        // Metadata::load reads .build/info.toml before the first point
                        if info_window.is_some() {
                            INFO_HALF_READ.fetch_add(1, Ordering::Relaxed);
                            out.classes.insert("started-while-info.toml-half-written (tolerated: load failure is ignored)".into());
                        }
                        if let Some(lp) = last_released
                            && st.get(lp).is_some_and(|s| *s != PState::Exited)
                        {
                            out.switches_inside += 1;
                        }
                        out.trace.push(format!("start {}", sp.label));
                        procs.push(p);
                        spec_of.push(si);
                        seen.push(None);
                        last_name.push(String::new());
                        std_open.push(false);
                        unstarted.retain(|x| *x != si);
                        let pi = procs.len() - 1;
                        current = current.map(|(_, rem)| (Ready::Go(pi), rem));
                        last_released = Some(pi);
                    }
                    Err(e) => {
                        out.inconclusive = Some(format!("spawn failed: {e}"));
                        break;
                    }
                }
            }
            Ready::Go(pi) => {
                if let Some(lp) = last_released
                    && lp != pi
                    && matches!(st[lp], PState::AtPoint(_) | PState::FlockWait)
                {
                    out.switches_inside += 1;
                    out.classes.insert(format!("switch-while-other-paused@{}", if matches!(st[lp], PState::FlockWait) { "flock" } else { last_name[lp].as_str() }));
                }
                if let PState::AtPoint(q) = &st[pi] {
                    if q.name == "std:before-exists-check" {
                        let foreign = (0..procs.len()).any(|o| o != pi && std_open[o] && st[o] != PState::Exited);
                        if foreign {
                            out.switches_in_std_window += 1;
                            out.classes.insert("existence-check-inside-foreign-expansion-window".into());
                        }
                    } else if (0..procs.len()).any(|o| o != pi && std_open[o] && matches!(st[o], PState::AtPoint(_))) {
                        out.switches_in_std_window += 1;
                    }
                    let pid = procs[pi].pid;
                    let q = dir.release(pid, false);
                    if let Some(q) = q {
                        let short = q.path.rsplit('/').next().unwrap_or("").to_string();
                        out.trace.push(format!("{} {} {}", specs[spec_of[pi]].label, q.name, short));
                    }
                }
                last_released = Some(pi);
            }
        }
    }
    if avoid_std_race {
        AVOIDED.fetch_add(1, Ordering::Relaxed);
    }
    // ---- collect
    for (pi, p) in procs.iter_mut().enumerate() {
        if !p.exited() {
            p.kill();
            continue;
        }
        let (so, se) = p.output();
        let sp = &specs[spec_of[pi]];
        out.results[spec_of[pi]] = Some(cli_result(&sp.cmd.args(), p.code(), p.signal(), so, se, &sp.root));
    }
    out
}

fn complaint(r: &CliResult) -> Option<String> {
    r.stderr
        .lines()
        .find(|l| SHARED_FILE_COMPLAINTS.iter().any(|c| l.contains(c)))
        .map(|l| l.trim().to_string())
}

fn short_trace(t: &[String]) -> String {
    // compress runs of one process
    let mut out: Vec<String> = vec![];
    let mut i = 0;
    while i < t.len() {
        let who = t[i].split(' ').next().unwrap_or("").to_string();
        let mut j = i;
        while j + 1 < t.len() && t[j + 1].split(' ').next() == Some(who.as_str()) {
            j += 1;
        }
        if j - i >= 3 {
            out.push(format!("{} .. ({} points) .. {}", t[i], j - i + 1, t[j].splitn(2, ' ').nth(1).unwrap_or("")));
        } else {
            out.extend_from_slice(&t[i..=j]);
        }
        i = j + 1;
    }
    out.join("\n  ")
}

// ------------------------------------------------------------ same project

fn same_project(ctx: &Ctx, d: &mut Draw) -> Outcome {
    let _ = ctx;
    let gopts = GenOpts {
        max_items: 5,
        max_files: 3,
        generics: false,
        tests: false,
        warn_per_mille: 300,
        ..GenOpts::default()
    };
    let pol = EditPolicy {
        output_edit: false,
        toml: false,
        defines: false,
        errors: false,
        generic_ops: 0,
        gen_opts: gopts.clone(),
        ..EditPolicy::default()
    };
    let mut p = gen_project(d, &gopts);
    p.cfg.incremental = !d.chance(1, 3);
    p.cfg.exclude_std = true;
    let ws = Workspace::new("c30", &p.cfg.name);
    let mut ed = Editor::create(&p, &ws);
    let state = d.weighted(&[2, 3, 3]);
    let mut desc = vec![p.summary()];
    if state >= 1 {
        let r = ws.veryl(&["build"]);
        if r.code != Some(0) {
            return Outcome::skip("generated project not accepted");
        }
        desc.push("veryl build".into());
    }
    if state == 2 {
        let op = crate::c05::draw_allowed(d, &ed, &p, &ws, &pol);
        let a = ed.apply(d, &mut p, &ws, &op, &pol);
        desc.push(format!("edit {}", a.desc));
    }
    let n = d.usize_in(2, 3);
    let mut cmds = vec![Cmd::Build];
    for _ in 1..n {
        cmds.push(if d.bool() { Cmd::Check } else { Cmd::Build });
    }
    ws.save_state("s");
    let before_outputs = ws.outputs();
    // clean references, one per distinct command
    let mut refs: BTreeMap<Cmd, SeqRes> = BTreeMap::new();
    for c in &cmds {
        if !refs.contains_key(c) {
            ws.restore_state("s", false);
            strip_to_sources(&ws);
            refs.insert(*c, run_seq(&ws, &[*c]));
        }
    }
    if refs.values().any(|r| r.timed_out()) {
        return Outcome::skip("reference run timed out");
    }
    if let Some(bad) = refs.values().find(|r| !r.all_ok()) {
        let code = bad.cmds[0].diags.iter().find(|x| !x.code.is_empty()).map(|x| x.code.clone()).unwrap_or_default();
        return Outcome::skip(format!("clean run not successful ({} {code})", bad.brief()));
    }
    // sequential incremental baseline (C04's domain if it already differs)
    ws.restore_state("s", false);
    let mut c04 = false;
    for c in &cmds {
        let r = run_seq(&ws, &[*c]);
        let cl = SeqRes {
            cmds: refs[c].cmds.clone(),
            outputs: r.outputs.clone(),
        };
        if compare(&r, &cl, None).is_some() {
            c04 = true;
        }
    }
    if cmds.contains(&Cmd::Build) {
        let fin = SeqRes {
            cmds: vec![],
            outputs: ws.outputs(),
        };
        let cl = SeqRes {
            cmds: vec![],
            outputs: refs[&Cmd::Build].outputs.clone(),
        };
        if compare(&fin, &cl, Some(&before_outputs)).is_some() {
            c04 = true;
        }
    }
    if c04 {
        return Outcome::skip("the sequential incremental run already differs from clean (C04's domain)");
    }
    ws.restore_state("s", false);
    let specs: Vec<Spec> = cmds
        .iter()
        .enumerate()
        .map(|(i, c)| Spec {
            label: format!("P{i}:{}", c.name()),
            root: ws.root.clone(),
            cmd: *c,
            filter: None,
        })
        .collect();
    let run = run_steered(&ws.bin, &ws.scratch.path, &ws.xdg, &specs, d, false);
    let text = format!(
        "{}\ncommands: {}\nschedule:\n  {}",
        desc.join("\n"),
        specs.iter().map(|s| s.label.clone()).collect::<Vec<_>>().join(" ‖ "),
        short_trace(&run.trace)
    );
    if let Some(w) = run.inconclusive {
        return Outcome::skip(format!("inconclusive: {}", w.chars().take(60).collect::<String>()));
    }
    let input = |detail: &str| json!({"case": text, "detail": detail, "incremental": p.cfg.incremental});
    if let Some((sig, msg)) = run.problem {
        return Outcome::fail(format!("same-project/{sig}"), format!("{msg}\n{text}"), input(&msg));
    }
    for (i, r) in run.results.iter().enumerate() {
        let Some(r) = r else {
            return Outcome::skip("a process was killed by the harness");
        };
        if let Some(l) = complaint(r) {
            return Outcome::fail(
                "same-project/shared-file-read-failure",
                format!("{} logged: {l}\n{text}", specs[i].label),
                input(&l),
            );
        }
        let got = SeqRes {
            cmds: vec![CmdRes::of(cmds[i].name(), r)],
            outputs: BTreeMap::new(),
        };
        let cl = SeqRes {
            cmds: refs[&cmds[i]].cmds.clone(),
            outputs: BTreeMap::new(),
        };
        if let Some(m) = compare(&got, &cl, None) {
            return Outcome::fail(
                format!("same-project/{}", m.what),
                format!("{} differs from the same command run alone:\n{}\n{text}", specs[i].label, m.detail),
                input(&m.detail),
            );
        }
    }
    if cmds.contains(&Cmd::Build) {
        let fin = SeqRes {
            cmds: vec![],
            outputs: ws.outputs(),
        };
        let cl = SeqRes {
            cmds: vec![],
            outputs: refs[&Cmd::Build].outputs.clone(),
        };
        if let Some(m) = compare(&fin, &cl, Some(&before_outputs)) {
            return Outcome::fail(
                format!("same-project/{}", m.what),
                format!("emitted files after all commands finished differ from a clean build:\n{}\n{text}", m.detail),
                input(&m.detail),
            );
        }
    }
    let mut classes: Vec<String> = run.classes.into_iter().collect();
    classes.push(format!("same-project:{}", cmds.iter().map(|c| c.name()).collect::<Vec<_>>().join("|")));
    classes.push(if p.cfg.incremental { "incremental".into() } else { "non-incremental".into() });
    classes.push(["state:cold", "state:built", "state:built+edit"][state].into());
    Outcome::pass(hash_str(&text), run.switches_inside > 0, classes, text)
}

// ------------------------------------------------- two projects, cold std

fn write_tiny(root: &Path, name: &str, incremental: bool, k: u32) {
    let mut cfg = TomlCfg::basic(name);
    cfg.exclude_std = false;
    cfg.incremental = incremental;
    vcore::util::write_file(&root.join("Veryl.toml"), &cfg.render());
    vcore::util::write_file(&root.join("src/a.veryl"), &format!("package PkgA {{\n    const W: u32 = {};\n}}\n", 2 + k));
    vcore::util::write_file(
        &root.join("src/b.veryl"),
        "module ModB (\n    i_a: input  logic<PkgA::W>,\n    o_a: output logic<PkgA::W>,\n) {\n    assign o_a = i_a + 1;\n}\n",
    );
}

fn wipe_project(root: &Path) {
    let _ = std::fs::remove_dir_all(root.join(".build"));
    let _ = std::fs::remove_dir_all(root.join("target"));
    let _ = std::fs::remove_dir_all(root.join("dependencies"));
    for f in ["pa.f", "pb.f", "Veryl.lock"] {
        let _ = std::fs::remove_file(root.join(f));
    }
}

fn two_projects(ctx: &Ctx, d: &mut Draw) -> Outcome {
    let ws = Workspace::new("c30t", "pa");
    let root_a = ws.root.clone();
    let root_b = ws.scratch.path.join("w2").join("pb");
    let inc_a = d.bool();
    let inc_b = d.bool();
    write_tiny(&root_a, "pa", inc_a, d.below(3));
    write_tiny(&root_b, "pb", inc_b, d.below(3));
    let cmd_b = if d.chance(1, 3) { Cmd::Check } else { Cmd::Build };
    let third = d.chance(1, 4);
    // 1 of 3 cases stays outside the listed finding's schedule class
    let avoid = d.chance(1, 3);
    let mut specs = vec![
        Spec {
            label: "A:build".into(),
            root: root_a.clone(),
            cmd: Cmd::Build,
            filter: Some("std:"),
        },
        Spec {
            label: format!("B:{}", cmd_b.name()),
            root: root_b.clone(),
            cmd: cmd_b,
            filter: Some("std:"),
        },
    ];
    if third {
        specs.push(Spec {
            label: "C:check(of A's project)".into(),
            root: root_a.clone(),
            cmd: Cmd::Check,
            filter: Some("std:"),
        });
    }
    let run = run_steered(&ws.bin, &ws.scratch.path, &ws.xdg, &specs, d, avoid);
    let text = format!(
        "two projects (incremental {inc_a}/{inc_b}), one cold user cache, std on; {}{}\nschedule (std: points only):\n  {}",
        specs.iter().map(|s| s.label.clone()).collect::<Vec<_>>().join(" ‖ "),
        if avoid { " [existence checks held back while another process expands]" } else { "" },
        short_trace(&run.trace)
    );
    if let Some(w) = run.inconclusive {
        return Outcome::skip(format!("inconclusive: {}", w.chars().take(60).collect::<String>()));
    }
    let input = |detail: &str| json!({"case": text, "detail": detail});
    if let Some((sig, msg)) = &run.problem {
        return Outcome::fail(format!("two-projects/{sig}"), format!("{msg}\n{text}"), input(msg));
    }
    let got_out_a = outputs_of(&root_a);
    let got_out_b = outputs_of(&root_b);
    // solo references (cold user cache for the first one)
    let _ = std::fs::remove_dir_all(&ws.xdg);
    let _ = std::fs::create_dir_all(&ws.xdg);
    let mut fails: Vec<(String, String)> = vec![];
    for (i, sp) in specs.iter().enumerate() {
        // (the third process shares A's directory: its reference runs on A's clean state too)
        wipe_project(&sp.root);
        let r = veryl_at(&ws.bin, &sp.root, &ws.xdg, &sp.cmd.args(), &[], SOLO_TIMEOUT);
        if r.timed_out || !(r.code == Some(0)) {
            return Outcome::skip("solo reference run not successful");
        }
        let cl = SeqRes {
            cmds: vec![CmdRes::of(sp.cmd.name(), &r)],
            outputs: if sp.cmd == Cmd::Build { outputs_of(&sp.root) } else { BTreeMap::new() },
        };
        let Some(g) = &run.results[i] else {
            return Outcome::skip("a process was killed by the harness");
        };
        let got = SeqRes {
            cmds: vec![CmdRes::of(sp.cmd.name(), g)],
            outputs: if sp.cmd == Cmd::Build {
                if sp.root == root_a { got_out_a.clone() } else { got_out_b.clone() }
            } else {
                BTreeMap::new()
            },
        };
        if let Some(l) = complaint(g) {
            fails.push(("shared-file-read-failure".into(), format!("{} logged: {l}", sp.label)));
        }
        if let Some(m) = compare(&got, &cl, None) {
            fails.push((m.what.clone(), format!("{} differs from the same command run alone: {}\n{}", sp.label, m.what, m.detail)));
        }
    }
    if let Some((what, detail)) = fails.first() {
        // root cause: somebody used the library while it was being expanded
        let std_related = run.switches_in_std_window > 0
            && (detail.contains("dependencies/std") || detail.contains("/veryl/std/") || detail.contains("Unexpected token") || detail.contains("exit-status"));
        let sig = if std_related {
            "race/std-expansion-not-atomic".to_string()
        } else {
            format!("two-projects/{what}")
        };
        let all: Vec<String> = fails.iter().map(|(_, d)| d.chars().take(1500).collect()).collect();
        let msg = format!("{}\n{text}", all.join("\n"));
        let _ = ctx;
        return Outcome::fail(sig, msg.clone(), input(&all.join("\n")));
    }
    let mut classes: Vec<String> = run.classes.into_iter().collect();
    classes.push(format!("two-projects:{}", if third { "3 processes" } else { "2 processes" }));
    if avoid {
        classes.push("two-projects:known-race-class-excluded".into());
    }
    Outcome::pass(hash_str(&text), run.switches_in_std_window > 0 || (avoid && run.switches_inside > 0), classes, text)
}

// ------------------------------------------------------------- build ‖ LS

enum LsWait {
    Done,
    /// the server sleeps in flock(2); pid of the lock holder (0 = unknown)
    Flock(u32),
    Watchdog,
    Died(String),
}

struct LsSession {
    ls: Ls,
    doc: OpenDoc,
}

impl LsSession {
    /// Start a language server and send "initialize"; `dir`: steer it too (its
    /// own verification points are released at once by `drive`).
    fn start(ws: &Workspace, dir: Option<&Director>, file_rel: &str, text: &str) -> Result<LsSession, String> {
        let ls_bin = vcore::util::repo_bin("veryl-ls");
        let sock;
        let mut env: Vec<(&str, &str)> = vec![];
        if let Some(d) = dir {
            sock = d.sock_path.to_string_lossy().into_owned();
            env.push(("VERYL_VERIF_SOCK", sock.as_str()));
        }
        let mut ls = Ls::spawn(&ls_bin, &ws.root, &ws.xdg, &env).map_err(|e| format!("spawn veryl-ls: {e}"))?;
        let mut doc = OpenDoc::new(&ws.root, file_rel, text);
        doc.start(&mut ls);
        Ok(LsSession { ls, doc })
    }

    /// Pump the conversation "initialize, didOpen, final diagnostics" until it is
    /// complete, the server is found sleeping in flock(2), or `patience` is over.
    fn drive(&mut self, mut dir: Option<&mut Director>, patience: Duration) -> LsWait {
        let deadline = Instant::now() + patience;
        let mut flock_seen = 0u32;
        loop {
            if self.doc.done() {
                return LsWait::Done;
            }
            if let Some(d) = dir.as_deref_mut() {
                d.poll();
                if let Some(q) = d.release(self.ls.pid, false) {
                    self.doc.trace.push(format!("ls point {} {}", q.name, q.path.rsplit('/').next().unwrap_or("")));
                }
            }
            match self.ls.try_recv(Duration::from_millis(2)) {
                Recv::Msg(m) => {
                    self.doc.feed(&mut self.ls, &m);
                    flock_seen = 0;
                    continue;
                }
                Recv::Closed => {
                    return LsWait::Died(format!("veryl-ls closed its output; stderr: {}", self.ls.stderr_text()));
                }
                Recv::Timeout => {}
            }
            if let Some(holder) = flock_wait_map().get(&self.ls.pid) {
                // seen several times in a row with nothing received in between
                flock_seen += 1;
                if flock_seen >= 3 {
                    return LsWait::Flock(*holder);
                }
            } else {
                flock_seen = 0;
            }
            if Instant::now() > deadline {
                return LsWait::Watchdog;
            }
        }
    }

    /// No CPU time consumed over an interval: the server is not computing.
    fn idle(&mut self) -> bool {
        let a = cpu_ticks(self.ls.pid);
        std::thread::sleep(Duration::from_secs(3));
        let b = cpu_ticks(self.ls.pid);
        a.is_some() && a == b
    }
}

fn build_ls(ctx: &Ctx, d: &mut Draw) -> Outcome {
    let _ = ctx;
    let gopts = GenOpts {
        max_items: 5,
        max_files: 3,
        generics: false,
        tests: false,
        examples: false,
        warn_per_mille: 400,
        ..GenOpts::default()
    };
    let pol = EditPolicy {
        output_edit: false,
        toml: false,
        defines: false,
        errors: false,
        generic_ops: 0,
        gen_opts: gopts.clone(),
        ..EditPolicy::default()
    };
    let mut p = gen_project(d, &gopts);
    p.cfg.incremental = true;
    p.cfg.exclude_std = true;
    let ws = Workspace::new("c30l", &p.cfg.name);
    let mut ed = Editor::create(&p, &ws);
    let mut desc = vec![p.summary()];
    let state = d.weighted(&[2, 3]);
    if state == 1 {
        let r = ws.veryl(&["build"]);
        if r.code != Some(0) {
            return Outcome::skip("generated project not accepted");
        }
        let op = crate::c05::draw_allowed(d, &ed, &p, &ws, &pol);
        let a = ed.apply(d, &mut p, &ws, &op, &pol);
        desc.push(format!("veryl build; edit {}", a.desc));
    }
    let live = p.live_files();
    let fi = live[d.below_usize(live.len())];
    let file_rel = p.files[fi].rel.clone();
    let Some(file_text) = ws.read(&file_rel) else {
        return Outcome::skip("file to open is missing");
    };
    ws.save_state("s");
    // ---- references: the language server alone, the build alone (counting its points)
    let solo = {
        let mut s = match LsSession::start(&ws, None, &file_rel, &file_text) {
            Ok(s) => s,
            Err(e) => return Outcome::skip(format!("inconclusive: {e}")),
        };
        match s.drive(None, Duration::from_secs(240)) {
            LsWait::Done => s.doc,
            LsWait::Watchdog | LsWait::Flock(_) => return Outcome::skip("inconclusive: the language server alone did not answer within the watchdog"),
            LsWait::Died(e) => {
                return Outcome::skip(format!("the language server alone died (C07/C11's domain): {}", e.chars().take(60).collect::<String>()));
            }
        }
    };
    ws.restore_state("s", false);
    strip_to_sources(&ws);
    let clean = run_seq(&ws, &[Cmd::Build]);
    if clean.timed_out() || !clean.all_ok() {
        return Outcome::skip("clean run not successful");
    }
    ws.restore_state("s", false);
    let log = ws.scratch.path.join("points.log");
    let log_s = log.to_string_lossy().into_owned();
    let warm = veryl_env(&ws, &["build"], &[("VERYL_VERIF_LOG", &log_s), COUNTING]);
    let points = parse_points(&std::fs::read_to_string(&log).unwrap_or_default());
    if warm.code != Some(0) || points.is_empty() {
        return Outcome::skip("counting run of the build failed");
    }
    let before_outputs = {
        ws.restore_state("s", false);
        ws.outputs()
    };
    // ---- the build, held at point k
    let k = d.below_usize(points.len());
    let mut dir = match Director::new(&ws.scratch.path) {
        Ok(x) => x,
        Err(e) => return Outcome::skip(format!("inconclusive: socket: {e}")),
    };
    let sock = dir.sock_path.to_string_lossy().into_owned();
    let xdg_s = ws.xdg.to_string_lossy().into_owned();
    let tmp_s = tmp_dir_for(&ws.xdg);
    let env = [
        ("XDG_CACHE_HOME", xdg_s.as_str()),
        ("TMPDIR", tmp_s.as_str()),
        ("NO_GRAPHICS", "1"),
        ("NO_COLOR", "1"),
        ("RUST_BACKTRACE", "0"),
        ("VERYL_VERIF_SOCK", sock.as_str()),
    ];
    let Ok(pb) = Proc::spawn("build", &ws.bin, &["build"], &ws.root, &env) else {
        return Outcome::skip("inconclusive: spawn failed");
    };
    let mut procs = vec![pb];
    let deadline = Instant::now() + WATCHDOG;
    let mut held: Option<Point> = None;
    loop {
        match quiesce(&mut dir, &mut procs, deadline) {
            Quiet::States(st) => match &st[0] {
                PState::AtPoint(q) if q.index >= k => {
                    held = Some(q.clone());
                    break;
                }
                PState::AtPoint(_) => {
                    dir.release(procs[0].pid, false);
                }
                _ => break,
            },
            Quiet::Watchdog(_) => return Outcome::skip("inconclusive: watchdog while advancing the build"),
        }
    }
    let Some(held) = held else {
        return Outcome::skip("the build ended before the chosen point");
    };
    let held_rel = held.path.replace(&ws.root_str(), "<ROOT>");
    let holds_build_lock = points[..=k.min(points.len() - 1)].iter().any(|q| q.name == "lock_dir:locked");
    let holds_cache_lock = {
        let pre = &points[..=k.min(points.len() - 1)];
        pre.iter().any(|q| q.name == "store:before-read-manifest")
    };
    // ---- the language server while the build is held
    let build_pid = procs[0].pid;
    let text = format!(
        "{}\nveryl build held at point {k}/{} = {} {held_rel} (holds .build/lock: {holds_build_lock}, cache lock: {holds_cache_lock}); veryl-ls: initialize, didOpen {file_rel}",
        desc.join("\n"),
        points.len(),
        held.name
    );
    let finish_build = |dir: &mut Director, procs: &mut Vec<Proc>| -> bool {
        let deadline = Instant::now() + WATCHDOG;
        loop {
            match quiesce(dir, procs, deadline) {
                Quiet::States(st) => match &st[0] {
                    PState::AtPoint(_) => {
                        dir.release(procs[0].pid, false);
                    }
                    PState::Exited => return true,
                    _ => return false,
                },
                Quiet::Watchdog(_) => return false,
            }
        }
    };
    let mut sess = match LsSession::start(&ws, Some(&dir), &file_rel, &file_text) {
        Ok(s) => s,
        Err(e) => return Outcome::skip(format!("inconclusive: {e}")),
    };
    match sess.drive(Some(&mut dir), Duration::from_secs(150)) {
        LsWait::Done => {}
        LsWait::Died(e) => {
            return Outcome::fail(
                "build-ls/server-died",
                format!("the language server died while a build was paused (alone it answers): {e}\n{text}"),
                json!({"case": text}),
            );
        }
        LsWait::Flock(holder) => {
            // it sleeps in flock(2); the holder must be the paused build; then
            // the answer must come once the build is released
            let answers_before = sess.doc.publishes;
            let released = finish_build(&mut dir, &mut procs);
            let after = sess.drive(Some(&mut dir), Duration::from_secs(150));
            if holder == build_pid && released && matches!(after, LsWait::Done) {
                return Outcome::fail(
                    "build-ls/server-waits-for-build-lock",
                    format!(
                        "the language server slept in flock(2) on a lock held by the paused build (pid {holder}, /proc/locks) and completed didOpen only after the build was released; diagnostics published before: {answers_before}\n{text}\nls trace: {:?}",
                        sess.doc.trace
                    ),
                    json!({"case": text, "ls_trace": sess.doc.trace}),
                );
            }
            return Outcome::skip("inconclusive: the language server slept in flock(2), but holder / completion after release could not be confirmed");
        }
        LsWait::Watchdog => {
            // "waits for the build" or "just slow / never answers"?  Only an idle
            // server that answers once the build is released is a violation.
            let idle = sess.idle();
            let released = finish_build(&mut dir, &mut procs);
            let after = sess.drive(Some(&mut dir), Duration::from_secs(150));
            if idle && released && matches!(after, LsWait::Done) {
                return Outcome::fail(
                    "build-ls/answer-only-after-build-released",
                    format!(
                        "no final diagnostics within 150 s while the build was held, the server consumed no CPU time meanwhile, and it completed didOpen after the build was released\n{text}\nls trace: {:?}",
                        sess.doc.trace
                    ),
                    json!({"case": text, "ls_trace": sess.doc.trace}),
                );
            }
            return Outcome::skip("inconclusive: no final answer from the language server within the watchdog while the build was held");
        }
    }
    let doc = &sess.doc;
    // ---- the server's answer must be the one it gives alone
    if doc.diag_lines() != solo.diag_lines() {
        return Outcome::fail(
            "build-ls/diagnostics-differ",
            format!("diagnostics published while the build was paused differ from the server alone:\nwith build: {:#?}\nalone: {:#?}\n{text}", doc.diag_lines(), solo.diag_lines()),
            json!({"case": text}),
        );
    }
    // ---- let the build finish, compare with the clean build
    if !finish_build(&mut dir, &mut procs) {
        return Outcome::skip("inconclusive: the build did not finish after release");
    }
    let (so, se) = procs[0].output();
    let r = cli_result(&["build"], procs[0].code(), procs[0].signal(), so, se, &ws.root);
    let got = SeqRes {
        cmds: vec![CmdRes::of("build", &r)],
        outputs: ws.outputs(),
    };
    if let Some(m) = compare(&got, &clean, Some(&before_outputs)) {
        return Outcome::fail(
            format!("build-ls/{}", m.what),
            format!("the build that ran beside the language server differs from the clean build:\n{}\n{text}", m.detail),
            json!({"case": text, "detail": m.detail}),
        );
    }
    let classes = vec![
        format!("build-ls:held@{}", held.name),
        format!("build-ls:holds-build-lock={holds_build_lock}"),
        format!("build-ls:holds-cache-lock={holds_cache_lock}"),
    ];
    Outcome::pass(hash_str(&text), holds_build_lock, classes, text)
}

// ------------------------------------------------------------------ stress

fn stress(ctx: &Ctx, d: &mut Draw) -> Outcome {
    let _ = ctx;
    let ws = Workspace::new("c30s", "pa");
    let root_a = ws.root.clone();
    let root_b = ws.scratch.path.join("w2").join("pb");
    let std_on = d.chance(1, 3);
    let inc = d.bool();
    write_tiny(&root_a, "pa", inc, d.below(3));
    write_tiny(&root_b, "pb", inc, d.below(3));
    if !std_on {
        for r in [&root_a, &root_b] {
            let t = std::fs::read_to_string(r.join("Veryl.toml")).unwrap_or_default();
            let _ = std::fs::write(r.join("Veryl.toml"), t.replace("exclude_std = false", "exclude_std = true"));
        }
    }
    let n = d.usize_in(3, 6);
    let mut plan: Vec<(PathBuf, Cmd)> = vec![];
    for i in 0..n {
        let root = if i % 2 == 0 || d.chance(1, 3) { root_a.clone() } else { root_b.clone() };
        plan.push((root, if d.chance(1, 3) { Cmd::Check } else { Cmd::Build }));
    }
    let xdg_s = ws.xdg.to_string_lossy().into_owned();
    let tmp_s = tmp_dir_for(&ws.xdg);
    let env = [
        ("XDG_CACHE_HOME", xdg_s.as_str()),
        ("TMPDIR", tmp_s.as_str()),
        ("NO_GRAPHICS", "1"),
        ("NO_COLOR", "1"),
        ("RUST_BACKTRACE", "0"),
    ];
    let mut procs: Vec<Proc> = vec![];
    for (i, (root, c)) in plan.iter().enumerate() {
        let mut args = vec!["--verbose"];
        args.extend(c.args());
        match Proc::spawn(&format!("S{i}"), &ws.bin, &args, root, &env) {
            Ok(p) => procs.push(p),
            Err(_) => return Outcome::skip("inconclusive: spawn failed"),
        }
    }
    let deadline = Instant::now() + WATCHDOG;
    while procs.iter_mut().any(|p| !p.exited()) {
        if Instant::now() > deadline {
            return Outcome::skip("inconclusive: watchdog (stress)");
        }
        std::thread::sleep(Duration::from_millis(5));
    }
    let results: Vec<CliResult> = procs
        .iter_mut()
        .zip(plan.iter())
        .map(|(p, (root, c))| {
            let (so, se) = p.output();
            cli_result(&c.args(), p.code(), p.signal(), so, se, root)
        })
        .collect();
    let out_a = outputs_of(&root_a);
    let out_b = outputs_of(&root_b);
    let text = format!(
        "stress: {} concurrent commands without the socket (std {}, incremental {inc}): {}",
        n,
        if std_on { "on, cold user cache" } else { "off" },
        plan.iter().map(|(r, c)| format!("{}:{}", if *r == root_a { "A" } else { "B" }, c.name())).collect::<Vec<_>>().join(" ‖ ")
    );
    // references
    let _ = std::fs::remove_dir_all(&ws.xdg);
    let _ = std::fs::create_dir_all(&ws.xdg);
    let mut refs: BTreeMap<(bool, Cmd), SeqRes> = BTreeMap::new();
    for (root, c) in &plan {
        let key = (*root == root_a, *c);
        if refs.contains_key(&key) {
            continue;
        }
        wipe_project(root);
        let r = veryl_at(&ws.bin, root, &ws.xdg, &c.args(), &[], SOLO_TIMEOUT);
        if r.timed_out || r.code != Some(0) {
            return Outcome::skip("solo reference run not successful");
        }
        refs.insert(
            key,
            SeqRes {
                cmds: vec![CmdRes::of(c.name(), &r)],
                outputs: if *c == Cmd::Build { outputs_of(root) } else { BTreeMap::new() },
            },
        );
    }
    for (i, r) in results.iter().enumerate() {
        let (root, c) = &plan[i];
        let is_a = *root == root_a;
        let cl = &refs[&(is_a, *c)];
        let got = SeqRes {
            cmds: vec![CmdRes::of(c.name(), r)],
            outputs: if *c == Cmd::Build {
                if is_a { out_a.clone() } else { out_b.clone() }
            } else {
                BTreeMap::new()
            },
        };
        let bad = complaint(r)
            .map(|l| ("shared-file-read-failure".to_string(), l))
            .or_else(|| compare(&got, cl, None).map(|m| (m.what, m.detail)));
        if let Some((what, detail)) = bad {
            let sig = if std_on
                && (detail.contains("dependencies/std") || detail.contains("/veryl/std/") || detail.contains("Unexpected token") || what.starts_with("exit-status"))
            {
                "race/std-expansion-not-atomic".to_string()
            } else {
                format!("stress/{what}")
            };
            return Outcome::fail(sig, format!("S{i} ({}) differs from the command run alone: {what}\n{detail}\n{text}", c.name()), json!({"case": text, "detail": detail}));
        }
    }
    Outcome::pass(
        hash_str(&text),
        true,
        vec![format!("stress:{n} processes"), format!("stress:std {}", if std_on { "on" } else { "off" })],
        text,
    )
}

pub fn run(ctx: &Ctx) {
    if !proc_locks_usable() {
        println!("INCONCLUSIVE property=C30: /proc/locks is not readable (needed to recognise processes sleeping in flock)");
        std::process::exit(2);
    }
    let dev = |k: &str, dflt: usize| std::env::var(k).ok().and_then(|x| x.parse().ok()).unwrap_or(dflt);
    let n_same = dev("VERIF_C30_SAME", ctx.scale(96, 6000));
    let n_two = dev("VERIF_C30_TWO", ctx.scale(32, 2000));
    let n_ls = dev("VERIF_C30_LS", ctx.scale(48, 3000));
    let n_stress = dev("VERIF_C30_STRESS", ctx.scale(16, 600));
    ctx.run("two-projects", CaseCfg::cases(n_two).choices(400).timeout_s(9000).shrink_iters(6), |d| two_projects(ctx, d));
    ctx.run("same-project", CaseCfg::cases(n_same).choices(900).timeout_s(9000).shrink_iters(12), |d| same_project(ctx, d));
    ctx.run("build-ls", CaseCfg::cases(n_ls).choices(900).timeout_s(9000).shrink_iters(6), |d| build_ls(ctx, d));
    ctx.run("stress", CaseCfg::cases(n_stress).choices(64).timeout_s(9000).shrink_iters(0), |d| stress(ctx, d));
    ctx.note("std_race_class_excluded_cases", json!(AVOIDED.load(Ordering::Relaxed)));
    ctx.note("processes_started_while_info_toml_half_written", json!(INFO_HALF_READ.load(Ordering::Relaxed)));
    ctx.note(
        "reach",
        json!("only instrumented points are interleaved (lock_dir/unlock_dir, store open/gc, atomic_write, write_file_if_changed, BuildInfo::save, std expansion): a schedule is a sequence of (process, number of points) pairs; interleavings inside one write(2), between two un-instrumented operations, or of the un-instrumented reads of the analysis are not steered (the stress sub-check runs them unsteered); dependency checkouts (git) are not exercised"),
    );
    ctx.assume("steered processes are /repo's own veryl / veryl-ls (harness packages vcli / vls, --cfg veryl_verif) with VERYL_VERIF_SOCK; a process sleeping in flock(2) is recognised through the `->` lines of /proc/locks, never through elapsed time; watchdogs only ever give 'inconclusive' (skip)");
    ctx.assume("reference = the same command alone on the same sources with .build and emitted files removed (and, for the two-project cases, a cold user cache for the first reference); compared: exit status, diagnostics multiset, emitted files at the end; a sequential incremental run that already differs from clean is C04's domain (skipped)");
    ctx.assume("a process started while another has .build/info.toml half written reads a partial info.toml before it takes the .build lock; Metadata::load ignores that failure by design and info.toml is not in the property's list of shared files: counted (coverage.processes_started_while_info_toml_half_written), not a violation");
    ctx.assume("language-server clause: the build is held at a generated point (all locks it has taken stay held); the server must complete initialize + didOpen (progress end, then diagnostics) meanwhile; a server found sleeping in flock(2) is a violation, no final answer within the watchdog is inconclusive");
    ctx.finish(
        "exploration",
        "same-project: generated vproj project (1-3 files, incremental on/off) in state cold | built | built+edit, 2-3 of build/check; two-projects: two tiny std-enabled projects, one cold user cache, only std: points steered; build-ls: build held at a generated point index, veryl-ls opens a generated file; stress: 3-6 unsteered commands.  Schedule = generated (ready process, run length) list.  Non-trivial = a process was released while another was paused in the middle of its command (two-projects: while the other was inside its expansion window, or any mid-command switch in the cases that exclude the listed race; build-ls: the build holds .build/lock); distinct by project + commands + schedule trace",
    );
}
