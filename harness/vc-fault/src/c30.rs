//! C30 — under construction.
use vcore::Ctx;

pub fn run(_ctx: &Ctx) {
    println!("INCONCLUSIVE property=C30: check not implemented");
    std::process::exit(2);
}
