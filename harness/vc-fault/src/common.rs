//! Shared by C05 and C30: running the real `veryl` with the verification hook
//! environment, result records, the "equals a clean build" comparison.

use std::collections::BTreeMap;
use std::path::{Path, PathBuf};
use std::time::Duration;
use vcore::util::run_cmd;
use vproj::cli::{CliResult, Diag, OutTree, Workspace, is_output_name, parse_diags};

#[derive(Clone, Copy, PartialEq, Eq, Hash, PartialOrd, Ord, Debug)]
pub enum Cmd {
    Build,
    Check,
    Test,
}

impl Cmd {
    pub fn args(&self) -> Vec<&'static str> {
        match self {
            Cmd::Build => vec!["build"],
            Cmd::Check => vec!["check"],
            Cmd::Test => vec!["test", "--backend", "interpret"],
        }
    }
    pub fn name(&self) -> &'static str {
        match self {
            Cmd::Build => "build",
            Cmd::Check => "check",
            Cmd::Test => "test",
        }
    }
}

/// Added to a counting run: with a crash index that is never reached the
/// process passes exactly the points a crashing run passes (two hooks only
/// split their write in two when crash or socket mode is on).
pub const COUNTING: (&str, &str) = ("VERYL_VERIF_CRASH_AT", "4000000000");

pub fn seq_name(seq: &[Cmd]) -> String {
    seq.iter().map(|c| c.name()).collect::<Vec<_>>().join("+")
}

/// One instrumented point as logged by `VERYL_VERIF_LOG`.
#[derive(Clone, Debug, PartialEq, Eq)]
pub struct Point {
    pub pid: u32,
    pub index: usize,
    pub name: String,
    pub path: String,
}

pub fn parse_points(text: &str) -> Vec<Point> {
    text.lines()
        .filter_map(|l| {
            let mut it = l.splitn(4, '\t');
            Some(Point {
                pid: it.next()?.parse().ok()?,
                index: it.next()?.parse().ok()?,
                name: it.next()?.to_string(),
                path: it.next().unwrap_or("").to_string(),
            })
        })
        .collect()
}

/// Run `veryl <args>` at an explicit project root / cache dir with extra
/// environment.  Same isolation environment as `Workspace::veryl`.
pub fn veryl_at(
    bin: &Path,
    root: &Path,
    xdg: &Path,
    args: &[&str],
    extra: &[(&str, &str)],
    timeout: Duration,
) -> CliResult {
    let xdg_s = xdg.to_string_lossy().into_owned();
    // veryl stages bundle targets in a TempDir; a crashed process leaves it
    // behind, so keep it inside the scratch directory
    let tmp_s = tmp_dir_for(xdg);
    let mut env: Vec<(&str, &str)> = vec![
        ("XDG_CACHE_HOME", xdg_s.as_str()),
        ("TMPDIR", tmp_s.as_str()),
        ("NO_GRAPHICS", "1"),
        ("NO_COLOR", "1"),
        ("RUST_BACKTRACE", "0"),
    ];
    env.extend_from_slice(extra);
    let o = run_cmd(&bin.to_string_lossy(), args, root, &env, timeout);
    let root_s = root.to_string_lossy().into_owned();
    let panicked = o.stderr.contains("panicked at") || o.code == Some(101);
    CliResult {
        args: args.iter().map(|s| s.to_string()).collect(),
        code: o.code,
        timed_out: o.timed_out,
        signal: o.signal,
        panicked,
        diags: parse_diags(&o.stderr, &root_s),
        restored: None,
        stdout: o.stdout,
        stderr: o.stderr,
    }
}

/// `<scratch>/tmp` next to the cache directory (created).
pub fn tmp_dir_for(xdg: &Path) -> String {
    let t = xdg.parent().unwrap_or(xdg).join("tmp");
    let _ = std::fs::create_dir_all(&t);
    t.to_string_lossy().into_owned()
}

/// `ws.veryl` with extra environment (journalled like the original).
pub fn veryl_env(ws: &Workspace, args: &[&str], extra: &[(&str, &str)]) -> CliResult {
    let envs: String = extra.iter().map(|(k, v)| format!("{k}={v} ")).collect();
    ws.log(&format!("{envs}$VERYL {}; echo \"exit=$?\"", args.join(" ")));
    veryl_at(&ws.bin, &ws.root, &ws.xdg, args, extra, ws.timeout)
}

#[derive(Clone, Debug)]
pub struct CmdRes {
    pub name: &'static str,
    pub code: Option<i32>,
    pub signal: Option<i32>,
    pub panicked: bool,
    pub timed_out: bool,
    pub diags: Vec<Diag>,
    pub panic_line: String,
    pub tail: String,
}

impl CmdRes {
    pub fn of(name: &'static str, r: &CliResult) -> CmdRes {
        CmdRes {
            name,
            code: r.code,
            signal: r.signal,
            panicked: r.panicked,
            timed_out: r.timed_out,
            diags: r.diag_multiset(),
            panic_line: r.panic_line(),
            tail: r.tail(14),
        }
    }
    pub fn diag_lines(&self) -> Vec<String> {
        self.diags.iter().map(|d| d.short()).collect()
    }
    /// died in a way a user would call a crash
    pub fn crashed(&self) -> bool {
        !self.timed_out && (self.panicked || self.signal.is_some() || self.code == Some(101))
    }
}

/// Results of a command sequence: per command status + diagnostics, and the
/// emitted files left at the end.
#[derive(Clone, Debug)]
pub struct SeqRes {
    pub cmds: Vec<CmdRes>,
    pub outputs: OutTree,
}

impl SeqRes {
    pub fn timed_out(&self) -> bool {
        self.cmds.iter().any(|c| c.timed_out)
    }
    pub fn all_ok(&self) -> bool {
        self.cmds.iter().all(|c| match c.name {
            // `check` exits 1 on warnings; only errors make it unsuccessful
            // (its final "veryl check failed" line is an error record without a code)
            "check" => !c.crashed() && !c.diags.iter().any(|d| d.severity == "error" && !d.code.is_empty()),
            _ => c.code == Some(0),
        })
    }
    pub fn brief(&self) -> String {
        self.cmds
            .iter()
            .map(|c| format!("{}:exit={:?},diags={}", c.name, c.code, c.diags.len()))
            .collect::<Vec<_>>()
            .join(" ")
    }
}

pub fn run_seq(ws: &Workspace, seq: &[Cmd]) -> SeqRes {
    let mut cmds = vec![];
    for c in seq {
        let r = veryl_env(ws, &c.args(), &[]);
        cmds.push(CmdRes::of(c.name(), &r));
    }
    SeqRes {
        cmds,
        outputs: ws.outputs(),
    }
}

/// Remove `.build` and every emitted file: what is left is "the sources".
pub fn strip_to_sources(ws: &Workspace) {
    let _ = std::fs::remove_dir_all(ws.root.join(".build"));
    for k in ws.outputs().keys() {
        let _ = std::fs::remove_file(ws.root.join(k));
    }
    // emitted std / dependency outputs
    ws.log("rm -rf .build; find . -name '*.sv' -o -name '*.sv.map' -o -name '*.f' -o -name '*.list.rb' | xargs rm -f");
}

/// A difference between a faulted / concurrent run and the clean run.
#[derive(Clone, Debug)]
pub struct Mismatch {
    /// root-cause class: `recovery-panics@<loc>`, `exit-status`, `diagnostics-lost`,
    /// `diagnostics-differ`, `truncated-output-kept`, `output-missing`,
    /// `output-differs`, `extra-output`
    pub what: String,
    pub detail: String,
    /// emitted files that are truncated versions of the clean ones
    pub truncated: Vec<String>,
}

fn is_strict_prefix(a: &[u8], b: &[u8]) -> bool {
    a.len() < b.len() && b.starts_with(a)
}

/// Compare `got` with the clean result.  Files of `got` that the clean run does
/// not have are only reported when they are not in `tolerated_extra` either
/// (stale outputs of deleted sources are legitimately left by incremental builds).
pub fn compare(got: &SeqRes, clean: &SeqRes, tolerated_extra: Option<&OutTree>) -> Option<Mismatch> {
    for (g, c) in got.cmds.iter().zip(clean.cmds.iter()) {
        if g.crashed() && !c.crashed() {
            let loc = if g.panic_line.is_empty() {
                format!("signal {:?}", g.signal)
            } else {
                g.panic_line.split(':').take(2).collect::<Vec<_>>().join(":")
            };
            return Some(Mismatch {
                what: format!("recovery-panics@{}", loc.rsplit("crates/").next().unwrap_or(&loc)),
                detail: format!("veryl {} died: exit {:?} signal {:?} {}\nstderr tail:\n{}", g.name, g.code, g.signal, g.panic_line, g.tail),
                truncated: vec![],
            });
        }
        if g.code != c.code {
            return Some(Mismatch {
                what: format!("exit-status/{}", g.name),
                detail: format!(
                    "veryl {} exits {:?}, the clean run {:?}\ndiagnostics: {:#?}\nclean diagnostics: {:#?}\nstderr tail:\n{}",
                    g.name,
                    g.code,
                    c.code,
                    g.diag_lines(),
                    c.diag_lines(),
                    g.tail
                ),
                truncated: vec![],
            });
        }
        if g.diags != c.diags {
            let only_clean: Vec<String> = c.diags.iter().filter(|x| !g.diags.contains(x)).map(|x| x.short()).collect();
            let only_got: Vec<String> = g.diags.iter().filter(|x| !c.diags.contains(x)).map(|x| x.short()).collect();
            let what = if only_got.is_empty() && g.diags.len() < c.diags.len() {
                "diagnostics-lost"
            } else {
                "diagnostics-differ"
            };
            return Some(Mismatch {
                what: format!("{what}/{}", g.name),
                detail: format!("veryl {}: only in the clean run: {only_clean:#?}\nonly in this run: {only_got:#?}", g.name),
                truncated: vec![],
            });
        }
    }
    let mut lines = vec![];
    let mut truncated = vec![];
    let rank = |w: &str| match w {
        "truncated-output-kept" => 4,
        "output-differs" => 3,
        "output-missing" => 2,
        _ => 1,
    };
    let bump = |w: &'static str, what: &mut Option<&'static str>| {
        if what.is_none_or(|x| rank(x) < rank(w)) {
            *what = Some(w);
        }
    };
    let mut what_s: Option<&'static str> = None;
    for (k, v) in &clean.outputs {
        match got.outputs.get(k) {
            None => {
                lines.push(format!("{k}: missing"));
                bump("output-missing", &mut what_s);
            }
            Some(w) if w != v => {
                if is_strict_prefix(w, v) {
                    lines.push(format!("{k}: {} of {} bytes (a prefix of the clean file)", w.len(), v.len()));
                    truncated.push(k.clone());
                    bump("truncated-output-kept", &mut what_s);
                } else {
                    let (x, y) = (String::from_utf8_lossy(w), String::from_utf8_lossy(v));
                    let first = x
                        .lines()
                        .zip(y.lines())
                        .enumerate()
                        .find(|(_, (l, r))| l != r)
                        .map(|(n, (l, r))| format!("line {}: {l:?} / clean {r:?}", n + 1))
                        .unwrap_or_else(|| format!("lengths {} / {}", w.len(), v.len()));
                    lines.push(format!("{k}: differs, {first}"));
                    bump("output-differs", &mut what_s);
                }
            }
            _ => {}
        }
    }
    for k in got.outputs.keys() {
        if !clean.outputs.contains_key(k) && tolerated_extra.is_none_or(|t| !t.contains_key(k)) {
            lines.push(format!("{k}: not produced by the clean run"));
            bump("extra-output", &mut what_s);
        }
    }
    what_s.map(|w| Mismatch {
        what: w.to_string(),
        detail: lines.join("\n"),
        truncated,
    })
}

/// Every regular file below `dir` (relative to `base`), sorted.
pub fn list_files(base: &Path, dir: &Path) -> Vec<String> {
    vcore::util::read_tree(dir)
        .into_keys()
        .map(|k| {
            let p: PathBuf = dir.join(&k);
            p.strip_prefix(base).unwrap_or(&p).to_string_lossy().into_owned()
        })
        .collect()
}

pub fn outputs_of(root: &Path) -> OutTree {
    vcore::util::read_tree(root)
        .into_iter()
        .filter(|(k, _)| !k.starts_with(".build/") && is_output_name(k))
        .collect()
}

/// Source files (everything outside `.build` that is not an emitted file).
pub fn sources_of(root: &Path) -> BTreeMap<String, Vec<u8>> {
    vcore::util::read_tree(root)
        .into_iter()
        .filter(|(k, _)| !k.starts_with(".build/") && !is_output_name(k) && k != "Veryl.lock")
        .collect()
}
