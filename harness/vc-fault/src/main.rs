mod c05;
mod c05std;
mod c30;
mod common;
mod lsmini;
mod sched;

fn main() {
    let args: Vec<String> = std::env::args().skip(1).collect();
    let id = args.first().cloned().unwrap_or_default();
    vcore::quiet_panics();
    let ctx = vcore::Ctx::new(&id, &args[1.min(args.len())..]);
    match id.as_str() {
        "C05" => c05::run(&ctx),
        "C30" => c30::run(&ctx),
        _ => {
            eprintln!("unknown property id {id:?}");
            std::process::exit(2);
        }
    }
}
