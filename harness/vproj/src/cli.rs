//! Workspace on disk + driver of the real `veryl` binary.
//!
//! Layout of a workspace (all under one `Scratch`, i.e. under /verif/.work):
//!   <scratch>/w/<project name>/   the project (always at this path when a
//!                                 command runs: cache entries, build info and
//!                                 absolute filelists contain absolute paths)
//!   <scratch>/xdg/                XDG_CACHE_HOME of every command (std cache)
//!   <scratch>/slot-<name>/        saved states (`cp -a`, mtimes kept)

use std::cell::RefCell;
use std::collections::BTreeMap;
use std::path::{Path, PathBuf};
use std::time::{Duration, SystemTime};
use vcore::util::{CmdOut, Scratch, run_cmd};

#[derive(Clone, Debug, PartialEq, Eq, PartialOrd, Ord)]
pub struct Span {
    pub line: u32,
    pub col_from: u32,
    pub col_to: u32,
}

/// One diagnostic of the narratable (NO_GRAPHICS=1) report.
#[derive(Clone, Debug, PartialEq, Eq, PartialOrd, Ord)]
pub struct Diag {
    /// `error` / `warning` / `advice`
    pub severity: String,
    /// `diagnostic code:` line, empty if none
    pub code: String,
    pub message: String,
    /// file of the snippet, with the project root replaced by `<ROOT>`
    pub file: String,
    pub spans: Vec<Span>,
}

impl Diag {
    pub fn short(&self) -> String {
        let sp: Vec<String> = self
            .spans
            .iter()
            .map(|s| format!("{}:{}-{}", s.line, s.col_from, s.col_to))
            .collect();
        format!(
            "{} [{}] {:?} @ {} {}",
            self.severity,
            self.code,
            self.message,
            self.file,
            sp.join(",")
        )
    }
}

#[derive(Clone, Debug)]
pub struct CliResult {
    pub args: Vec<String>,
    pub code: Option<i32>,
    pub timed_out: bool,
    pub signal: Option<i32>,
    /// a Rust panic message was printed (or exit code 101)
    pub panicked: bool,
    pub diags: Vec<Diag>,
    /// `Restored k/n files from cache` (INFO log line), if printed
    pub restored: Option<(usize, usize)>,
    pub stdout: String,
    pub stderr: String,
}

impl CliResult {
    pub fn ok(&self) -> bool {
        self.code == Some(0)
    }
    pub fn errors(&self) -> Vec<&Diag> {
        self.diags.iter().filter(|d| d.severity == "error" && !d.code.is_empty()).collect()
    }
    pub fn warnings(&self) -> Vec<&Diag> {
        self.diags.iter().filter(|d| d.severity == "warning").collect()
    }
    /// sorted copy (multiset comparison)
    pub fn diag_multiset(&self) -> Vec<Diag> {
        let mut v = self.diags.clone();
        v.sort();
        v
    }
    /// `file:line: message` of a Rust panic printed by the command, if any.
    pub fn panic_line(&self) -> String {
        let mut it = self.stderr.lines();
        while let Some(l) = it.next() {
            if let Some(p) = l.find("panicked at ") {
                let loc = l[p + 12..].trim_end_matches(':').to_string();
                let msg: String = it.next().unwrap_or("").chars().take(80).collect();
                return format!("{loc}: {msg}");
            }
        }
        String::new()
    }
    pub fn tail(&self, n: usize) -> String {
        let t: Vec<&str> = self.stderr.lines().collect();
        t[t.len().saturating_sub(n)..].join("\n")
    }
}

fn parse_label(line: &str) -> Option<Span> {
    // "label at line 4, columns 9 to 18: text" | "label at line 2, column 17: text"
    // "label starting at line L, column C: .." | "label ending at line L, column C: .."
    let t = line.trim_start();
    let rest = t
        .strip_prefix("label at line ")
        .or_else(|| t.strip_prefix("label starting at line "))
        .or_else(|| t.strip_prefix("label ending at line "))?;
    let (line_no, rest) = rest.split_once(", ")?;
    let line_no: u32 = line_no.trim().parse().ok()?;
    let head = rest.split(':').next()?;
    if let Some(c) = head.strip_prefix("columns ") {
        let (a, b) = c.split_once(" to ")?;
        Some(Span {
            line: line_no,
            col_from: a.trim().parse().ok()?,
            col_to: b.trim().parse().ok()?,
        })
    } else if let Some(c) = head.strip_prefix("column ") {
        let a: u32 = c.trim().parse().ok()?;
        Some(Span {
            line: line_no,
            col_from: a,
            col_to: a,
        })
    } else {
        None
    }
}

/// Parse miette's narratable report(s) out of the CLI's stderr.  Log lines
/// (`[INFO ] …`) are ignored.  `root` is replaced by `<ROOT>` in file names.
pub fn parse_diags(stderr: &str, root: &str) -> Vec<Diag> {
    let lines: Vec<&str> = stderr.lines().collect();
    let is_log = |l: &str| {
        l.starts_with("[INFO ]")
            || l.starts_with("[DEBUG]")
            || l.starts_with("[WARN ]")
            || l.starts_with("[ERROR]")
            || l.starts_with("[TRACE]")
    };
    // a diagnostic starts at the line before "    Diagnostic severity: x"
    let mut starts: Vec<(usize, usize)> = vec![]; // (header line, severity line)
    for (i, l) in lines.iter().enumerate() {
        if l.trim_start().starts_with("Diagnostic severity:") && l.starts_with(' ') {
            // header: nearest previous line starting with a severity word
            // (messages may span lines), not reaching into the previous block
            let floor = starts.last().map(|(_, s)| *s + 1).unwrap_or(0);
            let mut h = i.saturating_sub(1);
            let mut found = None;
            loop {
                let x = lines[h];
                if x.starts_with("Error: ") || x.starts_with("Warning: ") || x.starts_with("Advice: ") {
                    found = Some(h);
                    break;
                }
                if h <= floor || i - h > 40 {
                    break;
                }
                h -= 1;
            }
            starts.push((found.unwrap_or(i.saturating_sub(1)), i));
        }
    }
    let mut out = vec![];
    for (n, (h, s)) in starts.iter().enumerate() {
        let end = starts.get(n + 1).map(|x| x.0).unwrap_or(lines.len());
        let header = lines[*h..*s].join("\n");
        let message = header
            .strip_prefix("Error: ")
            .or_else(|| header.strip_prefix("Warning: "))
            .or_else(|| header.strip_prefix("Advice: "))
            .unwrap_or(&header)
            .to_string();
        let severity = lines[*s]
            .trim()
            .strip_prefix("Diagnostic severity:")
            .unwrap_or("")
            .trim()
            .to_string();
        let mut dg = Diag {
            severity,
            code: String::new(),
            message,
            file: String::new(),
            spans: vec![],
        };
        for l in &lines[*s + 1..end] {
            if is_log(l) {
                continue;
            }
            if let Some(r) = l.strip_prefix("Begin snippet for ") {
                if dg.file.is_empty()
                    && let Some((f, _)) = r.rsplit_once(" starting at line ")
                {
                    dg.file = f.replace(root, "<ROOT>");
                }
            } else if l.trim_start().starts_with("label ") {
                if let Some(sp) = parse_label(l) {
                    dg.spans.push(sp);
                }
            } else if let Some(c) = l.strip_prefix("diagnostic code: ") {
                dg.code = c.trim().to_string();
            }
        }
        dg.message = dg.message.replace(root, "<ROOT>");
        dg.spans.sort();
        out.push(dg);
    }
    out
}

fn parse_restored(stderr: &str) -> Option<(usize, usize)> {
    for l in stderr.lines() {
        if let Some(p) = l.find("Restored ")
            && l.contains("files from cache")
        {
            let r = &l[p + 9..];
            let frac = r.split_whitespace().next()?;
            let (a, b) = frac.split_once('/')?;
            return Some((a.parse().ok()?, b.parse().ok()?));
        }
    }
    None
}

/// Emitted files of a project tree: relative path → bytes.
pub type OutTree = BTreeMap<String, Vec<u8>>;

pub fn is_output_name(rel: &str) -> bool {
    rel.ends_with(".sv") || rel.ends_with(".sv.map") || rel.ends_with(".f") || rel.ends_with(".list.rb")
}

/// Replace every occurrence of the absolute root path by `<ROOT>` (for
/// comparing trees that live at different paths).
pub fn normalise_root(t: &OutTree, root: &str) -> OutTree {
    t.iter()
        .map(|(k, v)| {
            let s = String::from_utf8_lossy(v);
            if s.contains(root) {
                (k.clone(), s.replace(root, "<ROOT>").into_bytes())
            } else {
                (k.clone(), v.clone())
            }
        })
        .collect()
}

/// Human-readable difference of two output trees (None = equal).
pub fn diff_trees(a: &OutTree, b: &OutTree, an: &str, bn: &str) -> Option<String> {
    let mut msg = String::new();
    for (k, v) in a {
        match b.get(k) {
            None => msg.push_str(&format!("{k}: only in {an}\n")),
            Some(w) if w != v => {
                let (x, y) = (String::from_utf8_lossy(v), String::from_utf8_lossy(w));
                let mut first = String::new();
                for (n, (l, r)) in x.lines().zip(y.lines()).enumerate() {
                    if l != r {
                        first = format!("line {}: {an}: {l:?} / {bn}: {r:?}", n + 1);
                        break;
                    }
                }
                if first.is_empty() {
                    first = format!("lengths {} / {}", v.len(), w.len());
                }
                msg.push_str(&format!("{k}: differs, {first}\n"));
            }
            _ => {}
        }
    }
    for k in b.keys() {
        if !a.contains_key(k) {
            msg.push_str(&format!("{k}: only in {bn}\n"));
        }
    }
    if msg.is_empty() { None } else { Some(msg) }
}

pub struct Workspace {
    pub scratch: Scratch,
    pub root: PathBuf,
    pub xdg: PathBuf,
    pub bin: PathBuf,
    /// shell transcript of everything done to the project (reproducer script)
    journal: RefCell<Vec<String>>,
    pub timeout: Duration,
}

fn sh_quote(s: &str) -> String {
    format!("'{}'", s.replace('\'', "'\\''"))
}

impl Workspace {
    pub fn new(tag: &str, project_name: &str) -> Workspace {
        let scratch = Scratch::new(tag);
        let root = scratch.path.join("w").join(project_name);
        std::fs::create_dir_all(&root).expect("mkdir project");
        let xdg = scratch.path.join("xdg");
        std::fs::create_dir_all(&xdg).expect("mkdir xdg");
        let ws = Workspace {
            scratch,
            root,
            xdg,
            bin: vcore::util::repo_bin("veryl"),
            journal: RefCell::new(vec![]),
            timeout: Duration::from_secs(300),
        };
        ws.log("#!/bin/bash\n# reproducer: run in an empty directory; VERYL=path of the veryl binary\nset -u\nR=$PWD\nexport XDG_CACHE_HOME=$R/xdg NO_GRAPHICS=1\nVERYL=${VERYL:-veryl}");
        ws.log(&format!("mkdir -p $R/w/{project_name} $R/xdg; cd $R/w/{project_name}"));
        ws
    }

    pub fn root_str(&self) -> String {
        self.root.to_string_lossy().into_owned()
    }

    pub fn log(&self, line: &str) {
        self.journal.borrow_mut().push(line.to_string());
    }

    /// The shell transcript so far.
    pub fn script(&self) -> String {
        self.journal.borrow().join("\n") + "\n"
    }

    pub fn path(&self, rel: &str) -> PathBuf {
        self.root.join(rel)
    }

    // ------------------------------------------------------------ file ops

    /// Write a file; its mtime is set to the (fine-grained) current time, so
    /// that "edited after the last build" never depends on the coarse clock
    /// the kernel uses for mtimes.
    pub fn write(&self, rel: &str, text: &str) {
        let p = self.path(rel);
        vcore::util::write_file(&p, text);
        self.set_mtime(rel, SystemTime::now(), false);
        self.log(&format!(
            "mkdir -p $(dirname {r}); cat > {r} <<'VERIF_EOF'\n{text}VERIF_EOF",
            r = sh_quote(rel)
        ));
    }

    /// Write a file and give it an mtime in the past (2020-01-01 + `k` s).
    pub fn write_older(&self, rel: &str, text: &str, k: u64) {
        let p = self.path(rel);
        vcore::util::write_file(&p, text);
        let t = SystemTime::UNIX_EPOCH + Duration::from_secs(1_577_836_800 + k);
        self.set_mtime(rel, t, false);
        self.log(&format!(
            "mkdir -p $(dirname {r}); cat > {r} <<'VERIF_EOF'\n{text}VERIF_EOF\ntouch -d @{} {r}",
            1_577_836_800 + k,
            r = sh_quote(rel)
        ));
    }

    pub fn set_mtime(&self, rel: &str, t: SystemTime, journal: bool) {
        if let Ok(f) = std::fs::OpenOptions::new().write(true).open(self.path(rel)) {
            let _ = f.set_modified(t);
        }
        if journal {
            let s = t.duration_since(SystemTime::UNIX_EPOCH).map(|d| d.as_secs()).unwrap_or(0);
            self.log(&format!("touch -d @{s} {}", sh_quote(rel)));
        }
    }

    pub fn touch(&self, rel: &str) {
        self.set_mtime(rel, SystemTime::now(), false);
        self.log(&format!("touch {}", sh_quote(rel)));
    }

    pub fn remove(&self, rel: &str) {
        let _ = std::fs::remove_file(self.path(rel));
        self.log(&format!("rm -f {}", sh_quote(rel)));
    }

    /// `mv` (mtime and content preserved).
    pub fn rename(&self, from: &str, to: &str) {
        let t = self.path(to);
        if let Some(d) = t.parent() {
            let _ = std::fs::create_dir_all(d);
        }
        let _ = std::fs::rename(self.path(from), &t);
        self.log(&format!(
            "mkdir -p $(dirname {t}); mv {f} {t}",
            f = sh_quote(from),
            t = sh_quote(to)
        ));
    }

    pub fn read(&self, rel: &str) -> Option<String> {
        std::fs::read_to_string(self.path(rel)).ok()
    }

    pub fn exists(&self, rel: &str) -> bool {
        self.path(rel).exists()
    }

    /// Append text to a file (hand edit of an output); mtime = now.
    pub fn append(&self, rel: &str, text: &str) {
        let mut s = self.read(rel).unwrap_or_default();
        s.push_str(text);
        let _ = std::fs::write(self.path(rel), &s);
        self.set_mtime(rel, SystemTime::now(), false);
        self.log(&format!("printf '%s' {} >> {}", sh_quote(text), sh_quote(rel)));
    }

    // --------------------------------------------------------------- state

    fn slot(&self, name: &str) -> PathBuf {
        self.scratch.path.join(format!("slot-{name}"))
    }

    /// Save the whole project directory (sources, outputs, `.build`) with
    /// mtimes (`cp -a`).  An existing slot of that name is replaced.
    pub fn save_state(&self, name: &str) {
        let s = self.slot(name);
        let _ = std::fs::remove_dir_all(&s);
        vcore::util::copy_tree(&self.root, &s);
        self.log(&format!("rm -rf $R/slot-{name}; cp -a . $R/slot-{name}"));
    }

    /// Put a saved state back at the project path.  `consume` moves the slot
    /// (cheap), otherwise it is copied and stays available.
    pub fn restore_state(&self, name: &str, consume: bool) {
        let s = self.slot(name);
        let _ = std::fs::remove_dir_all(&self.root);
        if consume {
            std::fs::rename(&s, &self.root).expect("restore slot");
        } else {
            vcore::util::copy_tree(&s, &self.root);
        }
        let prj = self.root.file_name().unwrap().to_string_lossy().into_owned();
        self.log(&format!(
            "cd $R; rm -rf w/{prj}; {} $R/slot-{name} w/{prj}; cd w/{prj}",
            if consume { "mv" } else { "cp -a" }
        ));
    }

    /// Remove the fragment cache (`.build/cache`): the next command runs on a
    /// fresh cache.  `.build/info.toml` stays.
    pub fn drop_cache(&self) {
        let _ = std::fs::remove_dir_all(self.root.join(".build").join("cache"));
        self.log("rm -rf .build/cache");
    }

    /// Emitted files currently in the project tree (everything outside
    /// `.build` named `*.sv`, `*.sv.map`, `*.f`, `*.list.rb`).
    pub fn outputs(&self) -> OutTree {
        vcore::util::read_tree(&self.root)
            .into_iter()
            .filter(|(k, _)| !k.starts_with(".build/") && is_output_name(k))
            .collect()
    }

    /// Every regular file of the project except `.build` (for "changes no file").
    pub fn all_files(&self) -> OutTree {
        vcore::util::read_tree(&self.root)
            .into_iter()
            .filter(|(k, _)| !k.starts_with(".build/"))
            .collect()
    }

    // ----------------------------------------------------------------- CLI

    /// Run `veryl <args>` in the project directory with the isolation
    /// environment (XDG_CACHE_HOME, NO_GRAPHICS=1).
    pub fn veryl(&self, args: &[&str]) -> CliResult {
        let xdg = self.xdg.to_string_lossy().into_owned();
        let env = [
            ("XDG_CACHE_HOME", xdg.as_str()),
            ("NO_GRAPHICS", "1"),
            ("NO_COLOR", "1"),
            ("RUST_BACKTRACE", "0"),
        ];
        self.log(&format!("$VERYL {}; echo \"exit=$?\"", args.join(" ")));
        let o: CmdOut = run_cmd(&self.bin.to_string_lossy(), args, &self.root, &env, self.timeout);
        let root = self.root_str();
        let panicked = o.stderr.contains("panicked at") || o.code == Some(101);
        CliResult {
            args: args.iter().map(|s| s.to_string()).collect(),
            code: o.code,
            timed_out: o.timed_out,
            signal: o.signal,
            panicked,
            diags: parse_diags(&o.stderr, &root),
            restored: parse_restored(&o.stderr),
            stdout: o.stdout,
            stderr: o.stderr,
        }
    }
}

/// Where an output tree shows a file written (new or changed bytes).
pub fn changed_files(before: &OutTree, after: &OutTree) -> Vec<String> {
    let mut v = vec![];
    for (k, a) in after {
        if before.get(k) != Some(a) {
            v.push(k.clone());
        }
    }
    for k in before.keys() {
        if !after.contains_key(k) {
            v.push(format!("{k} (removed)"));
        }
    }
    v
}

pub fn rel_of(root: &Path, p: &Path) -> String {
    p.strip_prefix(root).unwrap_or(p).to_string_lossy().into_owned()
}
