//! Edit operations on a project (model + disk).
//!
//! The `Editor` remembers the text it last wrote for every source file.  An
//! operation changes the model and then writes either every file whose
//! rendering changed (*consistent* edit) or only the file that holds the edited
//! definition (*inconsistent* edit: the users keep their old text on disk and
//! usually no longer analyse; `SyncAll` brings them up to date later).

use crate::cli::Workspace;
use crate::genp::{GenOpts, draw_file_name, draw_module, draw_package, draw_test, draw_use};
use crate::model::*;
use crate::toml::TomlEdit;
use std::collections::BTreeMap;
use vcore::Draw;

#[derive(Clone, Debug, PartialEq)]
pub enum OutKind {
    Sv,
    Map,
    Filelist,
}

#[derive(Clone, Debug, PartialEq)]
pub enum EditOp {
    /// behaviour-changing edit inside one item (module constant/operator, package function)
    ChangeBody { item: ItemId },
    ChangeConst { pkg: ItemId, idx: usize },
    /// set a literal constant to a given value (only the package's file changes)
    SetConst { pkg: ItemId, idx: usize, val: u32 },
    /// remove the last input port again (definer only; users are not rewritten)
    RemovePort { module: ItemId },
    RenameConst { pkg: ItemId, idx: usize, consistent: bool },
    RenamePort { module: ItemId, consistent: bool },
    RenameParam { module: ItemId, consistent: bool },
    AddPort { module: ItemId, with_default: bool, consistent: bool },
    ChangePortDefault { module: ItemId },
    ChangeGenericArg { module: ItemId, use_idx: usize },
    AddUse { module: ItemId },
    AddFile { package: bool },
    DeleteFile { file: usize },
    RestoreFile { file: usize },
    /// `mv` (content and mtime preserved)
    RenameFile { file: usize, to: String },
    /// replace by a changed version whose mtime is in the past
    ReplaceOlder { file: usize },
    TouchSource { file: usize },
    InjectWarning { module: ItemId, inj: Inject },
    RemoveWarning { module: ItemId },
    InjectError { module: ItemId, inj: Inject },
    InjectSyntaxError { file: usize },
    RemoveError,
    SyncAll,
    DeleteOutput { rel: String, kind: OutKind },
    EditOutput { rel: String },
    TouchOutput { rel: String },
    Toml(TomlEdit),
    /// re-render one file with irregular / regular layout
    ToggleLoose { file: usize },
}

#[derive(Clone, Debug, Default)]
pub struct Applied {
    pub classes: Vec<&'static str>,
    pub desc: String,
    /// source files written / removed / moved by this operation
    pub touched: Vec<String>,
}

/// Which operations `draw` may produce.
#[derive(Clone, Debug)]
pub struct EditPolicy {
    pub output_delete: bool,
    pub output_edit: bool,
    pub output_touch: bool,
    pub toml: bool,
    /// entering/leaving targets etc. is part of `toml`; this gates `Defines`
    pub defines: bool,
    pub loose: bool,
    /// weight of operations that change which generic instances exist
    pub generic_ops: u32,
    pub errors: bool,
    pub gen_opts: GenOpts,
}

impl Default for EditPolicy {
    fn default() -> Self {
        EditPolicy {
            output_delete: true,
            output_edit: false,
            output_touch: true,
            toml: true,
            defines: true,
            loose: false,
            generic_ops: 1,
            errors: true,
            gen_opts: GenOpts::default(),
        }
    }
}

pub struct Editor {
    /// text last written per live source file (rel → text)
    pub disk: BTreeMap<String, String>,
    older_seq: u64,
}

impl Editor {
    /// Write the whole project (Veryl.toml + sources) and remember it.
    pub fn create(p: &Project, ws: &Workspace) -> Editor {
        let mut e = Editor {
            disk: BTreeMap::new(),
            older_seq: 0,
        };
        ws.write("Veryl.toml", &p.cfg.render());
        for (rel, text) in p.render_all() {
            ws.write(&rel, &text);
            e.disk.insert(rel, text);
        }
        e
    }

    /// Files (indices) whose text on disk is not what the model renders.
    pub fn dirty(&self, p: &Project) -> Vec<usize> {
        p.live_files()
            .into_iter()
            .filter(|fi| self.disk.get(&p.files[*fi].rel) != Some(&p.render_file(*fi)))
            .collect()
    }

    fn flush(&mut self, p: &Project, ws: &Workspace, only: Option<&[usize]>, out: &mut Applied) {
        for fi in p.live_files() {
            if let Some(o) = only
                && !o.contains(&fi)
            {
                continue;
            }
            let rel = p.files[fi].rel.clone();
            let text = p.render_file(fi);
            if self.disk.get(&rel) != Some(&text) {
                ws.write(&rel, &text);
                self.disk.insert(rel.clone(), text);
                out.touched.push(rel);
            }
        }
    }

    fn injected_errors(p: &Project) -> Vec<(ItemId, usize)> {
        let mut v = vec![];
        for m in p.modules() {
            for (n, j) in p.module(m).inj.iter().enumerate() {
                if j.is_error() {
                    v.push((m, n));
                }
            }
        }
        v
    }

    pub fn has_injected_error(p: &Project) -> bool {
        !Self::injected_errors(p).is_empty() || p.files.iter().any(|f| f.alive && f.syntax_err.is_some())
    }

    fn placed_modules(p: &Project) -> Vec<ItemId> {
        p.modules().into_iter().filter(|m| p.file_of(*m).is_some()).collect()
    }

    /// Draw one operation that is applicable in the current state.
    pub fn draw(&self, d: &mut Draw, p: &Project, ws: &Workspace, pol: &EditPolicy) -> EditOp {
        let mods = Self::placed_modules(p);
        let files = p.live_files();
        let consts: Vec<(ItemId, usize)> = p
            .all_consts()
            .into_iter()
            .filter(|(q, _)| p.file_of(*q).is_some())
            .collect();
        let dirty = !self.dirty(p).is_empty();
        let dead: Vec<usize> = (0..p.files.len())
            .filter(|i| !p.files[*i].alive && !p.files[*i].items.is_empty() && p.files[*i].items.iter().all(|it| p.items[*it].alive))
            .collect();
        let err = Self::has_injected_error(p);
        let warn_mods: Vec<ItemId> = mods
            .iter()
            .copied()
            .filter(|m| p.module(*m).inj.iter().any(|j| !j.is_error()))
            .collect();
        let outs: Vec<String> = ws.outputs().keys().cloned().collect();
        // definitions that files other than their own use: edits of these are
        // what the dependents propagation of the fragment cache is about
        let used_mods: Vec<ItemId> = mods
            .iter()
            .copied()
            .filter(|m| p.users_of(*m).iter().any(|u| p.file_of(*u).is_some() && p.file_of(*u) != p.file_of(*m)))
            .collect();
        let used_consts: Vec<(ItemId, usize)> = consts
            .iter()
            .copied()
            .filter(|(q, _)| p.users_of(*q).iter().any(|u| p.file_of(*u).is_some() && p.file_of(*u) != p.file_of(*q)))
            .collect();
        let pick_mod = |d: &mut Draw, all: &[ItemId]| -> ItemId {
            let pref: Vec<ItemId> = all.iter().copied().filter(|m| used_mods.contains(m)).collect();
            if !pref.is_empty() && d.chance(4, 5) {
                pref[d.below_usize(pref.len())]
            } else {
                all[d.below_usize(all.len())]
            }
        };
        for _ in 0..40 {
            // repairs first when something is broken
            if (err || dirty || !dead.is_empty()) && d.chance(2, 5) {
                if err {
                    return EditOp::RemoveError;
                }
                if !dead.is_empty() && d.chance(1, 2) {
                    return EditOp::RestoreFile { file: dead[0] };
                }
                if dirty {
                    return EditOp::SyncAll;
                }
            }
            let k = d.weighted(&[
                8, // 0 ChangeBody
                3, // 1 ChangeConst
                5, // 2 RenameConst
                4, // 3 RenamePort
                2, // 4 RenameParam
                7, // 5 AddPort
                5, // 6 ChangePortDefault
                pol.generic_ops, // 7 ChangeGenericArg
                3, // 8 AddUse
                4, // 9 AddFile
                4, // 10 DeleteFile
                4, // 11 RenameFile
                4, // 12 ReplaceOlder
                2, // 13 TouchSource
                6, // 14 InjectWarning
                3, // 15 RemoveWarning
                if pol.errors { 6 } else { 0 }, // 16 InjectError
                if pol.errors { 2 } else { 0 }, // 17 InjectSyntaxError
                if pol.output_delete { 3 } else { 0 }, // 18
                if pol.output_edit { 2 } else { 0 },   // 19
                if pol.output_touch { 1 } else { 0 },  // 20
                if pol.toml { 5 } else { 0 },          // 21
                if pol.loose { 3 } else { 0 },         // 22
            ]);
            match k {
                0 => {
                    let c: Vec<ItemId> = p
                        .live_items()
                        .into_iter()
                        .filter(|i| p.file_of(*i).is_some())
                        .filter(|i| match &p.items[*i].kind {
                            ItemKind::Module(_) | ItemKind::Test(_) => true,
                            ItemKind::Package(k) => k.func.is_some() || k.generic,
                            _ => false,
                        })
                        .collect();
                    if !c.is_empty() {
                        return EditOp::ChangeBody {
                            item: c[d.below_usize(c.len())],
                        };
                    }
                }
                1 if !consts.is_empty() => {
                    let (pkg, idx) = consts[d.below_usize(consts.len())];
                    return EditOp::ChangeConst { pkg, idx };
                }
                2 if !consts.is_empty() => {
                    let (pkg, idx) = if !used_consts.is_empty() && d.chance(4, 5) {
                        used_consts[d.below_usize(used_consts.len())]
                    } else {
                        consts[d.below_usize(consts.len())]
                    };
                    return EditOp::RenameConst {
                        pkg,
                        idx,
                        consistent: d.chance(1, 2),
                    };
                }
                3 if !mods.is_empty() => {
                    return EditOp::RenamePort {
                        module: pick_mod(d, &mods),
                        consistent: d.chance(1, 2),
                    };
                }
                4 => {
                    let c: Vec<ItemId> = mods.iter().copied().filter(|m| p.module(*m).param.is_some()).collect();
                    if !c.is_empty() {
                        return EditOp::RenameParam {
                            module: pick_mod(d, &c),
                            consistent: d.chance(1, 2),
                        };
                    }
                }
                5 if !mods.is_empty() => {
                    return EditOp::AddPort {
                        module: pick_mod(d, &mods),
                        with_default: d.chance(1, 2),
                        consistent: d.chance(1, 3),
                    };
                }
                6 => {
                    let c: Vec<ItemId> = mods
                        .iter()
                        .copied()
                        .filter(|m| p.module(*m).ins.iter().any(|x| x.default.is_some()))
                        .collect();
                    if !c.is_empty() {
                        return EditOp::ChangePortDefault {
                            module: pick_mod(d, &c),
                        };
                    }
                }
                7 => {
                    let mut c = vec![];
                    for m in &mods {
                        for (n, u) in p.module(*m).uses.iter().enumerate() {
                            if matches!(&u.kind, UseKind::GenPkg(..) | UseKind::Inst { garg: Some(_), .. }) {
                                c.push((*m, n));
                            }
                        }
                    }
                    if !c.is_empty() {
                        let (module, use_idx) = c[d.below_usize(c.len())];
                        return EditOp::ChangeGenericArg { module, use_idx };
                    }
                }
                8 if !mods.is_empty() => {
                    return EditOp::AddUse {
                        module: mods[d.below_usize(mods.len())],
                    };
                }
                9 => {
                    return EditOp::AddFile {
                        package: d.chance(1, 4),
                    };
                }
                10 if files.len() > 1 => {
                    return EditOp::DeleteFile {
                        file: files[d.below_usize(files.len())],
                    };
                }
                11 if !files.is_empty() => {
                    let file = files[d.below_usize(files.len())];
                    if p.files[file].is_example() {
                        continue;
                    }
                    let to = draw_file_name(d, p, &pol.gen_opts);
                    return EditOp::RenameFile { file, to };
                }
                12 if !files.is_empty() => {
                    // needs an item whose body can change
                    let c: Vec<usize> = files
                        .iter()
                        .copied()
                        .filter(|f| {
                            p.files[*f].items.iter().any(|i| {
                                p.items[*i].alive && matches!(p.items[*i].kind, ItemKind::Module(_) | ItemKind::Test(_))
                            })
                        })
                        .collect();
                    if !c.is_empty() {
                        return EditOp::ReplaceOlder {
                            file: c[d.below_usize(c.len())],
                        };
                    }
                }
                13 if !files.is_empty() => {
                    return EditOp::TouchSource {
                        file: files[d.below_usize(files.len())],
                    };
                }
                14 if !mods.is_empty() => {
                    let module = mods[d.below_usize(mods.len())];
                    let m = p.module(module);
                    let inj = crate::genp::draw_warning(d, m.clocked);
                    return EditOp::InjectWarning { module, inj };
                }
                15 if !warn_mods.is_empty() => {
                    return EditOp::RemoveWarning {
                        module: warn_mods[d.below_usize(warn_mods.len())],
                    };
                }
                16 if !mods.is_empty() && !err => {
                    let module = mods[d.below_usize(mods.len())];
                    let k = 0;
                    let pk = p.packages(false);
                    let inj = match d.weighted(&[3, 2, 2, 2, 2]) {
                        0 => Inject::ErrUndefined(k),
                        1 => Inject::ErrUnknownModule(k),
                        2 if !pk.is_empty() => Inject::ErrUnknownMember(k, pk[d.below_usize(pk.len())]),
                        3 => Inject::ErrTypeMismatch(k),
                        4 => Inject::ErrAssignInput(k),
                        _ => Inject::ErrUndefined(k),
                    };
                    return EditOp::InjectError { module, inj };
                }
                17 if !files.is_empty() && !err => {
                    return EditOp::InjectSyntaxError {
                        file: files[d.below_usize(files.len())],
                    };
                }
                18 if !outs.is_empty() => {
                    let want = [OutKind::Sv, OutKind::Map, OutKind::Filelist][d.weighted(&[5, 2, 1])].clone();
                    let c: Vec<&String> = outs
                        .iter()
                        .filter(|r| match want {
                            OutKind::Sv => r.ends_with(".sv"),
                            OutKind::Map => r.ends_with(".sv.map"),
                            OutKind::Filelist => r.ends_with(".f") || r.ends_with(".list.rb"),
                        })
                        .collect();
                    if !c.is_empty() {
                        return EditOp::DeleteOutput {
                            rel: c[d.below_usize(c.len())].clone(),
                            kind: want,
                        };
                    }
                }
                19 if !outs.is_empty() => {
                    let c: Vec<&String> = outs.iter().filter(|r| r.ends_with(".sv")).collect();
                    if !c.is_empty() {
                        return EditOp::EditOutput {
                            rel: c[d.below_usize(c.len())].clone(),
                        };
                    }
                }
                20 if !outs.is_empty() => {
                    return EditOp::TouchOutput {
                        rel: outs[d.below_usize(outs.len())].clone(),
                    };
                }
                21 => {
                    let e = TomlEdit::draw(d);
                    if e == TomlEdit::Defines && !pol.defines {
                        continue;
                    }
                    return EditOp::Toml(e);
                }
                22 if !files.is_empty() => {
                    return EditOp::ToggleLoose {
                        file: files[d.below_usize(files.len())],
                    };
                }
                _ => {}
            }
        }
        // always applicable
        EditOp::AddFile { package: false }
    }

    /// Apply an operation to the model and to the disk.
    pub fn apply(&mut self, d: &mut Draw, p: &mut Project, ws: &Workspace, op: &EditOp, pol: &EditPolicy) -> Applied {
        let mut a = Applied {
            desc: format!("{op:?}"),
            ..Default::default()
        };
        match op {
            EditOp::ChangeBody { item } => {
                match &mut p.items[*item].kind {
                    ItemKind::Module(m) => {
                        if m.knob % 2 == 0 {
                            m.op = (m.op + 1) % 5;
                        }
                        m.knob += 1;
                    }
                    ItemKind::Package(k) => k.knob += 1,
                    ItemKind::Test(t) => t.knob += 1,
                    _ => {}
                }
                a.classes.push("body_change");
                let f = p.file_of(*item);
                self.flush(p, ws, f.as_ref().map(std::slice::from_ref), &mut a);
            }
            EditOp::ChangeConst { pkg, idx } => {
                let c = &mut p.pkg_mut(*pkg).consts[*idx];
                c.val = match &c.val {
                    ConstVal::Lit(n) => ConstVal::Lit(if *n >= 16 { 2 } else { n + 1 }),
                    ConstVal::Plus(q, k, n) => ConstVal::Plus(*q, *k, (n + 1) % 4),
                };
                a.classes.push("const_value_change");
                self.flush(p, ws, None, &mut a);
            }
            EditOp::SetConst { pkg, idx, val } => {
                p.pkg_mut(*pkg).consts[*idx].val = ConstVal::Lit(*val);
                a.classes.push("const_value_change");
                self.flush(p, ws, None, &mut a);
            }
            EditOp::RemovePort { module } => {
                let m = p.module_mut(*module);
                if m.ins.len() > 1 {
                    m.ins.pop();
                }
                a.classes.push("iface_change");
                a.classes.push("remove_port");
                let f = p.file_of(*module);
                self.flush(p, ws, f.as_ref().map(std::slice::from_ref), &mut a);
            }
            EditOp::RenameConst { pkg, idx, consistent } => {
                let k = p.fresh();
                p.pkg_mut(*pkg).consts[*idx].name = format!("C{k}");
                a.classes.push("iface_change");
                a.classes.push(if *consistent { "rename_member_consistent" } else { "rename_member_definer_only" });
                let f = p.file_of(*pkg);
                self.flush(p, ws, if *consistent { None } else { f.as_ref().map(std::slice::from_ref) }, &mut a);
            }
            EditOp::RenamePort { module, consistent } => {
                let k = p.fresh();
                let m = p.module_mut(*module);
                if let Some(x) = m.ins.first_mut() {
                    x.name = format!("i_{k}");
                }
                a.classes.push("iface_change");
                a.classes.push(if *consistent { "rename_member_consistent" } else { "rename_member_definer_only" });
                let f = p.file_of(*module);
                self.flush(p, ws, if *consistent { None } else { f.as_ref().map(std::slice::from_ref) }, &mut a);
            }
            EditOp::RenameParam { module, consistent } => {
                let k = p.fresh();
                if let Some((n, _)) = &mut p.module_mut(*module).param {
                    *n = format!("P{k}");
                }
                a.classes.push("iface_change");
                a.classes.push(if *consistent { "rename_member_consistent" } else { "rename_member_definer_only" });
                let f = p.file_of(*module);
                self.flush(p, ws, if *consistent { None } else { f.as_ref().map(std::slice::from_ref) }, &mut a);
            }
            EditOp::AddPort {
                module,
                with_default,
                consistent,
            } => {
                let k = p.fresh();
                let m = p.module_mut(*module);
                if m.ins.len() < 4 {
                    m.ins.push(Port {
                        name: format!("i_{k}"),
                        default: if *with_default { Some(PortDefault::Lit(k % 2)) } else { None },
                    });
                }
                a.classes.push("iface_change");
                a.classes.push(if *with_default { "add_port_with_default" } else { "add_port" });
                let f = p.file_of(*module);
                self.flush(p, ws, if *consistent { None } else { f.as_ref().map(std::slice::from_ref) }, &mut a);
            }
            EditOp::ChangePortDefault { module } => {
                let m = p.module_mut(*module);
                for x in m.ins.iter_mut() {
                    if let Some(dv) = &mut x.default {
                        *dv = match dv {
                            PortDefault::Lit(n) => PortDefault::Lit(1 - (*n).min(1)),
                            PortDefault::Const(..) => PortDefault::Lit(1),
                        };
                        break;
                    }
                }
                a.classes.push("iface_change");
                a.classes.push("port_default_change");
                // the users' *text* does not change; their emitted code does
                self.flush(p, ws, None, &mut a);
            }
            EditOp::ChangeGenericArg { module, use_idx } => {
                if let Some(u) = p.module_mut(*module).uses.get_mut(*use_idx) {
                    match &mut u.kind {
                        UseKind::GenPkg(_, n) => *n += 1,
                        UseKind::Inst { garg: Some(g), .. } => {
                            *g = match g {
                                GenArg::Lit(n) => GenArg::Lit(if *n >= 16 { 3 } else { *n + 1 }),
                                GenArg::Const(..) => GenArg::Lit(7),
                            }
                        }
                        _ => {}
                    }
                }
                a.classes.push("generic_arg_change");
                self.flush(p, ws, None, &mut a);
            }
            EditOp::AddUse { module } => {
                let clocked = p.module(*module).clocked;
                if let Some(u) = draw_use(d, p, *module, clocked, &pol.gen_opts) {
                    a.classes.push(match &u.kind {
                        UseKind::Inst { garg: Some(_), .. } | UseKind::GenPkg(..) => "add_generic_use",
                        UseKind::Inst { .. } => "add_inst",
                        _ => "add_use",
                    });
                    p.module_mut(*module).uses.push(u);
                    if p.file_graph_cyclic() {
                        // veryl panics on file-level cycles (see Project::file_graph_cyclic)
                        p.module_mut(*module).uses.pop();
                        a.classes.clear();
                        a.classes.push("edit_rejected_file_cycle");
                    }
                }
                self.flush(p, ws, None, &mut a);
            }
            EditOp::AddFile { package } => {
                let rel = draw_file_name(d, p, &pol.gen_opts);
                let mut items = vec![];
                if *package {
                    items.push(draw_package(d, p, false));
                } else {
                    items.push(draw_module(d, p, &pol.gen_opts));
                    if pol.gen_opts.tests
                        && d.chance(1, 3)
                        && let Some(t) = draw_test(d, p)
                    {
                        items.push(t);
                    }
                }
                p.files.push(SrcFile {
                    rel,
                    items,
                    alive: true,
                    syntax_err: None,
                    loose: false,
                    header: None,
                });
                a.classes.push("add_file");
                if p.file_graph_cyclic() {
                    // (a generic argument can add an edge from an old file to an older one)
                    for it in p.files.last().unwrap().items.clone() {
                        if let ItemKind::Module(m) = &mut p.items[it].kind {
                            m.uses.clear();
                        }
                    }
                    a.classes.push("edit_reduced_file_cycle");
                }
                let fi = p.files.len() - 1;
                self.flush(p, ws, Some(&[fi]), &mut a);
            }
            EditOp::DeleteFile { file } => {
                let users = p.dependent_files(*file);
                let rel = p.files[*file].rel.clone();
                p.files[*file].alive = false;
                if users.is_empty() {
                    for it in p.files[*file].items.clone() {
                        p.items[it].alive = false;
                    }
                    a.classes.push("delete_leaf_file");
                } else {
                    // the items stay in the model (their users still name them)
                    a.classes.push("delete_used_file");
                }
                a.classes.push("delete");
                ws.remove(&rel);
                self.disk.remove(&rel);
                a.touched.push(rel);
            }
            EditOp::RestoreFile { file } => {
                p.files[*file].alive = true;
                a.classes.push("restore_file");
                self.flush(p, ws, Some(&[*file]), &mut a);
            }
            EditOp::RenameFile { file, to } => {
                let from = p.files[*file].rel.clone();
                p.files[*file].rel = to.clone();
                ws.rename(&from, to);
                if let Some(t) = self.disk.remove(&from) {
                    self.disk.insert(to.clone(), t);
                }
                a.classes.push("rename");
                a.touched.push(from);
                a.touched.push(to.clone());
            }
            EditOp::ReplaceOlder { file } => {
                for it in p.files[*file].items.clone() {
                    match &mut p.items[it].kind {
                        ItemKind::Module(m) => m.knob += 1,
                        ItemKind::Test(t) => t.knob += 1,
                        _ => {}
                    }
                }
                let rel = p.files[*file].rel.clone();
                let text = p.render_file(*file);
                self.older_seq += 1;
                ws.write_older(&rel, &text, self.older_seq);
                self.disk.insert(rel.clone(), text);
                a.classes.push("older_mtime");
                a.touched.push(rel);
            }
            EditOp::TouchSource { file } => {
                ws.touch(&p.files[*file].rel);
                a.classes.push("touch_source");
            }
            EditOp::InjectWarning { module, inj } => {
                let k = p.fresh();
                p.module_mut(*module).inj.push(inj.with_uid(k));
                a.classes.push("warning_introduced");
                let f = p.file_of(*module);
                self.flush(p, ws, f.as_ref().map(std::slice::from_ref), &mut a);
            }
            EditOp::RemoveWarning { module } => {
                let m = p.module_mut(*module);
                if let Some(n) = m.inj.iter().position(|j| !j.is_error()) {
                    m.inj.remove(n);
                }
                a.classes.push("warning_removed");
                let f = p.file_of(*module);
                self.flush(p, ws, f.as_ref().map(std::slice::from_ref), &mut a);
            }
            EditOp::InjectError { module, inj } => {
                let k = p.fresh();
                p.module_mut(*module).inj.push(inj.with_uid(k));
                a.classes.push("error_introduced");
                let f = p.file_of(*module);
                self.flush(p, ws, f.as_ref().map(std::slice::from_ref), &mut a);
            }
            EditOp::InjectSyntaxError { file } => {
                let k = p.fresh();
                p.files[*file].syntax_err = Some(k);
                a.classes.push("error_introduced");
                a.classes.push("syntax_error");
                self.flush(p, ws, Some(&[*file]), &mut a);
            }
            EditOp::RemoveError => {
                let mut files = vec![];
                for (m, _) in Self::injected_errors(p) {
                    p.module_mut(m).inj.retain(|j| !j.is_error());
                    if let Some(f) = p.file_of(m) {
                        files.push(f);
                    }
                }
                for fi in p.live_files() {
                    if p.files[fi].syntax_err.take().is_some() {
                        files.push(fi);
                    }
                }
                a.classes.push("error_removed");
                self.flush(p, ws, Some(&files), &mut a);
            }
            EditOp::SyncAll => {
                a.classes.push("sync_users");
                self.flush(p, ws, None, &mut a);
            }
            EditOp::DeleteOutput { rel, kind } => {
                ws.remove(rel);
                a.classes.push(match kind {
                    OutKind::Sv => "output_sv_deleted",
                    OutKind::Map => "output_map_deleted",
                    OutKind::Filelist => "output_filelist_deleted",
                });
            }
            EditOp::EditOutput { rel } => {
                ws.append(rel, "// hand edit\n");
                a.classes.push("output_hand_edited");
            }
            EditOp::TouchOutput { rel } => {
                ws.touch(rel);
                a.classes.push("output_touched");
            }
            EditOp::Toml(e) => {
                e.apply(&mut p.cfg);
                ws.write("Veryl.toml", &p.cfg.render());
                a.classes.push("toml_change");
                a.classes.push(if e.is_build_option() { "toml_build_option" } else { "toml_other_section" });
                if *e == TomlEdit::Defines {
                    a.classes.push("defines_change");
                }
            }
            EditOp::ToggleLoose { file } => {
                p.files[*file].loose = !p.files[*file].loose;
                a.classes.push("layout_change");
                self.flush(p, ws, Some(&[*file]), &mut a);
            }
        }
        a
    }
}
