//! `Veryl.toml` variants.

use vcore::Draw;

#[derive(Clone, Debug, PartialEq)]
pub enum Target {
    Source,
    Directory(String),
    Bundle(String),
}

#[derive(Clone, Debug, PartialEq)]
pub enum SrcMap {
    Target,
    Directory(String),
    None,
}

#[derive(Clone, Copy, Debug, PartialEq)]
pub enum Filelist {
    Absolute,
    Relative,
    Flgen,
}

#[derive(Clone, Debug, PartialEq)]
pub struct TomlCfg {
    pub name: String,
    pub target: Target,
    pub sourcemap: SrcMap,
    pub filelist: Filelist,
    pub clock_negedge: bool,
    /// 0 async_low, 1 async_high, 2 sync_low, 3 sync_high
    pub reset: u8,
    pub strip_comments: bool,
    pub omit_project_prefix: bool,
    pub expand_inside_operation: bool,
    pub incremental: bool,
    pub exclude_std: bool,
    /// `[format] indent_width` (None = default 4)
    pub fmt_indent: Option<u32>,
    pub fmt_vertical_align: Option<bool>,
    /// `[test] defines`
    pub test_defines: Vec<String>,
}

impl TomlCfg {
    pub fn basic(name: &str) -> TomlCfg {
        TomlCfg {
            name: name.to_string(),
            target: Target::Directory("target".into()),
            sourcemap: SrcMap::Target,
            filelist: Filelist::Absolute,
            clock_negedge: false,
            reset: 0,
            strip_comments: false,
            omit_project_prefix: false,
            expand_inside_operation: false,
            incremental: true,
            exclude_std: true,
            fmt_indent: None,
            fmt_vertical_align: None,
            test_defines: vec![],
        }
    }

    /// Generated variant.  `incremental` and `exclude_std` are set by the
    /// caller's policy afterwards if it needs fixed values.
    pub fn draw(d: &mut Draw) -> TomlCfg {
        let name = ["prj", "p2", "top_lib"][d.weighted(&[6, 2, 2])].to_string();
        let target = match d.weighted(&[5, 3, 2]) {
            0 => Target::Directory(["target", "out/sv"][d.weighted(&[3, 1])].to_string()),
            1 => Target::Source,
            _ => Target::Bundle(["bundled.sv", "out/all.sv"][d.weighted(&[3, 1])].to_string()),
        };
        let sourcemap = match d.weighted(&[4, 3, 2]) {
            0 => SrcMap::Target,
            1 => SrcMap::None,
            _ => SrcMap::Directory("maps".into()),
        };
        let filelist = [Filelist::Absolute, Filelist::Relative, Filelist::Flgen][d.weighted(&[4, 3, 2])];
        TomlCfg {
            name,
            target,
            sourcemap,
            filelist,
            clock_negedge: d.chance(1, 5),
            reset: d.weighted(&[5, 2, 2, 2]) as u8,
            strip_comments: d.chance(1, 4),
            omit_project_prefix: d.chance(1, 4),
            expand_inside_operation: d.chance(1, 8),
            incremental: true,
            exclude_std: !d.chance(1, 8),
            fmt_indent: if d.chance(1, 6) { Some(2) } else { None },
            fmt_vertical_align: if d.chance(1, 8) { Some(false) } else { None },
            test_defines: if d.chance(1, 6) { vec!["DEF_A".into()] } else { vec![] },
        }
    }

    pub fn is_bundle(&self) -> bool {
        matches!(self.target, Target::Bundle(_))
    }

    pub fn filelist_name(&self) -> String {
        match self.filelist {
            Filelist::Flgen => format!("{}.list.rb", self.name),
            _ => format!("{}.f", self.name),
        }
    }

    pub fn render(&self) -> String {
        let mut o = String::new();
        o.push_str(&format!("[project]\nname = \"{}\"\nversion = \"0.1.0\"\n\n[build]\n", self.name));
        o.push_str("sources = [\"src\"]\n");
        match &self.target {
            Target::Source => o.push_str("target = {type = \"source\"}\n"),
            Target::Directory(p) => o.push_str(&format!("target = {{type = \"directory\", path = \"{p}\"}}\n")),
            Target::Bundle(p) => o.push_str(&format!("target = {{type = \"bundle\", path = \"{p}\"}}\n")),
        }
        match &self.sourcemap {
            SrcMap::Target => o.push_str("sourcemap_target = {type = \"target\"}\n"),
            SrcMap::None => o.push_str("sourcemap_target = {type = \"none\"}\n"),
            SrcMap::Directory(p) => {
                o.push_str(&format!("sourcemap_target = {{type = \"directory\", path = \"{p}\"}}\n"))
            }
        }
        o.push_str(&format!(
            "filelist_type = \"{}\"\n",
            match self.filelist {
                Filelist::Absolute => "absolute",
                Filelist::Relative => "relative",
                Filelist::Flgen => "flgen",
            }
        ));
        o.push_str(&format!(
            "clock_type = \"{}\"\n",
            if self.clock_negedge { "negedge" } else { "posedge" }
        ));
        o.push_str(&format!(
            "reset_type = \"{}\"\n",
            ["async_low", "async_high", "sync_low", "sync_high"][(self.reset % 4) as usize]
        ));
        if self.strip_comments {
            o.push_str("strip_comments = true\n");
        }
        if self.omit_project_prefix {
            o.push_str("omit_project_prefix = true\n");
        }
        if self.expand_inside_operation {
            o.push_str("expand_inside_operation = true\n");
        }
        o.push_str(&format!("incremental = {}\n", self.incremental));
        o.push_str(&format!("exclude_std = {}\n", self.exclude_std));
        if self.fmt_indent.is_some() || self.fmt_vertical_align.is_some() {
            o.push_str("\n[format]\n");
            if let Some(n) = self.fmt_indent {
                o.push_str(&format!("indent_width = {n}\n"));
            }
            if let Some(b) = self.fmt_vertical_align {
                o.push_str(&format!("vertical_align = {b}\n"));
            }
        }
        if !self.test_defines.is_empty() {
            let v: Vec<String> = self.test_defines.iter().map(|x| format!("\"{x}\"")).collect();
            o.push_str(&format!("\n[test]\ndefines = [{}]\n", v.join(", ")));
        }
        o
    }

    pub fn summary(&self) -> String {
        format!(
            "name={} target={:?} map={:?} fl={:?} clk={} rst={} strip={} omit={} inc={} std={}",
            self.name,
            self.target,
            self.sourcemap,
            self.filelist,
            if self.clock_negedge { "neg" } else { "pos" },
            self.reset,
            self.strip_comments,
            self.omit_project_prefix,
            self.incremental,
            !self.exclude_std
        )
    }
}

/// A change of `Veryl.toml`.
#[derive(Clone, Debug, PartialEq)]
pub enum TomlEdit {
    /// `[format]` only: not part of the cache key
    FormatIndent,
    FormatAlign,
    ClockType,
    ResetType,
    StripComments,
    OmitPrefix,
    FilelistType,
    Sourcemap,
    Target,
    ExpandInside,
    /// `[test] defines`
    Defines,
}

impl TomlEdit {
    pub fn draw(d: &mut Draw) -> TomlEdit {
        [
            TomlEdit::StripComments,
            TomlEdit::FormatIndent,
            TomlEdit::ClockType,
            TomlEdit::ResetType,
            TomlEdit::OmitPrefix,
            TomlEdit::FilelistType,
            TomlEdit::Sourcemap,
            TomlEdit::Target,
            TomlEdit::Defines,
            TomlEdit::FormatAlign,
            TomlEdit::ExpandInside,
        ][d.weighted(&[3, 2, 2, 2, 2, 2, 2, 2, 2, 1, 1])]
        .clone()
    }

    pub fn is_build_option(&self) -> bool {
        !matches!(self, TomlEdit::FormatIndent | TomlEdit::FormatAlign | TomlEdit::Defines)
    }

    pub fn apply(&self, c: &mut TomlCfg) {
        match self {
            TomlEdit::FormatIndent => {
                c.fmt_indent = if c.fmt_indent.is_some() { None } else { Some(2) }
            }
            TomlEdit::FormatAlign => {
                c.fmt_vertical_align = if c.fmt_vertical_align.is_some() { None } else { Some(false) }
            }
            TomlEdit::ClockType => c.clock_negedge = !c.clock_negedge,
            TomlEdit::ResetType => c.reset = (c.reset + 1) % 4,
            TomlEdit::StripComments => c.strip_comments = !c.strip_comments,
            TomlEdit::OmitPrefix => c.omit_project_prefix = !c.omit_project_prefix,
            TomlEdit::ExpandInside => c.expand_inside_operation = !c.expand_inside_operation,
            TomlEdit::FilelistType => {
                c.filelist = match c.filelist {
                    Filelist::Absolute => Filelist::Relative,
                    Filelist::Relative => Filelist::Flgen,
                    Filelist::Flgen => Filelist::Absolute,
                }
            }
            TomlEdit::Sourcemap => {
                c.sourcemap = match c.sourcemap {
                    SrcMap::Target => SrcMap::None,
                    SrcMap::None => SrcMap::Directory("maps".into()),
                    SrcMap::Directory(_) => SrcMap::Target,
                }
            }
            TomlEdit::Target => {
                c.target = match c.target {
                    Target::Directory(_) => Target::Source,
                    Target::Source => Target::Directory("target".into()),
                    // leaving a bundle target is allowed, entering one is not
                    // (same-named files in different directories collide there)
                    Target::Bundle(_) => Target::Directory("target".into()),
                }
            }
            TomlEdit::Defines => {
                if c.test_defines.is_empty() {
                    c.test_defines = vec!["DEF_A".into()];
                } else if c.test_defines.len() == 1 {
                    c.test_defines.push("DEF_B".into());
                } else {
                    c.test_defines.clear();
                }
            }
        }
    }
}
