//! vproj — generated multi-file Veryl projects, edit operations on them and a
//! driver for the real `veryl` CLI.  See README.md.

pub mod cli;
pub mod edit;
pub mod genp;
pub mod model;
pub mod toml;

pub use cli::{CliResult, Diag, OutTree, Workspace};
pub use edit::{Applied, EditOp, EditPolicy, Editor};
pub use genp::{GenOpts, gen_project};
pub use model::Project;
pub use toml::TomlCfg;

/// The two `$sv::` names generated projects mention (nothing has to exist for
/// them: `$sv::` members are opaque to the analyzer).
pub const SV_NAMES: &[&str] = &["SvPkg::sv_t", "SvMod"];
