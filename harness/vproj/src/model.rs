//! Structured model of a multi-file Veryl project.
//!
//! The model is the *truth*; files on disk are renderings of it.  Every item
//! (package, interface, module, test) has a stable id; an item only references
//! items with a lower id, so the item graph is acyclic by construction (the
//! *file* graph may contain cycles, because items are spread over files
//! freely).  Everything a rendering mentions across items goes through the
//! model, which is how the reference dependency graph is known.

use std::collections::{BTreeMap, BTreeSet};

pub type ItemId = usize;

#[derive(Clone, Debug, PartialEq)]
pub enum Width {
    Lit(u32),
    /// `PkgN::Ck`
    Const(ItemId, usize),
    /// the generic parameter `W` of a generic module
    Generic,
}

#[derive(Clone, Debug, PartialEq)]
pub enum ConstVal {
    Lit(u32),
    /// `PkgN::Ck + n`
    Plus(ItemId, usize, u32),
}

#[derive(Clone, Debug, PartialEq)]
pub struct ConstDef {
    pub name: String,
    pub val: ConstVal,
}

#[derive(Clone, Debug, PartialEq)]
pub struct Pkg {
    /// `package PkgN::<N: u32> { const X: u32 = N * knob; }`
    pub generic: bool,
    pub consts: Vec<ConstDef>,
    pub ty: Option<String>,
    pub st: Option<String>,
    /// enum name, member names
    pub en: Option<(String, String, String)>,
    pub func: Option<String>,
    pub knob: u32,
}

#[derive(Clone, Debug, PartialEq)]
pub struct Intf {
    pub param: String,
    pub width: Width,
}

#[derive(Clone, Debug, PartialEq)]
pub enum PortDefault {
    Lit(u32),
    Const(ItemId, usize),
}

#[derive(Clone, Debug, PartialEq)]
pub struct Port {
    pub name: String,
    pub default: Option<PortDefault>,
}

#[derive(Clone, Debug, PartialEq)]
pub enum GenArg {
    Lit(u32),
    Const(ItemId, usize),
}

#[derive(Clone, Debug, PartialEq)]
pub enum UseKind {
    /// `let _cU: u32 = Pkg::C;`
    ConstExpr(ItemId, usize),
    /// `let _wU: logic<Pkg::C> = 0;`
    ConstWidth(ItemId, usize),
    /// `import Pkg::C;` + `let _iU: u32 = C;`
    ImportItem(ItemId, usize),
    /// `import Pkg::*;` + `let _jU: u32 = C;`
    ImportWild(ItemId, usize),
    TypeUse(ItemId),
    StructUse(ItemId),
    EnumUse(ItemId),
    FnUse(ItemId),
    /// `let _gU: u32 = PkgG::<n>::X;`
    GenPkg(ItemId, u32),
    /// child instance; `garg` for generic children; `pover` overrides the
    /// child's parameter; `omit_defaults`: leave defaulted inputs unconnected
    Inst {
        child: ItemId,
        garg: Option<GenArg>,
        pover: Option<u32>,
        omit_defaults: bool,
    },
    /// `let _lvU: logic<Pkg::C> = 0; let _lwU: logic = _lvU && _lvU;` — clean while
    /// `Pkg::C == 1`, an `invalid_logical_operand` warning in THIS file when the
    /// constant (defined in another file) becomes larger
    LogicalOnConst(ItemId, usize),
    /// `let _qU: $sv::SvPkg::sv_t = 0;`
    SvType,
    /// `inst _sU: $sv::SvMod (x: .., y: ..);`
    SvInst,
}

#[derive(Clone, Debug, PartialEq)]
pub struct Use {
    pub uid: u32,
    pub kind: UseKind,
}

/// Text-level injections into a module body (each is self-contained).
#[derive(Clone, Debug, PartialEq)]
pub enum Inject {
    WarnUnused(u32),
    WarnShift(u32),
    WarnLogical(u32),
    WarnMissingReset(u32),
    WarnUncovered(u32),
    WarnStrAssign(u32),
    ErrUndefined(u32),
    ErrUnknownModule(u32),
    ErrUnknownMember(u32, ItemId),
    ErrTypeMismatch(u32),
    ErrAssignInput(u32),
}

impl Inject {
    /// the same injection with another unique number
    pub fn with_uid(&self, k: u32) -> Inject {
        match self {
            Inject::WarnUnused(_) => Inject::WarnUnused(k),
            Inject::WarnShift(_) => Inject::WarnShift(k),
            Inject::WarnLogical(_) => Inject::WarnLogical(k),
            Inject::WarnMissingReset(_) => Inject::WarnMissingReset(k),
            Inject::WarnUncovered(_) => Inject::WarnUncovered(k),
            Inject::WarnStrAssign(_) => Inject::WarnStrAssign(k),
            Inject::ErrUndefined(_) => Inject::ErrUndefined(k),
            Inject::ErrUnknownModule(_) => Inject::ErrUnknownModule(k),
            Inject::ErrUnknownMember(_, p) => Inject::ErrUnknownMember(k, *p),
            Inject::ErrTypeMismatch(_) => Inject::ErrTypeMismatch(k),
            Inject::ErrAssignInput(_) => Inject::ErrAssignInput(k),
        }
    }
    pub fn is_error(&self) -> bool {
        matches!(
            self,
            Inject::ErrUndefined(_)
                | Inject::ErrUnknownModule(_)
                | Inject::ErrUnknownMember(..)
                | Inject::ErrTypeMismatch(_)
                | Inject::ErrAssignInput(_)
        )
    }
    pub fn label(&self) -> &'static str {
        match self {
            Inject::WarnUnused(_) => "unused_variable",
            Inject::WarnShift(_) => "unsigned_arith_shift",
            Inject::WarnLogical(_) => "invalid_logical_operand",
            Inject::WarnMissingReset(_) => "missing_reset_statement",
            Inject::WarnUncovered(_) => "uncovered_branch",
            Inject::WarnStrAssign(_) => "mismatch_assignment",
            Inject::ErrUndefined(_) => "undefined_identifier",
            Inject::ErrUnknownModule(_) => "undefined_identifier(inst)",
            Inject::ErrUnknownMember(..) => "unknown_member",
            Inject::ErrTypeMismatch(_) => "mismatch_type",
            Inject::ErrAssignInput(_) => "invalid_assignment",
        }
    }
}

#[derive(Clone, Debug, PartialEq)]
pub struct Module {
    pub generic: bool,
    pub param: Option<(String, u32)>,
    pub clocked: bool,
    pub width: Width,
    pub ins: Vec<Port>,
    pub outs: Vec<Port>,
    /// `bus: modport IfN::slv`
    pub modport: Option<ItemId>,
    pub uses: Vec<Use>,
    pub knob: u32,
    pub op: u8,
    /// `#[ifdef(NAME)]` guarded let
    pub ifdef: Option<String>,
    pub inj: Vec<Inject>,
    /// a `// comment` inside the body (strip_comments coverage)
    pub comment: bool,
}

#[derive(Clone, Debug, PartialEq)]
pub struct Test {
    pub dut: ItemId,
    pub knob: u32,
}

#[derive(Clone, Debug, PartialEq)]
pub enum ItemKind {
    Package(Pkg),
    Interface(Intf),
    Module(Module),
    Test(Test),
}

#[derive(Clone, Debug, PartialEq)]
pub struct Item {
    pub id: ItemId,
    pub name: String,
    pub kind: ItemKind,
    pub alive: bool,
}

#[derive(Clone, Debug, PartialEq)]
pub struct SrcFile {
    /// path relative to the project root, e.g. `src/sub/a.veryl`, `examples/e.veryl`
    pub rel: String,
    pub items: Vec<ItemId>,
    pub alive: bool,
    /// unclosed module header appended at the end of the file
    pub syntax_err: Option<u32>,
    /// render with irregular layout (not what `veryl fmt` produces)
    pub loose: bool,
    pub header: Option<String>,
}

impl SrcFile {
    pub fn is_example(&self) -> bool {
        self.rel.starts_with("examples/")
    }
}

#[derive(Clone, Debug, PartialEq)]
pub struct Project {
    pub cfg: crate::toml::TomlCfg,
    pub items: Vec<Item>,
    pub files: Vec<SrcFile>,
    pub counter: u32,
    /// placements rejected because the file graph was cyclic (excluded by construction)
    pub counter_cyclic_placements: u32,
    /// generation finished: every live item sits in a file
    pub placed: bool,
}

impl Project {
    pub fn fresh(&mut self) -> u32 {
        self.counter += 1;
        self.counter
    }

    pub fn file_of(&self, id: ItemId) -> Option<usize> {
        self.files
            .iter()
            .position(|f| f.alive && f.items.contains(&id))
    }

    pub fn live_files(&self) -> Vec<usize> {
        (0..self.files.len()).filter(|i| self.files[*i].alive).collect()
    }

    pub fn pkg(&self, id: ItemId) -> &Pkg {
        match &self.items[id].kind {
            ItemKind::Package(p) => p,
            _ => panic!("item {id} is not a package"),
        }
    }
    pub fn module(&self, id: ItemId) -> &Module {
        match &self.items[id].kind {
            ItemKind::Module(m) => m,
            _ => panic!("item {id} is not a module"),
        }
    }
    pub fn module_mut(&mut self, id: ItemId) -> &mut Module {
        match &mut self.items[id].kind {
            ItemKind::Module(m) => m,
            _ => panic!("item {id} is not a module"),
        }
    }
    pub fn pkg_mut(&mut self, id: ItemId) -> &mut Pkg {
        match &mut self.items[id].kind {
            ItemKind::Package(p) => p,
            _ => panic!("item {id} is not a package"),
        }
    }

    pub fn live_items(&self) -> Vec<ItemId> {
        self.items.iter().filter(|i| i.alive).map(|i| i.id).collect()
    }
    pub fn packages(&self, generic: bool) -> Vec<ItemId> {
        self.items
            .iter()
            .filter(|i| i.alive && matches!(&i.kind, ItemKind::Package(p) if p.generic == generic))
            .map(|i| i.id)
            .collect()
    }
    pub fn modules(&self) -> Vec<ItemId> {
        self.items
            .iter()
            .filter(|i| i.alive && matches!(i.kind, ItemKind::Module(_)))
            .map(|i| i.id)
            .collect()
    }
    pub fn interfaces(&self) -> Vec<ItemId> {
        self.items
            .iter()
            .filter(|i| i.alive && matches!(i.kind, ItemKind::Interface(_)))
            .map(|i| i.id)
            .collect()
    }
    /// (package, const index) of every constant of every plain package
    pub fn all_consts(&self) -> Vec<(ItemId, usize)> {
        let mut v = vec![];
        for p in self.packages(false) {
            for k in 0..self.pkg(p).consts.len() {
                v.push((p, k));
            }
        }
        v
    }

    // ---------------------------------------------------------------- refs

    /// Items referenced by item `id` (direct).
    pub fn item_refs(&self, id: ItemId) -> BTreeSet<ItemId> {
        let mut r = BTreeSet::new();
        let w = |w: &Width, r: &mut BTreeSet<ItemId>| {
            if let Width::Const(p, _) = w {
                r.insert(*p);
            }
        };
        match &self.items[id].kind {
            ItemKind::Package(p) => {
                for c in &p.consts {
                    if let ConstVal::Plus(q, _, _) = c.val {
                        r.insert(q);
                    }
                }
            }
            ItemKind::Interface(i) => w(&i.width, &mut r),
            ItemKind::Module(m) => {
                w(&m.width, &mut r);
                for p in &m.ins {
                    if let Some(PortDefault::Const(q, _)) = p.default {
                        r.insert(q);
                    }
                }
                if let Some(i) = m.modport {
                    r.insert(i);
                }
                for u in &m.uses {
                    match &u.kind {
                        UseKind::ConstExpr(p, _)
                        | UseKind::ConstWidth(p, _)
                        | UseKind::ImportItem(p, _)
                        | UseKind::ImportWild(p, _)
                        | UseKind::LogicalOnConst(p, _)
                        | UseKind::TypeUse(p)
                        | UseKind::StructUse(p)
                        | UseKind::EnumUse(p)
                        | UseKind::FnUse(p)
                        | UseKind::GenPkg(p, _) => {
                            r.insert(*p);
                        }
                        UseKind::Inst { child, garg, .. } => {
                            r.insert(*child);
                            if let Some(GenArg::Const(p, _)) = garg {
                                r.insert(*p);
                            }
                            // the connection variables repeat the child's width
                            // and the interface of its modport port
                            if let ItemKind::Module(c) = &self.items[*child].kind {
                                w(&c.width, &mut r);
                                if let Some(i) = c.modport {
                                    r.insert(i);
                                }
                            }
                        }
                        UseKind::SvType | UseKind::SvInst => {}
                    }
                }
                for j in &m.inj {
                    if let Inject::ErrUnknownMember(_, p) = j {
                        r.insert(*p);
                    }
                }
            }
            ItemKind::Test(t) => {
                r.insert(t.dut);
                if let ItemKind::Module(c) = &self.items[t.dut].kind {
                    w(&c.width, &mut r);
                }
            }
        }
        r
    }

    /// Reference dependency graph over files: `rel -> set of rel it references`
    /// (direct, by the model; self references removed).
    pub fn file_deps(&self) -> BTreeMap<String, BTreeSet<String>> {
        let mut g = BTreeMap::new();
        for f in self.files.iter().filter(|f| f.alive) {
            let mut s = BTreeSet::new();
            for it in &f.items {
                if !self.items[*it].alive {
                    continue;
                }
                for r in self.item_refs(*it) {
                    if let Some(fi) = self.file_of(r)
                        && self.files[fi].rel != f.rel
                    {
                        s.insert(self.files[fi].rel.clone());
                    }
                }
            }
            g.insert(f.rel.clone(), s);
        }
        // A generic instantiated with a package constant as argument: the
        // specialisation belongs to the definer's file and mentions the
        // package, so veryl's file graph also has definer -> package.
        for it in self.items.iter().filter(|i| i.alive) {
            if let ItemKind::Module(m) = &it.kind {
                for u in &m.uses {
                    if let UseKind::Inst {
                        child,
                        garg: Some(GenArg::Const(pk, _)),
                        ..
                    } = &u.kind
                        && let (Some(fc), Some(fp)) = (self.file_of(*child), self.file_of(*pk))
                        && fc != fp
                    {
                        let (a, b) = (self.files[fc].rel.clone(), self.files[fp].rel.clone());
                        if let Some(s) = g.get_mut(&a) {
                            s.insert(b);
                        }
                    }
                }
            }
        }
        g
    }

    /// True if the file reference graph has a cycle (two files that need each
    /// other through different items).  `veryl` panics on such projects
    /// (type_dag.rs `insert_file_edge`: `WouldCycle`), with or without the
    /// fragment cache, so generators avoid them.
    pub fn file_graph_cyclic(&self) -> bool {
        let g = self.file_deps();
        // Kahn
        let mut indeg: BTreeMap<&String, usize> = g.keys().map(|k| (k, 0)).collect();
        for v in g.values() {
            for t in v {
                if let Some(x) = indeg.get_mut(t) {
                    *x += 1;
                }
            }
        }
        let mut queue: Vec<&String> = indeg.iter().filter(|(_, n)| **n == 0).map(|(k, _)| *k).collect();
        let mut seen = 0;
        while let Some(k) = queue.pop() {
            seen += 1;
            for t in &g[k] {
                if let Some(x) = indeg.get_mut(t) {
                    *x -= 1;
                    if *x == 0 {
                        queue.push(t);
                    }
                }
            }
        }
        seen != g.len()
    }

    /// Items that (directly) reference `id`.
    pub fn users_of(&self, id: ItemId) -> Vec<ItemId> {
        self.items
            .iter()
            .filter(|i| i.alive && i.id != id && self.item_refs(i.id).contains(&id))
            .map(|i| i.id)
            .collect()
    }

    /// Files (indices) holding an item that references an item of file `fi`.
    pub fn dependent_files(&self, fi: usize) -> BTreeSet<usize> {
        let mut s = BTreeSet::new();
        for it in &self.files[fi].items {
            for u in self.users_of(*it) {
                if let Some(f) = self.file_of(u)
                    && f != fi
                {
                    s.insert(f);
                }
            }
        }
        s
    }

    /// For every live file: a description of how *other* files instantiate the
    /// generic items it defines (the emitted text of a generic definer
    /// contains one specialisation per distinct argument list in use).
    pub fn generic_context(&self) -> BTreeMap<String, String> {
        let mut out = BTreeMap::new();
        for (fi, f) in self.files.iter().enumerate() {
            if !f.alive {
                continue;
            }
            let mut insts: BTreeSet<String> = BTreeSet::new();
            for it in &f.items {
                let item = &self.items[*it];
                if !item.alive {
                    continue;
                }
                let is_generic = match &item.kind {
                    ItemKind::Package(p) => p.generic,
                    ItemKind::Module(m) => m.generic,
                    _ => false,
                };
                if !is_generic {
                    continue;
                }
                for u in self.users_of(*it) {
                    // users in files that are not on disk as the model says
                    // are still counted: callers compare contexts only
                    // between synced states
                    let _ = fi;
                    if let ItemKind::Module(m) = &self.items[u].kind {
                        for us in &m.uses {
                            match &us.kind {
                                UseKind::GenPkg(p, n) if p == it => {
                                    insts.insert(format!("{}::<{n}>", item.name));
                                }
                                UseKind::Inst { child, garg: Some(g), .. } if child == it => {
                                    insts.insert(format!("{}::<{}>", item.name, self.garg_text(g)));
                                }
                                _ => {}
                            }
                        }
                    }
                }
            }
            out.insert(f.rel.clone(), insts.into_iter().collect::<Vec<_>>().join(","));
        }
        out
    }

    pub fn defines_generic(&self, fi: usize) -> bool {
        self.files[fi].items.iter().any(|it| {
            self.items[*it].alive
                && match &self.items[*it].kind {
                    ItemKind::Package(p) => p.generic,
                    ItemKind::Module(m) => m.generic,
                    _ => false,
                }
        })
    }

    // ------------------------------------------------------------ rendering

    pub fn const_path(&self, p: ItemId, k: usize) -> String {
        format!("{}::{}", self.items[p].name, self.pkg(p).consts[k].name)
    }

    pub fn width_text(&self, w: &Width) -> String {
        match w {
            Width::Lit(n) => n.to_string(),
            Width::Const(p, k) => self.const_path(*p, *k),
            Width::Generic => "W".to_string(),
        }
    }

    pub fn garg_text(&self, g: &GenArg) -> String {
        match g {
            GenArg::Lit(n) => n.to_string(),
            GenArg::Const(p, k) => self.const_path(*p, *k),
        }
    }

    fn render_pkg(&self, it: &Item, p: &Pkg, o: &mut String) {
        if p.generic {
            o.push_str(&format!("package {}::<N: u32> {{\n", it.name));
            for c in &p.consts {
                o.push_str(&format!("    const {}: u32 = N * {};\n", c.name, p.knob.max(1)));
            }
            o.push_str("}\n");
            return;
        }
        o.push_str(&format!("package {} {{\n", it.name));
        for c in &p.consts {
            let v = match &c.val {
                ConstVal::Lit(n) => n.to_string(),
                ConstVal::Plus(q, k, n) => format!("{} + {n}", self.const_path(*q, *k)),
            };
            o.push_str(&format!("    const {}: u32 = {v};\n", c.name));
        }
        if let Some(t) = &p.ty {
            o.push_str(&format!("    type {t} = logic<{}>;\n", p.consts[0].name));
        }
        if let Some(s) = &p.st {
            o.push_str(&format!("    struct {s} {{\n        hi: logic<4>,\n        lo: logic<4>,\n    }}\n"));
        }
        if let Some((e, a, b)) = &p.en {
            o.push_str(&format!("    enum {e}: logic<2> {{\n        {a},\n        {b},\n    }}\n"));
        }
        if let Some(f) = &p.func {
            o.push_str(&format!(
                "    function {f} (\n        x: input logic<8>,\n    ) -> logic<8> {{\n        return x + {};\n    }}\n",
                p.knob
            ));
        }
        o.push_str("}\n");
    }

    fn render_intf(&self, it: &Item, i: &Intf, o: &mut String) {
        o.push_str(&format!(
            "interface {} #(\n    param {}: u32 = {},\n) {{\n    var v: logic<{}>;\n    var r: logic;\n    modport mst {{\n        v: output,\n        r: input,\n    }}\n    modport slv {{\n        v: input,\n        r: output,\n    }}\n}}\n",
            it.name,
            i.param,
            self.width_text(&i.width),
            i.param
        ));
    }

    fn op_text(op: u8) -> &'static str {
        ["+", "^", "|", "&", "-"][(op % 5) as usize]
    }

    fn render_module(&self, it: &Item, m: &Module, o: &mut String) {
        let w = self.width_text(&m.width);
        if m.generic {
            o.push_str(&format!("module {}::<W: u32> ", it.name));
        } else {
            o.push_str(&format!("module {} ", it.name));
        }
        if let Some((p, v)) = &m.param {
            o.push_str(&format!("#(\n    param {p}: u32 = {v},\n) "));
        }
        o.push_str("(\n");
        if m.clocked {
            o.push_str("    clk: input clock,\n    rst: input reset,\n");
        }
        for p in &m.ins {
            match &p.default {
                None => o.push_str(&format!("    {}: input logic<{w}>,\n", p.name)),
                Some(PortDefault::Lit(n)) => {
                    o.push_str(&format!("    {}: input logic<{w}> = {n},\n", p.name))
                }
                Some(PortDefault::Const(q, k)) => o.push_str(&format!(
                    "    {}: input logic<{w}> = {},\n",
                    p.name,
                    self.const_path(*q, *k)
                )),
            }
        }
        for p in &m.outs {
            o.push_str(&format!("    {}: output logic<{w}>,\n", p.name));
        }
        if let Some(i) = m.modport {
            o.push_str(&format!("    bus: modport {}::slv,\n", self.items[i].name));
        }
        o.push_str(") {\n");
        if m.comment {
            o.push_str(&format!("    // body of {} ({})\n", it.name, m.knob));
        }
        // imports first
        for u in &m.uses {
            match &u.kind {
                UseKind::ImportItem(p, k) => o.push_str(&format!(
                    "    import {};\n",
                    self.const_path(*p, *k)
                )),
                UseKind::ImportWild(p, _) => {
                    o.push_str(&format!("    import {}::*;\n", self.items[*p].name))
                }
                _ => {}
            }
        }
        for u in &m.uses {
            let k = u.uid;
            match &u.kind {
                UseKind::ConstExpr(p, c) => o.push_str(&format!(
                    "    let _c{k}: u32 = {};\n",
                    self.const_path(*p, *c)
                )),
                UseKind::ConstWidth(p, c) => o.push_str(&format!(
                    "    let _w{k}: logic<{}> = 0;\n",
                    self.const_path(*p, *c)
                )),
                UseKind::ImportItem(p, c) => o.push_str(&format!(
                    "    let _i{k}: u32 = {};\n",
                    self.pkg(*p).consts[*c].name
                )),
                UseKind::ImportWild(p, c) => o.push_str(&format!(
                    "    let _j{k}: u32 = {};\n",
                    self.pkg(*p).consts[*c].name
                )),
                UseKind::TypeUse(p) => {
                    let t = self.pkg(*p).ty.clone().unwrap_or_default();
                    o.push_str(&format!("    let _t{k}: {}::{t} = 0;\n", self.items[*p].name));
                }
                UseKind::StructUse(p) => {
                    let s = self.pkg(*p).st.clone().unwrap_or_default();
                    o.push_str(&format!(
                        "    var _s{k}: {}::{s};\n    assign _s{k}.hi = 1;\n    assign _s{k}.lo = 2;\n",
                        self.items[*p].name
                    ));
                }
                UseKind::EnumUse(p) => {
                    let (e, a, _) = self.pkg(*p).en.clone().unwrap_or_default();
                    let pn = &self.items[*p].name;
                    o.push_str(&format!("    let _e{k}: {pn}::{e} = {pn}::{e}::{a};\n"));
                }
                UseKind::FnUse(p) => {
                    let f = self.pkg(*p).func.clone().unwrap_or_default();
                    o.push_str(&format!(
                        "    let _f{k}: logic<8> = {}::{f}(8'd{});\n",
                        self.items[*p].name,
                        k % 200
                    ));
                }
                UseKind::GenPkg(p, n) => o.push_str(&format!(
                    "    let _g{k}: u32 = {}::<{n}>::{};\n",
                    self.items[*p].name,
                    self.pkg(*p).consts[0].name
                )),
                UseKind::Inst {
                    child,
                    garg,
                    pover,
                    omit_defaults,
                } => self.render_inst(m, k, *child, garg, pover, *omit_defaults, o),
                UseKind::LogicalOnConst(p, c) => o.push_str(&format!(
                    "    let _lv{k}: logic<{}> = 0;\n    let _lw{k}: logic = _lv{k} && _lv{k};\n",
                    self.const_path(*p, *c)
                )),
                UseKind::SvType => o.push_str(&format!("    let _q{k}: $sv::SvPkg::sv_t = 0;\n")),
                UseKind::SvInst => o.push_str(&format!(
                    "    var _sy{k}: logic<8>;\n    inst _sv{k}: $sv::SvMod (\n        x: {},\n        y: _sy{k},\n    );\n",
                    m.ins.first().map(|p| p.name.clone()).unwrap_or("0".into())
                )),
            }
        }
        if let Some(d) = &m.ifdef {
            o.push_str(&format!("    #[ifdef({d})]\n    let _d{}: logic = 1;\n", it.id));
        }
        // own logic
        let a = m.ins.first().map(|p| p.name.clone()).unwrap_or("0".into());
        let b = m.ins.get(1).map(|p| p.name.clone()).unwrap_or(a.clone());
        let op = Self::op_text(m.op);
        let mut src = format!("({a} {op} {b}) + {}", m.knob);
        if let Some((p, _)) = &m.param {
            src = format!("{src} + {p}");
        }
        if m.clocked {
            o.push_str(&format!(
                "    var r_{id}: logic<{w}>;\n    always_ff {{\n        if_reset {{\n            r_{id} = 0;\n        }} else {{\n            r_{id} = {src};\n        }}\n    }}\n",
                id = it.id
            ));
            src = format!("r_{}", it.id);
        }
        if m.modport.is_some() {
            o.push_str("    assign bus.r = bus.v == 0;\n");
        }
        for (n, p) in m.outs.iter().enumerate() {
            if n == 0 {
                o.push_str(&format!("    assign {} = {src};\n", p.name));
            } else {
                o.push_str(&format!("    assign {} = ~{a};\n", p.name));
            }
        }
        for j in &m.inj {
            self.render_inject(it, m, j, o);
        }
        o.push_str("}\n");
    }

    #[allow(clippy::too_many_arguments)]
    fn render_inst(
        &self,
        parent: &Module,
        k: u32,
        child: ItemId,
        garg: &Option<GenArg>,
        pover: &Option<u32>,
        omit_defaults: bool,
        o: &mut String,
    ) {
        let ci = &self.items[child];
        let ItemKind::Module(c) = &ci.kind else {
            return;
        };
        let cw = match (&c.width, garg) {
            (Width::Generic, Some(g)) => self.garg_text(g),
            (Width::Generic, None) => "8".to_string(),
            (w, _) => self.width_text(w),
        };
        let mut conns: Vec<(String, String)> = vec![];
        if c.clocked {
            conns.push(("clk".into(), "clk".into()));
            conns.push(("rst".into(), "rst".into()));
        }
        for (n, p) in c.ins.iter().enumerate() {
            if p.default.is_some() && omit_defaults {
                continue;
            }
            o.push_str(&format!("    let _x{k}_{n}: logic<{cw}> = {};\n", (k + n as u32) % 7));
            conns.push((p.name.clone(), format!("_x{k}_{n}")));
        }
        for (n, p) in c.outs.iter().enumerate() {
            o.push_str(&format!("    var _y{k}_{n}: logic<{cw}>;\n"));
            conns.push((p.name.clone(), format!("_y{k}_{n}")));
        }
        if let Some(i) = c.modport {
            o.push_str(&format!(
                "    inst _b{k}: {};\n    assign _b{k}.v = 0;\n    let _r{k}: logic = _b{k}.r;\n",
                self.items[i].name
            ));
            conns.push(("bus".into(), format!("_b{k}")));
        }
        let _ = parent;
        let mut head = format!("    inst _u{k}: {}", ci.name);
        if let Some(g) = garg {
            head.push_str(&format!("::<{}>", self.garg_text(g)));
        }
        if let (Some(v), Some((pn, _))) = (pover, &c.param) {
            head.push_str(&format!(" #(\n        {pn}: {v},\n    )"));
        }
        o.push_str(&head);
        if conns.is_empty() {
            o.push_str(";\n");
        } else {
            o.push_str(" (\n");
            for (p, v) in conns {
                o.push_str(&format!("        {p}: {v},\n"));
            }
            o.push_str("    );\n");
        }
    }

    fn render_inject(&self, it: &Item, m: &Module, j: &Inject, o: &mut String) {
        let a = m.ins.first().map(|p| p.name.clone()).unwrap_or("1".into());
        match j {
            Inject::WarnUnused(k) => o.push_str(&format!("    let unused_{k}: logic = 1;\n")),
            Inject::WarnShift(k) => o.push_str(&format!(
                "    let _ta{k}: logic<8> = 1;\n    let _tb{k}: logic<8> = _ta{k} >>> 1;\n"
            )),
            Inject::WarnLogical(k) => o.push_str(&format!(
                "    let _la{k}: logic<8> = 3;\n    let _lb{k}: logic = _la{k} && _la{k};\n"
            )),
            Inject::WarnMissingReset(k) => o.push_str(&format!(
                "    var _ma{k}: logic;\n    var _mb{k}: logic;\n    always_ff {{\n        if_reset {{\n            _ma{k} = 0;\n        }} else {{\n            _ma{k} = 1;\n            _mb{k} = 1;\n        }}\n    }}\n"
            )),
            Inject::WarnUncovered(k) => o.push_str(&format!(
                "    var _uc{k}: logic;\n    always_comb {{\n        if {a} == 0 {{\n            _uc{k} = 1;\n        }}\n    }}\n"
            )),
            Inject::WarnStrAssign(k) => o.push_str(&format!("    let _sa{k}: u32 = \"str\";\n")),
            Inject::ErrUndefined(k) => {
                o.push_str(&format!("    let _z{k}: logic = undefined_{k};\n"))
            }
            Inject::ErrUnknownModule(k) => o.push_str(&format!("    inst _n{k}: NoSuch{k};\n")),
            Inject::ErrUnknownMember(k, p) => o.push_str(&format!(
                "    let _km{k}: u32 = {}::NOPE{k};\n",
                self.items[*p].name
            )),
            Inject::ErrTypeMismatch(k) => o.push_str(&format!("    var _tm{k}: {};\n", it.name)),
            Inject::ErrAssignInput(k) => {
                let _ = k;
                if let Some(p) = m.ins.first() {
                    o.push_str(&format!("    assign {} = 1;\n", p.name));
                } else {
                    o.push_str(&format!("    let _z{k}: logic = undefined_{k};\n"));
                }
            }
        }
    }

    fn render_test(&self, it: &Item, t: &Test, o: &mut String) {
        let di = &self.items[t.dut];
        let ItemKind::Module(c) = &di.kind else {
            return;
        };
        let cw = self.width_text(&c.width);
        o.push_str(&format!("#[test({n})]\nmodule {n} {{\n", n = it.name));
        let mut conns = vec![];
        if c.clocked {
            o.push_str("    inst clk: $tb::clock_gen;\n    inst rst: $tb::reset_gen (clk);\n");
            conns.push(("clk".to_string(), "clk".to_string()));
            conns.push(("rst".to_string(), "rst".to_string()));
        }
        for (n, p) in c.ins.iter().enumerate() {
            o.push_str(&format!("    var a{n}: logic<{cw}>;\n"));
            conns.push((p.name.clone(), format!("a{n}")));
        }
        for (n, p) in c.outs.iter().enumerate() {
            o.push_str(&format!("    var y{n}: logic<{cw}>;\n"));
            conns.push((p.name.clone(), format!("y{n}")));
        }
        o.push_str(&format!("    inst dut: {}", di.name));
        if conns.is_empty() {
            o.push_str(";\n");
        } else {
            o.push_str(" (\n");
            for (p, v) in conns {
                o.push_str(&format!("        {p}: {v},\n"));
            }
            o.push_str("    );\n");
        }
        o.push_str("    initial {\n");
        for n in 0..c.ins.len() {
            o.push_str(&format!("        a{n} = {};\n", (t.knob + n as u32) % 2));
        }
        if c.clocked {
            o.push_str("        rst.assert();\n        clk.next(2);\n");
        }
        if !c.outs.is_empty() {
            o.push_str("        $assert(y0 == y0);\n");
        }
        o.push_str("        $finish();\n    }\n}\n");
    }

    pub fn render_item(&self, id: ItemId) -> String {
        let it = &self.items[id];
        let mut o = String::new();
        match &it.kind {
            ItemKind::Package(p) => self.render_pkg(it, p, &mut o),
            ItemKind::Interface(i) => self.render_intf(it, i, &mut o),
            ItemKind::Module(m) => self.render_module(it, m, &mut o),
            ItemKind::Test(t) => self.render_test(it, t, &mut o),
        }
        o
    }

    /// Text of file `fi` as the model says.
    pub fn render_file(&self, fi: usize) -> String {
        let f = &self.files[fi];
        let mut o = String::new();
        if let Some(h) = &f.header {
            o.push_str(&format!("// {h}\n"));
        }
        let mut first = true;
        for it in &f.items {
            if !self.items[*it].alive {
                continue;
            }
            if !first {
                o.push('\n');
            }
            first = false;
            o.push_str(&self.render_item(*it));
        }
        if let Some(k) = f.syntax_err {
            o.push_str(&format!("\nmodule Broken{k} (\n"));
        }
        if f.loose {
            o = loosen(&o);
        }
        o
    }

    /// `(rel path, text)` of every live source file.
    pub fn render_all(&self) -> Vec<(String, String)> {
        self.live_files()
            .into_iter()
            .map(|fi| (self.files[fi].rel.clone(), self.render_file(fi)))
            .collect()
    }

    pub fn uses_sv(&self) -> bool {
        self.items.iter().any(|i| {
            i.alive
                && matches!(&i.kind, ItemKind::Module(m) if m.uses.iter().any(|u| matches!(u.kind, UseKind::SvType | UseKind::SvInst)))
        })
    }

    pub fn has_tests(&self) -> bool {
        self.items
            .iter()
            .any(|i| i.alive && matches!(i.kind, ItemKind::Test(_)) && self.file_of(i.id).is_some())
    }

    /// One-line summary for samples / messages.
    pub fn summary(&self) -> String {
        let mut s = format!("{} ;", self.cfg.summary());
        for f in self.files.iter().filter(|f| f.alive) {
            let names: Vec<String> = f
                .items
                .iter()
                .filter(|i| self.items[**i].alive)
                .map(|i| self.items[*i].name.clone())
                .collect();
            s.push_str(&format!(" {}[{}]", f.rel, names.join(",")));
        }
        s
    }
}

/// Irregular layout that `veryl fmt` would change: doubled blanks after
/// commas/colons, trailing blanks removed, odd indentation.  Token sequence
/// and comments are untouched.
pub fn loosen(text: &str) -> String {
    let mut out = String::new();
    for (n, line) in text.lines().enumerate() {
        if line.trim_start().starts_with("//") {
            out.push_str(line);
        } else if n % 3 == 0 {
            out.push_str(&line.replace(": ", ":  "));
        } else if n % 3 == 1 && line.starts_with("    ") {
            out.push_str(&line[2..]);
        } else {
            out.push_str(&line.replace(" = ", "  =   "));
        }
        out.push('\n');
    }
    out
}
