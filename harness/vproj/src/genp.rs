//! Generator of projects from a `Draw`.

use crate::model::*;
use crate::toml::TomlCfg;
use vcore::Draw;

#[derive(Clone, Debug)]
pub struct GenOpts {
    pub min_items: usize,
    pub max_items: usize,
    pub max_files: usize,
    pub generics: bool,
    pub examples: bool,
    pub tests: bool,
    pub sv: bool,
    /// allow equal file names in different directories
    pub dup_names: bool,
    /// per-mille of source files rendered with irregular layout
    pub loose_per_mille: u32,
    /// per-mille of projects that start with one injected warning
    pub warn_per_mille: u32,
}

impl Default for GenOpts {
    fn default() -> Self {
        GenOpts {
            min_items: 3,
            max_items: 9,
            max_files: 6,
            generics: true,
            examples: true,
            tests: true,
            sv: true,
            dup_names: true,
            loose_per_mille: 0,
            warn_per_mille: 0,
        }
    }
}

const DIRS: &[&str] = &["", "sub/", "sub/deep/", "x/"];
const STEMS: &[&str] = &["a", "b", "top", "core", "util", "pkg", "c"];

/// Items that an item with id `below` may reference: alive, lower id, placed
/// in a live non-example file (or not placed yet, during generation).
fn candidates(p: &Project, below: ItemId) -> Vec<ItemId> {
    p.items
        .iter()
        .filter(|i| i.alive && i.id < below)
        .filter(|i| match p.file_of(i.id) {
            Some(f) => !p.files[f].is_example(),
            None => !p.placed,
        })
        .map(|i| i.id)
        .collect()
}

pub fn draw_package(d: &mut Draw, p: &mut Project, generic: bool) -> ItemId {
    let id = p.items.len();
    let mut pk = Pkg {
        generic,
        consts: vec![],
        ty: None,
        st: None,
        en: None,
        func: None,
        knob: d.range(1, 5) as u32,
    };
    if generic {
        let n = p.fresh();
        pk.consts.push(ConstDef {
            name: format!("X{n}"),
            val: ConstVal::Lit(0),
        });
    } else {
        let n = d.usize_in(1, 3);
        let others: Vec<(ItemId, usize)> = {
            let c = candidates(p, id);
            p.all_consts().into_iter().filter(|(q, _)| c.contains(q)).collect()
        };
        for _ in 0..n {
            let k = p.fresh();
            let val = if !others.is_empty() && d.chance(1, 3) {
                let (q, c) = others[d.below_usize(others.len())];
                ConstVal::Plus(q, c, d.range(0, 3) as u32)
            } else {
                ConstVal::Lit(*d.pick(&[8, 4, 1, 2, 16, 5]))
            };
            pk.consts.push(ConstDef {
                name: format!("C{k}"),
                val,
            });
        }
        if d.chance(1, 2) {
            pk.ty = Some(format!("T{id}"));
        }
        if d.chance(1, 3) {
            pk.st = Some(format!("S{id}"));
        }
        if d.chance(1, 3) {
            pk.en = Some((format!("E{id}"), format!("EA{id}"), format!("EB{id}")));
        }
        if d.chance(1, 3) {
            pk.func = Some(format!("f{id}"));
        }
    }
    let name = if generic { format!("PkgG{id}") } else { format!("Pkg{id}") };
    p.items.push(Item {
        id,
        name,
        kind: ItemKind::Package(pk),
        alive: true,
    });
    id
}

pub fn draw_interface(d: &mut Draw, p: &mut Project) -> ItemId {
    let id = p.items.len();
    let width = draw_width(d, p, id);
    let k = p.fresh();
    p.items.push(Item {
        id,
        name: format!("If{id}"),
        kind: ItemKind::Interface(Intf {
            param: format!("P{k}"),
            width,
        }),
        alive: true,
    });
    id
}

fn draw_width(d: &mut Draw, p: &Project, below: ItemId) -> Width {
    let c = candidates(p, below);
    let consts: Vec<(ItemId, usize)> = p.all_consts().into_iter().filter(|(q, _)| c.contains(q)).collect();
    if !consts.is_empty() && d.chance(3, 5) {
        let (q, k) = consts[d.below_usize(consts.len())];
        Width::Const(q, k)
    } else {
        Width::Lit(*d.pick(&[8, 4, 16, 1]))
    }
}

/// A use that module `mid` (clocked or not) can add, or None.
pub fn draw_use(d: &mut Draw, p: &mut Project, mid: ItemId, clocked: bool, o: &GenOpts) -> Option<Use> {
    let c = candidates(p, mid);
    let pkgs: Vec<ItemId> = p.packages(false).into_iter().filter(|x| c.contains(x)).collect();
    let gpkgs: Vec<ItemId> = p.packages(true).into_iter().filter(|x| c.contains(x)).collect();
    let mods: Vec<ItemId> = p
        .modules()
        .into_iter()
        .filter(|x| c.contains(x))
        .filter(|x| clocked || !p.module(*x).clocked)
        .collect();
    let consts: Vec<(ItemId, usize)> = p.all_consts().into_iter().filter(|(q, _)| c.contains(q)).collect();
    let uid = p.fresh();
    for _ in 0..4 {
        let kind = match d.weighted(&[9, 4, 2, 2, 2, 2, 2, 2, 2, 1, 1]) {
            0 if !mods.is_empty() => {
                let child = mods[d.below_usize(mods.len())];
                let cm = p.module(child);
                let garg = if cm.generic {
                    Some(if !consts.is_empty() && d.chance(1, 3) {
                        let (q, k) = consts[d.below_usize(consts.len())];
                        GenArg::Const(q, k)
                    } else {
                        GenArg::Lit(*d.pick(&[8, 4, 16]))
                    })
                } else {
                    None
                };
                let pover = if cm.param.is_some() && d.chance(1, 2) {
                    Some(d.range(1, 9) as u32)
                } else {
                    None
                };
                UseKind::Inst {
                    child,
                    garg,
                    pover,
                    omit_defaults: d.chance(2, 3),
                }
            }
            1 if !consts.is_empty() => {
                let (q, k) = consts[d.below_usize(consts.len())];
                match d.weighted(&[3, 3, 2, 2]) {
                    0 => UseKind::ConstExpr(q, k),
                    1 => UseKind::ConstWidth(q, k),
                    2 => UseKind::ImportItem(q, k),
                    _ => UseKind::ImportWild(q, k),
                }
            }
            2 => {
                let v: Vec<ItemId> = pkgs.iter().copied().filter(|x| p.pkg(*x).ty.is_some()).collect();
                if v.is_empty() {
                    continue;
                }
                UseKind::TypeUse(v[d.below_usize(v.len())])
            }
            3 => {
                let v: Vec<ItemId> = pkgs.iter().copied().filter(|x| p.pkg(*x).st.is_some()).collect();
                if v.is_empty() {
                    continue;
                }
                UseKind::StructUse(v[d.below_usize(v.len())])
            }
            4 => {
                let v: Vec<ItemId> = pkgs.iter().copied().filter(|x| p.pkg(*x).en.is_some()).collect();
                if v.is_empty() {
                    continue;
                }
                UseKind::EnumUse(v[d.below_usize(v.len())])
            }
            5 => {
                let v: Vec<ItemId> = pkgs.iter().copied().filter(|x| p.pkg(*x).func.is_some()).collect();
                if v.is_empty() {
                    continue;
                }
                UseKind::FnUse(v[d.below_usize(v.len())])
            }
            6 | 7 if !gpkgs.is_empty() => {
                UseKind::GenPkg(gpkgs[d.below_usize(gpkgs.len())], *d.pick(&[3, 2, 5]))
            }
            9 if o.sv => UseKind::SvType,
            10 if o.sv => UseKind::SvInst,
            _ => continue,
        };
        return Some(Use { uid, kind });
    }
    None
}

pub fn draw_module(d: &mut Draw, p: &mut Project, o: &GenOpts) -> ItemId {
    let id = p.items.len();
    let generic = o.generics && d.chance(1, 7);
    let width = if generic { Width::Generic } else { draw_width(d, p, id) };
    let param = if d.chance(1, 3) {
        let k = p.fresh();
        Some((format!("P{k}"), d.range(1, 6) as u32))
    } else {
        None
    };
    let mut ins = vec![];
    for n in 0..(1 + d.weighted(&[1, 2])) {
        let k = p.fresh();
        let default = if n > 0 && d.chance(2, 3) {
            let c = candidates(p, id);
            let consts: Vec<(ItemId, usize)> =
                p.all_consts().into_iter().filter(|(q, _)| c.contains(q)).collect();
            Some(if !consts.is_empty() && d.chance(1, 2) {
                let (q, c) = consts[d.below_usize(consts.len())];
                PortDefault::Const(q, c)
            } else {
                PortDefault::Lit(d.range(0, 1) as u32)
            })
        } else {
            None
        };
        ins.push(Port {
            name: format!("i_{k}"),
            default,
        });
    }
    let mut outs = vec![];
    for _ in 0..d.usize_in(1, 2) {
        let k = p.fresh();
        outs.push(Port {
            name: format!("o_{k}"),
            default: None,
        });
    }
    let ifs: Vec<ItemId> = {
        let c = candidates(p, id);
        p.interfaces().into_iter().filter(|x| c.contains(x)).collect()
    };
    let modport = if !ifs.is_empty() && d.chance(1, 3) {
        Some(ifs[d.below_usize(ifs.len())])
    } else {
        None
    };
    let mut clocked = d.chance(1, 3);
    let want = d.usize_in(1, 4);
    // the item must exist for candidates(); push a placeholder first
    p.items.push(Item {
        id,
        name: if generic { format!("ModG{id}") } else { format!("Mod{id}") },
        kind: ItemKind::Module(Module {
            generic,
            param,
            clocked,
            width,
            ins,
            outs,
            modport,
            uses: vec![],
            knob: d.range(1, 9) as u32,
            op: d.below(5) as u8,
            ifdef: if d.chance(1, 10) { Some("DEF_A".into()) } else { None },
            inj: vec![],
            comment: d.chance(1, 2),
        }),
        alive: true,
    });
    let mut uses = vec![];
    for _ in 0..want {
        // children may force the module to be clocked
        if let Some(u) = draw_use(d, p, id, true, o) {
            if let UseKind::Inst { child, .. } = &u.kind
                && p.module(*child).clocked
            {
                clocked = true;
            }
            uses.push(u);
        }
    }
    let m = p.module_mut(id);
    m.uses = uses;
    m.clocked = clocked;
    id
}

pub fn draw_test(d: &mut Draw, p: &mut Project) -> Option<ItemId> {
    let id = p.items.len();
    let c = candidates(p, id);
    let duts: Vec<ItemId> = p
        .modules()
        .into_iter()
        .filter(|x| c.contains(x))
        .filter(|x| {
            let m = p.module(*x);
            !m.generic && m.modport.is_none()
        })
        .collect();
    if duts.is_empty() {
        return None;
    }
    let dut = duts[d.below_usize(duts.len())];
    p.items.push(Item {
        id,
        name: format!("test_{id}"),
        kind: ItemKind::Test(Test {
            dut,
            knob: d.range(0, 3) as u32,
        }),
        alive: true,
    });
    Some(id)
}

/// A file name not yet used (as full relative path); may reuse a stem that
/// exists in another directory.
pub fn draw_file_name(d: &mut Draw, p: &Project, o: &GenOpts) -> String {
    let used: Vec<String> = p.files.iter().map(|f| f.rel.clone()).collect(); // dead files too: no resurrection by accident
    let bundle = p.cfg.is_bundle();
    for _ in 0..20 {
        let dir = DIRS[d.weighted(&[5, 2, 1, 1])];
        let stem = STEMS[d.below_usize(STEMS.len())];
        let rel = format!("src/{dir}{stem}.veryl");
        if used.contains(&rel) {
            continue;
        }
        let dup = p
            .files
            .iter()
            .any(|f| f.alive && f.rel.ends_with(&format!("/{stem}.veryl")));
        if dup && (bundle || !o.dup_names) {
            continue;
        }
        return rel;
    }
    format!("src/f{}.veryl", p.counter + 1000 + used.len() as u32)
}

pub fn gen_project(d: &mut Draw, o: &GenOpts) -> Project {
    let cfg = TomlCfg::draw(d);
    let mut p = Project {
        cfg,
        items: vec![],
        files: vec![],
        counter: 0,
        counter_cyclic_placements: 0,
        placed: false,
    };
    let n_items = d.usize_in(o.min_items, o.max_items);
    for n in 0..n_items {
        let kind = if n == 0 { d.weighted(&[7, 3]) } else { d.weighted(&[3, 5, 1, 1, 1]) };
        match kind {
            0 => {
                draw_package(d, &mut p, false);
            }
            1 => {
                draw_module(d, &mut p, o);
            }
            2 => {
                draw_interface(d, &mut p);
            }
            3 if o.tests => {
                if draw_test(d, &mut p).is_none() {
                    draw_module(d, &mut p, o);
                }
            }
            4 if o.generics => {
                draw_package(d, &mut p, true);
            }
            _ => {
                draw_module(d, &mut p, o);
            }
        }
    }
    // spread the items over files
    let n_files = d.usize_in(2.min(n_items), o.max_files.min(n_items));
    for _ in 0..n_files {
        let rel = draw_file_name(d, &p, o);
        p.files.push(SrcFile {
            rel,
            items: vec![],
            alive: true,
            syntax_err: None,
            loose: o.loose_per_mille > 0 && d.below(1000) < o.loose_per_mille,
            header: if d.chance(1, 3) { Some("generated".into()) } else { None },
        });
    }
    let free = d.chance(1, 2);
    for it in 0..n_items {
        let fi = if it < n_files { it } else { d.below_usize(n_files) };
        p.files[fi].items.push(it);
    }
    if !free || p.file_graph_cyclic() {
        // monotone placement: the file index never decreases with the item
        // id, and items only reference lower ids => no file-level cycle
        if free {
            p.counter_cyclic_placements += 1;
        }
        for f in p.files.iter_mut() {
            f.items.clear();
        }
        let mut cuts: Vec<usize> = (0..n_files - 1).map(|_| d.usize_in(1, n_items - 1)).collect();
        cuts.sort();
        for it in 0..n_items {
            let fi = cuts.iter().filter(|c| **c <= it).count();
            p.files[fi].items.push(it);
        }
        // empty files get nothing to render: drop them
        p.files.retain(|f| !f.items.is_empty());
    }
    // examples/
    if o.examples && d.chance(1, 5) {
        let id = draw_module(d, &mut p, o);
        let mut items = vec![id];
        if o.tests
            && d.chance(1, 2)
            && let Some(t) = draw_test(d, &mut p)
        {
            items.push(t);
        }
        p.files.push(SrcFile {
            rel: "examples/ex.veryl".into(),
            items,
            alive: true,
            syntax_err: None,
            loose: false,
            header: None,
        });
    }
    if p.file_graph_cyclic() {
        // only the examples module can have closed a cycle (generic argument edge)
        if let Some(f) = p.files.last() {
            for it in f.items.clone() {
                if let ItemKind::Module(m) = &mut p.items[it].kind {
                    m.uses.clear();
                }
            }
        }
        p.counter_cyclic_placements += 1;
    }
    p.placed = true;
    if o.warn_per_mille > 0 && d.below(1000) < o.warn_per_mille {
        let mods = p.modules();
        if !mods.is_empty() {
            let m = mods[d.below_usize(mods.len())];
            let k = p.fresh();
            let inj = draw_warning(d, p.module(m).clocked).with_uid(k);
            p.module_mut(m).inj.push(inj);
        }
    }
    p
}

/// One of the warning injections (uid 0; use `Inject::with_uid`).
pub fn draw_warning(d: &mut Draw, clocked: bool) -> Inject {
    match d.weighted(&[2, 2, 2, 2, 2, 1]) {
        0 => Inject::WarnUnused(0),
        1 => Inject::WarnShift(0),
        2 => Inject::WarnLogical(0),
        3 if clocked => Inject::WarnMissingReset(0),
        4 => Inject::WarnUncovered(0),
        5 => Inject::WarnStrAssign(0),
        _ => Inject::WarnShift(0),
    }
}

/// Prepare a "warning in A caused by B" hook: a fresh constant `= 1` in a
/// package and, in a module of ANOTHER file, a logical operation on a value of
/// that width.  Clean as generated; `EditOp::SetConst` to 2 (only the package's
/// file changes) makes the module's file report `invalid_logical_operand`.
pub fn add_cross_warning_hook(d: &mut Draw, p: &mut Project) -> Option<(ItemId, usize)> {
    let mut pairs = vec![];
    for m in p.modules() {
        let Some(fm) = p.file_of(m) else { continue };
        if p.files[fm].is_example() {
            continue;
        }
        for q in p.packages(false) {
            if q < m
                && let Some(fq) = p.file_of(q)
                && fq != fm
                && !p.files[fq].is_example()
            {
                pairs.push((m, q));
            }
        }
    }
    if pairs.is_empty() {
        return None;
    }
    let (m, q) = pairs[d.below_usize(pairs.len())];
    let k = p.fresh();
    p.pkg_mut(q).consts.push(ConstDef {
        name: format!("C{k}"),
        val: ConstVal::Lit(1),
    });
    let idx = p.pkg(q).consts.len() - 1;
    let uid = p.fresh();
    p.module_mut(m).uses.push(Use {
        uid,
        kind: UseKind::LogicalOnConst(q, idx),
    });
    if p.file_graph_cyclic() {
        p.module_mut(m).uses.pop();
        p.pkg_mut(q).consts.pop();
        return None;
    }
    Some((q, idx))
}
