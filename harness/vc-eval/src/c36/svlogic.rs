//! C36 part 1: the DPI `svLogicVecVal` encoding.
//!
//! Oracle: `vbv::Bv::to_sv_logic_words` (Annex H table written out per bit),
//! independent of veryl's (payload, mask_xz) arithmetic.

use crate::c17::{draw_bv, from_value, to_value};
use std::ffi::{CString, c_char, c_void};
use std::sync::Mutex;
use std::sync::mpsc::{Receiver, Sender, channel};
use vbv::{Bit, Bv};
use vcore::{CaseCfg, Ctx, Draw, Outcome, hash_str, json};
use veryl_analyzer::value::{SvLogicVecVal, Value};

fn words_of(v: &[SvLogicVecVal]) -> Vec<(u32, u32)> {
    v.iter().map(|w| (w.aval, w.bval)).collect()
}

fn show(w: &[(u32, u32)]) -> String {
    w.iter().map(|(a, b)| format!("(a={a:08x},b={b:08x})")).collect::<Vec<_>>().join(" ")
}

/// Which Annex H rule a wrong word breaks, as a stable signature fragment.
fn diagnose(bv: &Bv, got: &[(u32, u32)]) -> String {
    let exp = bv.to_sv_logic_words();
    if got.len() != exp.len() {
        return "word-count".into();
    }
    for i in 0..bv.width() {
        let (a, b) = ((got[i / 32].0 >> (i % 32)) & 1, (got[i / 32].1 >> (i % 32)) & 1);
        let want = bv.bit(i);
        let have = match (a, b) {
            (0, 0) => Bit::Zero,
            (1, 0) => Bit::One,
            (0, 1) => Bit::Z,
            _ => Bit::X,
        };
        if want != have {
            return format!("bit-{}-encoded-as-{}", want.to_char(), have.to_char());
        }
    }
    "padding-bits-not-zero".into()
}

/// The direct conversions for one value.
fn check_conversions(bv: &Bv) -> Result<(), (String, String)> {
    let w = bv.width();
    let v = to_value(bv);
    let expected = bv.to_sv_logic_words();
    // Value -> words
    let words: Vec<SvLogicVecVal> = (&v).into();
    let got = words_of(&words);
    if got != expected {
        return Err((
            format!("svlogic:to-words:{}", diagnose(bv, &got)),
            format!("Vec<SvLogicVecVal>::from({bv})\n  Annex H: {}\n  veryl  : {}", show(&expected), show(&got)),
        ));
    }
    // words -> Value (from the Annex H words, not from veryl's own output)
    let input: Vec<SvLogicVecVal> = expected.iter().map(|(a, b)| SvLogicVecVal { aval: *a, bval: *b }).collect();
    let back = Value::from(input.as_slice());
    if back.width() != expected.len() * 32 {
        return Err((
            "svlogic:from-words:width".into(),
            format!("Value::from({} words) has width {}", expected.len(), back.width()),
        ));
    }
    let mut t = back.clone();
    t.trunc(w);
    match from_value(&t) {
        Err(e) => return Err(("svlogic:from-words:stale-high-bits".into(), format!("Value::from(words of {bv}).trunc({w}): {e}"))),
        Ok(b) => {
            if b.bits() != bv.bits() {
                return Err((
                    "svlogic:from-words:bits".into(),
                    format!("Value::from({}) truncated to {w} bits\n  expected {}\n  got      {}", show(&expected), bv.with_signed(false), b.with_signed(false)),
                ));
            }
        }
    }
    // the round trip through veryl's own words as well
    let rt = Value::from(words.as_slice());
    let mut rt2 = rt.clone();
    rt2.trunc(w);
    if from_value(&rt2).map(|b| b.bits().to_vec()) != Ok(bv.bits().to_vec()) {
        return Err(("svlogic:round-trip".into(), format!("round trip of {bv} gives {:?}", from_value(&rt2).map(|b| b.to_string()))));
    }
    Ok(())
}

// ---------------------------------------------------------------------------
// cosim entry points (the real cdylib, dlopen'ed)
// ---------------------------------------------------------------------------

const PORT_WIDTHS: [usize; 16] = [1, 2, 7, 31, 32, 33, 48, 63, 64, 65, 95, 96, 97, 120, 127, 128];

type OpenFn = unsafe extern "C" fn(*const c_char, *const c_char, bool) -> *mut c_void;
type CloseFn = unsafe extern "C" fn(*mut c_void);
type SetFn = unsafe extern "C" fn(*mut c_void, *const c_char, *const SvLogicVecVal);
type GetFn = unsafe extern "C" fn(*mut c_void, *const c_char, *mut SvLogicVecVal);

struct Req {
    port_width: usize,
    words: [(u32, u32); 4],
    reply: Sender<([(u32, u32); 4], [(u32, u32); 4])>,
}

fn cosim_lib_path() -> std::path::PathBuf {
    if let Ok(p) = std::env::var("VERIF_COSIM_LIB") {
        return p.into();
    }
    let exe = std::env::current_exe().expect("current_exe");
    exe.parent().expect("exe dir").join("deps").join("libveryl_cosim.so")
}

/// The cdylib keeps its own thread-local string table: every call has to come
/// from the thread that opened the simulator, so one server thread owns it.
fn cosim_server(rx: Receiver<Req>, ready: Sender<Result<(), String>>) {
    let path = cosim_lib_path();
    let lib = match unsafe { libloading::Library::new(&path) } {
        Ok(l) => l,
        Err(e) => {
            let _ = ready.send(Err(format!("cannot load {}: {e}", path.display())));
            return;
        }
    };
    let (open, close, set, get) = unsafe {
        let o = lib.get::<OpenFn>(b"cosim_open\0");
        let c = lib.get::<CloseFn>(b"cosim_close\0");
        let s = lib.get::<SetFn>(b"cosim_set\0");
        let g = lib.get::<GetFn>(b"cosim_get\0");
        match (o, c, s, g) {
            (Ok(o), Ok(c), Ok(s), Ok(g)) => (*o, *c, *s, *g),
            _ => {
                let _ = ready.send(Err("cosim entry points not found in the library".into()));
                return;
            }
        }
    };
    let scratch = vcore::util::Scratch::new("c36-cosim");
    let mut src = String::from("module C36Top (\n");
    for w in PORT_WIDTHS {
        src.push_str(&format!("    pi{w}: input  logic<{w}>,\n    po{w}: output logic<{w}>,\n"));
    }
    src.push_str(") {\n");
    for w in PORT_WIDTHS {
        src.push_str(&format!("    assign po{w} = pi{w};\n"));
    }
    src.push_str("}\n");
    let file = scratch.join("c36top.veryl");
    vcore::util::write_file(&file, &src);
    let cpath = CString::new(file.to_string_lossy().as_bytes()).unwrap();
    let ctop = CString::new("C36Top").unwrap();
    let handle = unsafe { open(cpath.as_ptr(), ctop.as_ptr(), true) };
    if handle.is_null() {
        let _ = ready.send(Err("cosim_open returned null".into()));
        return;
    }
    let _ = ready.send(Ok(()));
    for req in rx {
        let input: [SvLogicVecVal; 4] = std::array::from_fn(|i| SvLogicVecVal { aval: req.words[i].0, bval: req.words[i].1 });
        let iname = CString::new(format!("pi{}", req.port_width)).unwrap();
        let oname = CString::new(format!("po{}", req.port_width)).unwrap();
        let mut gi = [SvLogicVecVal { aval: 0xdead_beef, bval: 0xdead_beef }; 4];
        let mut go = gi;
        unsafe {
            set(handle, iname.as_ptr(), input.as_ptr());
            get(handle, iname.as_ptr(), gi.as_mut_ptr());
            get(handle, oname.as_ptr(), go.as_mut_ptr());
        }
        let _ = req.reply.send((std::array::from_fn(|i| (gi[i].aval, gi[i].bval)), std::array::from_fn(|i| (go[i].aval, go[i].bval))));
    }
    unsafe { close(handle) };
    drop(lib);
}

fn pad4(w: &[(u32, u32)]) -> [(u32, u32); 4] {
    std::array::from_fn(|i| w.get(i).copied().unwrap_or((0, 0)))
}

fn cosim_case(tx: &Mutex<Sender<Req>>, d: &mut Draw) -> Outcome {
    let pw = *d.pick(&PORT_WIDTHS);
    // what the foreign side writes: four full words; bits above the port
    // width are sometimes garbage (the port keeps its low `pw` bits)
    let garbage = d.chance(1, 3);
    let vw = if garbage { 128 } else { pw };
    let bv = draw_bv(d, vw, false);
    let words = pad4(&bv.to_sv_logic_words());
    let kept = bv.truncate(pw);
    let expected = pad4(&kept.to_sv_logic_words());
    let (rtx, rrx) = channel();
    if tx.lock().unwrap().send(Req { port_width: pw, words, reply: rtx }).is_err() {
        return Outcome::skip("cosim server gone");
    }
    let Ok((gi, go)) = rrx.recv() else {
        return Outcome::skip("cosim server gone");
    };
    let text = format!("cosim_set(pi{pw}, {}) -> port holds {}", show(&words), kept.with_signed(false));
    for (what, got) in [("input port read back", gi), ("through `assign o = i`", go)] {
        if got != expected {
            let sig = if got.iter().zip(expected.iter()).skip(pw.div_ceil(32)).any(|(g, e)| g != e) {
                "upper-words".to_string()
            } else {
                diagnose(&kept, &got[..pw.div_ceil(32)])
            };
            return Outcome::fail(
                format!("svlogic:cosim:{}:{sig}", if what.starts_with("input") { "set-get" } else { "assign" }),
                format!("{text}\n  cosim_get ({what})\n  Annex H: {}\n  veryl  : {}", show(&expected), show(&got)),
                json!({"port_width": pw, "words": words.iter().map(|(a, b)| json!([a, b])).collect::<Vec<_>>()}),
            );
        }
    }
    let mut classes = vec!["cosim".to_string(), format!("cosim_port:{pw}")];
    if garbage {
        classes.push("cosim_garbage_above_port_width".into());
    }
    if kept.has_xz() {
        classes.push("xz".into());
    }
    Outcome::pass(hash_str(&text), pw > 64 || kept.has_xz(), classes, text)
}

// ---------------------------------------------------------------------------

fn draw_width(d: &mut Draw) -> usize {
    match d.weighted(&[2, 5, 3]) {
        0 => d.usize_in(1, 8),
        1 => {
            let m = 32 * d.usize_in(1, 9);
            (m + d.usize_in(0, 2)).saturating_sub(1).clamp(1, 300)
        }
        _ => d.usize_in(1, 300),
    }
}

pub fn run(ctx: &Ctx) {
    // enumerated: every width 1..=300 × {all-0, all-1, all-X, all-Z, single-bit walks at the word boundaries}
    if !ctx.replay_mode() {
        for w in 1..=300usize {
            let mut vals: Vec<Bv> = Bit::ALL.iter().map(|b| Bv::filled(*b, w, false)).collect();
            let mut pos: Vec<usize> = vec![0, w - 1];
            for k in 1..=9 {
                for p in [32 * k - 1, 32 * k, 32 * k + 1] {
                    if p < w {
                        pos.push(p);
                    }
                }
            }
            pos.sort();
            pos.dedup();
            for p in &pos {
                for b in [Bit::One, Bit::X, Bit::Z] {
                    let mut bits = vec![Bit::Zero; w];
                    bits[*p] = b;
                    vals.push(Bv::new(bits, false));
                    // and on a background of ones
                    let mut bits = vec![Bit::One; w];
                    bits[*p] = if b == Bit::One { Bit::Zero } else { b };
                    vals.push(Bv::new(bits, false));
                }
            }
            let n = vals.len();
            let mut bad: Option<(String, String, String)> = None;
            for v in &vals {
                if let Err((sig, msg)) = check_conversions(v) {
                    bad = Some((sig, msg, v.to_string()));
                    break;
                }
            }
            let out = match bad {
                None => Outcome::pass(
                    hash_str(&format!("enum{w}")),
                    true,
                    vec!["enumerated_width".into(), if w % 32 == 0 { "width_multiple_of_32".into() } else if w % 32 == 1 || w % 32 == 31 { "width_multiple_of_32_pm1".into() } else { "width_other".into() }],
                    format!("width {w}: {n} enumerated values (all-0/1/X/Z, single-bit walks)"),
                ),
                Some((sig, msg, v)) => Outcome::fail(sig, msg, json!({"value": v})),
            };
            ctx.record("svlogic-enum", out, json!({"width": w}));
        }
        ctx.note("enumerated_widths", json!("1..=300"));
    }

    let n = ctx.scale(1_000_000, 10_000_000);
    ctx.run("svlogic", CaseCfg::cases(n).choices(80).same_thread(), |d| {
        let w = draw_width(d);
        let sg = d.bool();
        let bv = draw_bv(d, w, sg);
        let text = bv.to_string();
        match check_conversions(&bv) {
            Err((sig, msg)) => Outcome::fail(sig, msg, json!({"value": text})),
            Ok(()) => {
                let mut classes = vec![];
                classes.push(
                    match w % 32 {
                        0 => "width_multiple_of_32",
                        1 | 31 => "width_multiple_of_32_pm1",
                        _ => "width_other",
                    }
                    .to_string(),
                );
                if w > 64 {
                    classes.push("wide(>64)".into());
                }
                if bv.has_xz() {
                    classes.push("xz".into());
                }
                if bv.bits().contains(&Bit::Z) {
                    classes.push("z_bit".into());
                }
                Outcome::pass(hash_str(&text), w > 64 || bv.has_xz(), classes, text)
            }
        }
    });

    // cosim_set / cosim_get of the real cdylib
    let (tx, rx) = channel::<Req>();
    let (rtx, rrx) = channel();
    let server = std::thread::Builder::new().stack_size(64 << 20).spawn(move || cosim_server(rx, rtx)).expect("spawn");
    match rrx.recv() {
        Ok(Ok(())) => {
            let tx = Mutex::new(tx);
            let n = ctx.scale(200_000, 2_000_000);
            ctx.run("cosim", CaseCfg::cases(n).choices(80).threads(1).same_thread(), |d| cosim_case(&tx, d));
            drop(tx);
            let _ = server.join();
        }
        Ok(Err(e)) => {
            println!("INCONCLUSIVE property=C36: {e}");
            std::process::exit(2);
        }
        Err(_) => {
            println!("INCONCLUSIVE property=C36: the cosim server thread died while opening the design");
            std::process::exit(2);
        }
    }

    ctx.assume("Annex H encoding per bit: 0=(aval 0,bval 0) 1=(1,0) Z=(0,1) X=(1,1); unused bits of the last word are 0");
    ctx.assume("cosim entry points are exercised in the real cdylib (deps/libveryl_cosim.so next to the check binary) on a design of pass-through ports of 16 widths up to 128 (the DPI signature carries four words)");
}
