//! C36 (2) — waveform dumps (VCD / FST) record exactly the values the
//! simulator holds at each dumped time.
//!
//! Case: a generated design (`vdesign::gen_design`: hierarchy, arrays,
//! structs, signed and wide (> 64, > 128 bit) variables, flip-flops with
//! reset) × a stimulus (reset window, corner-biased vectors; under a 4-state
//! engine also X / Z bits on the inputs) × one engine of `Config::all()`
//! (interpreter / JIT, ± `disable_ff_opt`, 2- and 4-state; `cc` on a
//! fraction) × a driving protocol:
//!   * `api` — the simulator's own unit-test protocol
//!     (`tests/simulation.rs::dump_vcd`): `step`, `time += dt`;
//!   * `tb`  — the native testbench protocol of `veryl test --wave`
//!     (`testbench.rs::exec_one`, `ClockNext` / `ResetAssert`): clock variable
//!     driven to 1, `step`, `time += high`, clock variable to 0,
//!     `dump_variables`, `time += low`; the reset level held over a run of
//!     reset cycles.
//! The dumper is attached through `Simulator::new(ir, Some(dumper))` or
//! through `attach_dump` (what the CLI does).  Comb fusion and AOT-C
//! localisation are disabled process-wide before the first analysis, exactly
//! as `cmd_test.rs` does for `--wave`.
//!
//! Sampling points (derived from simulator.rs): `Simulator::step` ends with
//! `dump_variables()`, which settles the combinational logic when dirty,
//! writes `#<sim.time>` and then every variable of the hierarchy (every array
//! element) read from the variable storage; the testbench calls
//! `dump_variables()` once more after the clock variable went low.  Nothing
//! but `ensure_comb_updated()` (what `get_var` does before it reads; a no-op
//! right after a dump) runs between that call and the harness' own snapshot,
//! which reads the same storage bytes *by itself* (payload bytes, then mask
//! bytes, little endian — not through `read_native_value`) and cross-checks
//! them with `Simulator::get_var` for every variable that API can address.
//!
//! Oracle, for the VCD (parsed by the parser below) and the FST (read with the
//! `fst-reader` crate, which shares no code with the `fst-writer` crate the
//! dumper uses):
//!   * the set of declared variables = the variables of the hierarchy (scope
//!     path, name, `[i]` per array element), each with its width;
//!   * every timestamp of the dump is a time at which the simulator dumped;
//!   * at every dump time, every variable's value reconstructed from the dump
//!     (last change at or before that time; IEEE 1364 left-extension) equals
//!     the snapshot bit for bit, X and Z included;
//!   * the snapshots equal those of a run of the same engine and protocol
//!     without a dumper.

use num_bigint::BigUint;
use num_traits::{One, Zero};
use std::collections::{BTreeMap, BTreeSet};
use std::sync::atomic::{AtomicU64, Ordering};
use std::sync::{Arc, Mutex};
use vcore::{CaseCfg, Ctx, Draw, Outcome, hash_str, json};
use vdesign::*;
use veryl_simulator::ir::{Event, ModuleVariables, Value, VarId, build_ir};
use veryl_simulator::wave_dumper::{SharedVec, WaveDumper};
use veryl_simulator::{Config, Simulator, output_buffer};

// ---------------------------------------------------------------- dump model

/// One variable as a dump declares it.
#[derive(Clone, Debug)]
struct DeclVar {
    scope: Vec<String>,
    name: String,
    width: usize,
    /// VCD identifier code / FST handle index
    id: String,
}

/// A parsed dump: declarations and value changes grouped by timestamp, in
/// file order.
#[derive(Clone, Debug, Default)]
struct Dump {
    timescale: String,
    vars: Vec<DeclVar>,
    frames: Vec<(u64, Vec<(String, String)>)>,
}

/// Minimal VCD reader (IEEE 1364 §18): declaration commands, scopes, `$var`,
/// `#time`, scalar and vector changes (0 1 x z, any case), real / string
/// changes (kept as text), `$dumpvars`-style sections, `$comment`.
fn parse_vcd(text: &str) -> Result<Dump, String> {
    let mut d = Dump::default();
    let mut toks = text.split_ascii_whitespace();
    let mut scope: Vec<String> = vec![];
    // ---- declarations
    let mut in_body = false;
    while let Some(t) = toks.next() {
        match t {
            "$scope" => {
                let _ty = toks.next().ok_or("truncated $scope")?;
                let name = toks.next().ok_or("truncated $scope")?;
                if toks.next() != Some("$end") {
                    return Err(format!("$scope {name}: missing $end"));
                }
                scope.push(name.to_string());
            }
            "$upscope" => {
                if toks.next() != Some("$end") {
                    return Err("$upscope: missing $end".into());
                }
                if scope.pop().is_none() {
                    return Err("$upscope without an open scope".into());
                }
            }
            "$var" => {
                let _ty = toks.next().ok_or("truncated $var")?;
                let width: usize = toks.next().ok_or("truncated $var")?.parse().map_err(|e| format!("$var width: {e}"))?;
                let id = toks.next().ok_or("truncated $var")?.to_string();
                let mut name = String::new();
                loop {
                    let x = toks.next().ok_or("truncated $var")?;
                    if x == "$end" {
                        break;
                    }
                    if !name.is_empty() {
                        name.push(' ');
                    }
                    name.push_str(x);
                }
                if name.is_empty() {
                    return Err(format!("$var {id}: no reference"));
                }
                d.vars.push(DeclVar {
                    scope: scope.clone(),
                    name,
                    width,
                    id,
                });
            }
            "$timescale" => {
                let mut v = vec![];
                loop {
                    let x = toks.next().ok_or("truncated $timescale")?;
                    if x == "$end" {
                        break;
                    }
                    v.push(x);
                }
                d.timescale = v.join(" ");
            }
            "$enddefinitions" => {
                if toks.next() != Some("$end") {
                    return Err("$enddefinitions: missing $end".into());
                }
                in_body = true;
                break;
            }
            x if x.starts_with('$') => loop {
                // $date $version $comment …
                let y = toks.next().ok_or_else(|| format!("truncated {x}"))?;
                if y == "$end" {
                    break;
                }
            },
            x => return Err(format!("unexpected token {x:?} in the declarations")),
        }
    }
    if !in_body {
        return Err("no $enddefinitions".into());
    }
    if !scope.is_empty() {
        return Err(format!("{} scope(s) left open", scope.len()));
    }
    // ---- value changes
    while let Some(t) = toks.next() {
        let c = t.as_bytes()[0];
        match c {
            b'#' => {
                let time: u64 = t[1..].parse().map_err(|e| format!("timestamp {t}: {e}"))?;
                d.frames.push((time, vec![]));
            }
            b'$' => match t {
                "$comment" => loop {
                    let y = toks.next().ok_or("truncated $comment")?;
                    if y == "$end" {
                        break;
                    }
                },
                // $dumpvars $dumpall $dumpon $dumpoff … $end: the changes inside count
                _ => {}
            },
            b'b' | b'B' | b'r' | b'R' | b's' | b'S' => {
                let id = toks.next().ok_or_else(|| format!("change {t} without identifier"))?;
                let val = if matches!(c, b'b' | b'B') {
                    let bits = t[1..].to_ascii_lowercase();
                    if bits.is_empty() || !bits.bytes().all(|b| matches!(b, b'0' | b'1' | b'x' | b'z')) {
                        return Err(format!("malformed vector value {t:?}"));
                    }
                    bits
                } else {
                    t.to_string()
                };
                let Some(f) = d.frames.last_mut() else {
                    return Err(format!("value change {t} {id} before the first timestamp"));
                };
                f.1.push((id.to_string(), val));
            }
            b'0' | b'1' | b'x' | b'X' | b'z' | b'Z' => {
                let id = &t[1..];
                if id.is_empty() {
                    return Err(format!("scalar change {t:?} without identifier"));
                }
                let Some(f) = d.frames.last_mut() else {
                    return Err(format!("value change {t} before the first timestamp"));
                };
                f.1.push((id.to_string(), t[..1].to_ascii_lowercase()));
            }
            _ => return Err(format!("unexpected token {t:?} in the value changes")),
        }
    }
    Ok(d)
}

/// FST through `fst-reader` (hierarchy + every value change, time order).
fn read_fst(path: &std::path::Path) -> Result<Dump, String> {
    use fst_reader::{FstFilter, FstHierarchyEntry, FstReader, FstSignalValue};
    let p = path.to_path_buf();
    let r = std::panic::catch_unwind(move || -> Result<Dump, String> {
        let f = std::fs::File::open(&p).map_err(|e| format!("open: {e}"))?;
        let mut rd = FstReader::open(std::io::BufReader::new(f)).map_err(|e| format!("open: {e:?}"))?;
        let hd = rd.get_header();
        let mut d = Dump {
            timescale: format!("1e{} s", hd.timescale_exponent),
            ..Default::default()
        };
        let mut scope: Vec<String> = vec![];
        let mut bad: Option<String> = None;
        rd.read_hierarchy(|e| match e {
            FstHierarchyEntry::Scope { name, .. } => scope.push(name),
            FstHierarchyEntry::UpScope => {
                if scope.pop().is_none() {
                    bad = Some("upscope without an open scope".into());
                }
            }
            FstHierarchyEntry::Var { name, length, handle, .. } => d.vars.push(DeclVar {
                scope: scope.clone(),
                name,
                width: length as usize,
                id: handle.get_index().to_string(),
            }),
            _ => {}
        })
        .map_err(|e| format!("hierarchy: {e:?}"))?;
        if let Some(b) = bad {
            return Err(b);
        }
        if !scope.is_empty() {
            return Err(format!("{} scope(s) left open", scope.len()));
        }
        let mut frames: Vec<(u64, Vec<(String, String)>)> = vec![];
        rd.read_signals(&FstFilter::all(), |t, h, v| -> Result<(), String> {
            let val = match v {
                FstSignalValue::String(s) => String::from_utf8_lossy(s).to_ascii_lowercase(),
                FstSignalValue::Real(r) => format!("r{r}"),
            };
            match frames.last_mut() {
                Some(f) if f.0 == t => f.1.push((h.get_index().to_string(), val)),
                Some(f) if f.0 > t => return Err(format!("time goes backwards: {} after {}", t, f.0)),
                _ => frames.push((t, vec![(h.get_index().to_string(), val)])),
            }
            Ok(())
        })
        .map_err(|e| format!("signals: {e:?}"))?;
        d.frames = frames;
        Ok(d)
    });
    match r {
        Ok(x) => x,
        Err(e) => Err(format!("fst-reader panicked: {}", panic_text(&e))),
    }
}

fn panic_text(e: &Box<dyn std::any::Any + Send>) -> String {
    if let Some(s) = e.downcast_ref::<&str>() {
        s.to_string()
    } else if let Some(s) = e.downcast_ref::<String>() {
        s.clone()
    } else {
        "panic".into()
    }
}

/// IEEE 1364 §18.2.2 left-extension of a shortened vector value.
fn extend(bits: &str, width: usize) -> Option<String> {
    if bits.len() == width {
        return Some(bits.to_string());
    }
    if bits.len() > width || bits.is_empty() {
        return None;
    }
    let fill = match bits.as_bytes()[0] {
        b'x' => 'x',
        b'z' => 'z',
        _ => '0',
    };
    let mut s: String = std::iter::repeat_n(fill, width - bits.len()).collect();
    s.push_str(bits);
    Some(s)
}

// ------------------------------------------------------ what the simulator holds

/// One storage element of the simulator's variable tree.
#[derive(Clone, Debug)]
struct Held {
    scope: Vec<String>,
    /// name the dumper is expected to declare (`path` sanitised, `[i]` for an
    /// element of an unpacked array)
    name: String,
    width: usize,
    ptr: *const u8,
    nb: usize,
    /// `get_var` path (element 0 only, unique paths only)
    api_path: Option<String>,
}

fn sanitize(name: &str) -> String {
    name.replace("::<", "_").replace('>', "").replace("::", "_")
}

fn collect_held(m: &ModuleVariables, scope: &mut Vec<String>, api_prefix: &str, out: &mut Vec<Held>) {
    scope.push(sanitize(&m.name.to_string()));
    for v in m.variables.values() {
        let base = sanitize(&v.path.to_string());
        let n = v.current_values.len();
        for (i, &ptr) in v.current_values.iter().enumerate() {
            out.push(Held {
                scope: scope.clone(),
                name: if n > 1 { format!("{base}[{i}]") } else { base.clone() },
                width: v.width,
                ptr: ptr as *const u8,
                nb: v.native_bytes,
                api_path: if i == 0 { Some(format!("{api_prefix}{}", v.path)) } else { None },
            });
        }
    }
    for c in &m.children {
        collect_held(c, scope, &format!("{api_prefix}{}.", c.name), out);
    }
    scope.pop();
}

fn low_mask(w: usize) -> BigUint {
    (BigUint::one() << w) - BigUint::one()
}

fn bits_of(payload: &BigUint, mask: &BigUint, w: usize) -> String {
    let mut s = String::with_capacity(w);
    for i in (0..w as u64).rev() {
        s.push(match (mask.bit(i), payload.bit(i)) {
            (false, false) => '0',
            (false, true) => '1',
            (true, false) => 'x',
            (true, true) => 'z',
        });
    }
    s
}

/// The storage bytes of one element as the bit string a dump must show
/// (layout: `nb` payload bytes, then — 4-state — `nb` mask bytes, little
/// endian; mask 1 / payload 0 = X, mask 1 / payload 1 = Z).
fn read_held(h: &Held, four: bool) -> String {
    // SAFETY: the pointers come from the simulator's variable tree and stay
    // valid while the simulator lives; the harness only reads.
    let (p, m) = unsafe {
        let p = BigUint::from_bytes_le(std::slice::from_raw_parts(h.ptr, h.nb));
        let m = if four { BigUint::from_bytes_le(std::slice::from_raw_parts(h.ptr.add(h.nb), h.nb)) } else { BigUint::zero() };
        (p, m)
    };
    let lm = low_mask(h.width);
    bits_of(&(p & &lm), &(m & &lm), h.width)
}

// ------------------------------------------------------------------ the driver

#[derive(Clone, Copy, Debug, PartialEq, Eq)]
enum Protocol {
    /// step; time += dt (simulator unit tests)
    Api,
    /// native testbench: clock variable toggled, second dump per cycle
    Tb,
}

/// `Stimulus` plus X/Z overlays for the 4-state engines and the time steps.
#[derive(Clone, Debug)]
struct WStim {
    stim: Stimulus,
    /// per step, per input: (payload, mask) replacing the 2-state value under a 4-state engine
    xz: Vec<Vec<Option<(BigUint, BigUint)>>>,
    /// per step: (high_time, low_time)
    dt: Vec<(u64, u64)>,
}

struct RunOut {
    held: Vec<Held>,
    times: Vec<u64>,
    snaps: Vec<Vec<String>>,
}

fn value_of(payload: &BigUint, mask: &BigUint, width: usize) -> Value {
    let nb = width.div_ceil(64) * 8;
    let mut p = payload.to_bytes_le();
    let mut m = mask.to_bytes_le();
    p.resize(nb, 0);
    m.resize(nb, 0);
    Value::from_le_bytes(&p, &m, width, false)
}

fn snapshot(sim: &mut Simulator, held: &[Held], four: bool, has_dump: bool, out: &mut RunOut) -> Result<(), String> {
    // "the value the simulator holds" is what `get_var` returns, and `get_var`
    // settles the combinational logic first.  With a dumper this is a no-op when
    // the dump was taken where simulator.rs takes it (dump_variables settles,
    // then writes); a dump taken earlier or unsettled then differs from the snapshot.
    let _ = has_dump;
    sim.ensure_comb_updated();
    let row: Vec<String> = held.iter().map(|h| read_held(h, four)).collect();
    // the API's view of the same storage
    for (h, bits) in held.iter().zip(&row) {
        let Some(p) = &h.api_path else { continue };
        let Some(v) = sim.get_var(p) else {
            return Err(format!("get_var({p}) finds nothing although the variable tree lists it"));
        };
        if v.width() != h.width {
            return Err(format!("get_var({p}) has width {} (tree: {})", v.width(), h.width));
        }
        let lm = low_mask(h.width);
        let api = bits_of(&(v.payload().into_owned() & &lm), &(v.mask_xz().into_owned() & &lm), h.width);
        if api != *bits {
            return Err(format!("get_var({p}) = {api} but the storage bytes read {bits}"));
        }
    }
    out.times.push(sim.time);
    out.snaps.push(row);
    Ok(())
}

fn drive(a: &Analyzed, cfg: &Config, ws: &WStim, proto: Protocol, attach_late: bool, dumper: Option<WaveDumper>) -> Result<RunOut, String> {
    let has_dump = dumper.is_some();
    let ir = build_ir(&a.ir, "Top".into(), cfg).map_err(|e| format!("build_ir: {e}"))?;
    let mut sim = if attach_late {
        // the CLI's native test flow (run_native_testbench_timed)
        let mut s = Simulator::new(ir, None);
        if let Some(d) = dumper {
            s.attach_dump(d);
        }
        s
    } else {
        Simulator::new(ir, dumper)
    };
    let mut held = vec![];
    collect_held(&sim.ir.module_variables, &mut vec![], "", &mut held);
    // get_var is only meaningful for paths that name one storage
    {
        let mut seen: BTreeMap<String, usize> = BTreeMap::new();
        for h in &held {
            if let Some(p) = &h.api_path {
                *seen.entry(p.clone()).or_insert(0) += 1;
            }
        }
        for h in held.iter_mut() {
            if let Some(p) = &h.api_path {
                if seen[p] > 1 {
                    h.api_path = None;
                }
            }
        }
    }
    let stim = &ws.stim;
    let clk = match &stim.clock {
        Some(c) => sim.get_clock(c).ok_or_else(|| format!("no clock port {c}"))?,
        None => Event::Clock(VarId::SYNTHETIC),
    };
    let rst = match &stim.reset {
        Some(r) => Some(sim.get_reset(r).ok_or_else(|| format!("no reset port {r}"))?),
        None => None,
    };
    let four = cfg.use_4state;
    let mut out = RunOut {
        held: held.clone(),
        times: vec![],
        snaps: vec![],
    };
    output_buffer::enable();
    let r = (|| -> Result<(), String> {
        for (i, st) in stim.steps.iter().enumerate() {
            for (j, p) in stim.inputs.iter().enumerate() {
                let v = match (four, ws.xz.get(i).and_then(|r| r.get(j)).and_then(|x| x.as_ref())) {
                    (true, Some((pl, mk))) => value_of(pl, mk, p.width),
                    _ => Value::new_biguint(st.values[j].clone(), p.width, false),
                };
                sim.set(&p.name, v);
            }
            let (high, low) = ws.dt[i];
            let in_reset = st.reset && rst.is_some();
            let rid = rst.as_ref().and_then(|r| r.var_id());
            match proto {
                Protocol::Api => {
                    // Simulator::step_reset, opened up so that the snapshot is taken
                    // where the dump is (before the level is released)
                    if in_reset {
                        if let Some(id) = &rid {
                            sim.set_reset_level(id, true);
                        }
                        sim.step_in_reset(&clk, rst.as_ref().unwrap(), true);
                    } else {
                        sim.step(&clk);
                    }
                    snapshot(&mut sim, &held, four, has_dump, &mut out)?;
                    if in_reset {
                        if let Some(id) = &rid {
                            sim.set_reset_level(id, false);
                        }
                    }
                    sim.time += high;
                }
                Protocol::Tb => {
                    // testbench.rs: ResetAssert over a run of reset steps, ClockNext otherwise;
                    // `has_dump` there guards the clock-variable writes, the harness
                    // does them in the reference run too (same operations, no dumper)
                    let first = in_reset && (i == 0 || !stim.steps[i - 1].reset);
                    let last = in_reset && (i + 1 == stim.steps.len() || !stim.steps[i + 1].reset);
                    if first {
                        if let Some(id) = &rid {
                            sim.set_reset_level(id, true);
                        }
                    }
                    if let Some(id) = clk.var_id() {
                        sim.set_var_by_id(&id, Value::new(1, 1, false));
                    }
                    if in_reset {
                        sim.step_in_reset(&clk, rst.as_ref().unwrap(), first);
                    } else {
                        sim.step(&clk);
                    }
                    snapshot(&mut sim, &held, four, has_dump, &mut out)?;
                    sim.time += high;
                    if let Some(id) = clk.var_id() {
                        sim.set_var_by_id(&id, Value::new(0, 1, false));
                    }
                    sim.dump_variables();
                    snapshot(&mut sim, &held, four, has_dump, &mut out)?;
                    sim.time += low;
                    if last {
                        if let Some(id) = &rid {
                            sim.set_reset_level(id, false);
                        }
                    }
                }
            }
        }
        Ok(())
    })();
    let _ = output_buffer::take();
    drop(sim); // finishes the FST body, releases the VCD buffer
    r.map(|_| out)
}

fn guarded<T>(f: impl FnOnce() -> Result<T, String>) -> Result<T, String> {
    match std::panic::catch_unwind(std::panic::AssertUnwindSafe(f)) {
        Ok(r) => r,
        Err(e) => Err(format!("panic: {}", panic_text(&e))),
    }
}

// ------------------------------------------------------------------ comparison

#[derive(Default)]
struct Stats {
    timestamps: usize,
    values: usize,
}

struct Mismatch {
    sig: String,
    msg: String,
}

fn key_of(scope: &[String], name: &str) -> String {
    format!("{}/{}", scope.join("."), name)
}

/// how a dumped value differs from the held one (root-cause class)
fn diff_class(expected: &str, got: &str, prev_expected: Option<&str>) -> &'static str {
    let w = expected.len();
    let e = expected.as_bytes();
    let g = got.as_bytes();
    let xz = |c: u8| c == b'x' || c == b'z';
    let diff: Vec<usize> = (0..w).filter(|i| e[*i] != g[*i]).collect(); // string index, 0 = msb
    if Some(got) == prev_expected {
        return "stale-value-of-the-previous-dump-time";
    }
    if diff.iter().all(|i| xz(e[*i]) && !xz(g[*i])) {
        return "xz-dumped-as-01";
    }
    if diff.iter().all(|i| xz(e[*i]) && xz(g[*i])) {
        return "x-and-z-confused";
    }
    if diff.iter().all(|i| !xz(e[*i]) && xz(g[*i])) {
        return "01-dumped-as-xz";
    }
    if w > 64 && diff.iter().all(|i| w - 1 - *i >= 64) {
        return "bits-above-64-wrong";
    }
    if diff.iter().all(|i| w - 1 - *i < 64) && w > 64 {
        return "low-word-wrong";
    }
    "value"
}

fn check_dump(kind: &str, dump: &Dump, run: &RunOut) -> Result<Stats, Mismatch> {
    let mm = |sig: &str, msg: String| Mismatch {
        sig: format!("wave:{kind}:{sig}"),
        msg,
    };
    // ---- declarations
    let mut held_by: BTreeMap<String, Vec<usize>> = BTreeMap::new();
    for (i, h) in run.held.iter().enumerate() {
        held_by.entry(key_of(&h.scope, &h.name)).or_default().push(i);
    }
    let mut decl_by: BTreeMap<String, Vec<usize>> = BTreeMap::new();
    for (i, v) in dump.vars.iter().enumerate() {
        decl_by.entry(key_of(&v.scope, &v.name)).or_default().push(i);
    }
    for (k, ds) in &decl_by {
        let n = held_by.get(k).map(|v| v.len()).unwrap_or(0);
        if n < ds.len() {
            return Err(mm("declares-a-variable-the-simulator-does-not-have", format!("the {kind} declares {k} {} time(s), the variable tree has it {n} time(s)", ds.len())));
        }
    }
    for (k, hs) in &held_by {
        let n = decl_by.get(k).map(|v| v.len()).unwrap_or(0);
        if n < hs.len() {
            return Err(mm("variable-not-declared", format!("the variable tree has {k} {} time(s), the {kind} declares it {n} time(s)", hs.len())));
        }
    }
    // pairs (declared, held), same order among equal names
    let mut pairs: Vec<(usize, usize)> = vec![];
    for (k, ds) in &decl_by {
        for (d, h) in ds.iter().zip(&held_by[k]) {
            pairs.push((*d, *h));
        }
    }
    for (d, h) in &pairs {
        let (dv, hv) = (&dump.vars[*d], &run.held[*h]);
        if dv.width != hv.width {
            return Err(mm("declared-width", format!("{} is declared {} bits wide, the simulator holds {} bits", key_of(&dv.scope, &dv.name), dv.width, hv.width)));
        }
    }
    let mut id_width: BTreeMap<&str, usize> = BTreeMap::new();
    for v in &dump.vars {
        if let Some(w) = id_width.insert(&v.id, v.width) {
            if w != v.width {
                return Err(mm("identifier-shared-by-different-widths", format!("identifier {} is declared with widths {w} and {}", v.id, v.width)));
            }
        }
    }
    // ---- timestamps
    let dump_times: BTreeSet<u64> = run.times.iter().copied().collect();
    let mut prev: Option<u64> = None;
    for (t, ch) in &dump.frames {
        if let Some(p) = prev {
            if *t < p {
                return Err(mm("time-goes-backwards", format!("#{t} after #{p}")));
            }
        }
        prev = Some(*t);
        if !dump_times.contains(t) {
            return Err(mm("timestamp-without-a-dump", format!("the {kind} has time {t}, the simulator dumped at {:?}", run.times)));
        }
        for (id, v) in ch {
            let Some(w) = id_width.get(id.as_str()) else {
                return Err(mm("change-of-undeclared-identifier", format!("#{t}: change {v} of identifier {id}, which no $var declares")));
            };
            if v.len() > *w {
                return Err(mm("value-wider-than-declared", format!("#{t}: identifier {id} ({w} bits) changes to the {}-bit value {v}", v.len())));
            }
        }
    }
    // ---- values at every dump time
    let mut cur: BTreeMap<&str, &str> = BTreeMap::new();
    let mut fi = 0;
    let mut st = Stats::default();
    for (k, t) in run.times.iter().enumerate() {
        while fi < dump.frames.len() && dump.frames[fi].0 <= *t {
            for (id, v) in &dump.frames[fi].1 {
                cur.insert(id.as_str(), v.as_str());
            }
            fi += 1;
        }
        st.timestamps += 1;
        for (d, h) in &pairs {
            let (dv, hv) = (&dump.vars[*d], &run.held[*h]);
            let name = key_of(&dv.scope, &dv.name);
            let expected = &run.snaps[k][*h];
            let Some(raw) = cur.get(dv.id.as_str()) else {
                return Err(mm("no-value-at-a-dump-time", format!("{name} has no value in the {kind} at time {t} (the simulator holds {expected})")));
            };
            let Some(got) = extend(raw, hv.width) else {
                return Err(mm("value-wider-than-declared", format!("{name} ({} bits) has the value {raw} at time {t}", hv.width)));
            };
            st.values += 1;
            if got != *expected {
                let prev_exp = if k > 0 { Some(run.snaps[k - 1][*h].as_str()) } else { None };
                let class = diff_class(expected, &got, prev_exp);
                return Err(mm(
                    &format!("value-differs:{class}"),
                    format!(
                        "{name} ({} bits) at time {t} (dump #{k} of {}):\n  simulator holds {expected}\n  {kind} shows      {got}\n  previous dump time: simulator held {}",
                        hv.width,
                        run.times.len(),
                        prev_exp.unwrap_or("-")
                    ),
                ));
            }
        }
    }
    Ok(st)
}

// -------------------------------------------------------------------- the case

fn stim_json(ws: &WStim) -> serde_json::Value {
    let stim = &ws.stim;
    json!({
        "clock": stim.clock, "reset": stim.reset,
        "inputs": stim.inputs.iter().map(|p| json!({"name": p.name, "width": p.width})).collect::<Vec<_>>(),
        "steps": stim.steps.iter().enumerate().map(|(i, s)| json!({
            "reset": s.reset,
            "high": ws.dt[i].0, "low": ws.dt[i].1,
            // hex; under a 4-state engine "xz" = [payload, mask] replaces the value (mask 1: payload 0 = X, 1 = Z)
            "values": s.values.iter().enumerate().map(|(j, v)| match ws.xz[i][j].as_ref() {
                Some((p, m)) => json!({"v": format!("{v:x}"), "xz": [format!("{p:x}"), format!("{m:x}")], "bits": bits_of(p, m, stim.inputs[j].width)}),
                None => json!({"v": format!("{v:x}")}),
            }).collect::<Vec<_>>()
        })).collect::<Vec<_>>()
    })
}

fn stim_from_json(v: &serde_json::Value) -> WStim {
    let hex = |x: &serde_json::Value| x.as_str().and_then(|t| BigUint::parse_bytes(t.as_bytes(), 16)).unwrap_or_default();
    let inputs: Vec<PortSpec> = v["inputs"]
        .as_array()
        .map(|a| {
            a.iter()
                .map(|p| PortSpec {
                    name: p["name"].as_str().unwrap_or("").to_string(),
                    width: p["width"].as_u64().unwrap_or(1) as usize,
                })
                .collect()
        })
        .unwrap_or_default();
    let empty = vec![];
    let steps = v["steps"].as_array().unwrap_or(&empty);
    let mut ws = WStim {
        stim: Stimulus {
            clock: v["clock"].as_str().map(|s| s.to_string()),
            reset: v["reset"].as_str().map(|s| s.to_string()),
            inputs,
            outputs: vec![],
            steps: vec![],
        },
        xz: vec![],
        dt: vec![],
    };
    for st in steps {
        let vals = st["values"].as_array().unwrap_or(&empty);
        ws.stim.steps.push(StimStep {
            reset: st["reset"].as_bool().unwrap_or(false),
            values: (0..ws.stim.inputs.len()).map(|j| vals.get(j).map(|x| hex(&x["v"])).unwrap_or_default()).collect(),
        });
        ws.xz.push(
            (0..ws.stim.inputs.len())
                .map(|j| vals.get(j).and_then(|x| x["xz"].as_array()).filter(|a| a.len() == 2).map(|a| (hex(&a[0]), hex(&a[1]))))
                .collect(),
        );
        ws.dt.push((st["high"].as_u64().unwrap_or(1), st["low"].as_u64().unwrap_or(1)));
    }
    ws
}

// ------------------------------------------------- known defect: fst-writer time table

/// The times at which the simulator will dump (it starts at time 0).
fn predicted_times(ws: &WStim, proto: Protocol) -> Vec<u64> {
    let mut t = 0u64;
    let mut out = vec![];
    for (h, l) in &ws.dt {
        out.push(t);
        t += h;
        if proto == Protocol::Tb {
            out.push(t);
            t += l;
        }
    }
    out
}

/// KNOWN DEFECT (known_findings.d/C36.json, key `wave:fst:time-table-stored-deflated-at-equal-length`):
/// `fst-writer` 0.3.1 (`io.rs::write_time_table`) keeps the zlib stream of the
/// delta-encoded time table unless it is *longer* than the raw table; when
/// both have the same length it writes the zlib stream with
/// `uncompressed_length == compressed_length`, which the FST format (fstapi.c,
/// fst-reader) defines as "stored raw" — the file cannot be read.  This
/// predicate replays the writer's decision (same encoder: miniz_oxide 0.8,
/// level 3) for a sequence of dump times that starts at 0.
fn fst_time_table_defect(times: &[u64]) -> bool {
    if times.len() < 2 {
        return false;
    }
    let mut raw = vec![];
    let mut prev = 0u64;
    for t in &times[1..] {
        let mut d = t - prev;
        prev = *t;
        loop {
            let b = (d & 0x7f) as u8;
            d >>= 7;
            if d == 0 {
                raw.push(b);
                break;
            }
            raw.push(b | 0x80);
        }
    }
    miniz_oxide::deflate::compress_to_vec_zlib(&raw, 3).len() == raw.len()
}

const KNOWN_FST_TIME_TABLE: &str = "wave:fst:time-table-stored-deflated-at-equal-length";
static EXCLUDED_FST_TIME_TABLE: AtomicU64 = AtomicU64::new(0);

fn big(words: &[u64], w: usize) -> BigUint {
    let mut bytes = vec![];
    for x in words {
        bytes.extend_from_slice(&x.to_le_bytes());
    }
    BigUint::from_bytes_le(&bytes) & low_mask(w)
}

static TIMESTAMPS: AtomicU64 = AtomicU64::new(0);
static VALUES: AtomicU64 = AtomicU64::new(0);

fn one_case(d: &mut Draw, fast: &[Config], cc: &[Config]) -> Outcome {
    // ---- engine, protocol, attachment first (a choice sequence that runs
    // dry while the design is drawn must not fix them to the first alternative)
    let use_cc = !cc.is_empty() && d.chance(1, 10);
    let config: Config = if use_cc { cc[d.below(cc.len() as u32) as usize].clone() } else { fast[d.below(fast.len() as u32) as usize].clone() };
    let proto = if d.bool() { Protocol::Tb } else { Protocol::Api };
    let attach_late = d.bool();
    let big_times = d.chance(1, 6);
    // X/Z pattern seeds for the inputs, also before the design
    let xz_seed: Vec<u32> = (0..8).map(|_| d.below(1 << 16)).collect();
    // ---- design and stimulus
    let mut cfg = GenCfg::default();
    cfg.display = false;
    cfg.unguarded_per_mille = 20;
    let g = gen_design(d, &cfg);
    let cycles = 10 + d.below(7) as usize;
    let stim = gen_stimulus(d, &g.design, cycles);
    let mut ws = WStim {
        xz: vec![vec![None; stim.inputs.len()]; stim.steps.len()],
        dt: vec![(1, 1); stim.steps.len()],
        stim,
    };
    for i in 0..ws.stim.steps.len() {
        let mut t = || -> u64 {
            match d.weighted(&[6, 2, 1]) {
                0 => 1,
                1 => 1 + d.below(20) as u64,
                _ => {
                    if big_times {
                        1u64 << (20 + d.below(28))
                    } else {
                        5
                    }
                }
            }
        };
        ws.dt[i] = (t(), t());
    }
    // X / Z on the inputs (used by the 4-state engines only); when the choice
    // sequence has run dry the patterns come from `xz_seed` (drawn first)
    if config.use_4state {
        let mut k = 0usize;
        for i in 0..ws.stim.steps.len() {
            for j in 0..ws.stim.inputs.len() {
                let w = ws.stim.inputs[j].width;
                let v = ws.stim.steps[i].values[j].clone();
                let dry = d.exhausted();
                k += 1;
                let sd = xz_seed[k % xz_seed.len()].wrapping_mul(2654435761u32.wrapping_add(k as u32)) >> 7;
                let kind = if dry { [0, 0, 0, 0, 1, 2, 3, 4][(sd % 8) as usize] } else { d.weighted(&[14, 2, 2, 3, 1]) };
                ws.xz[i][j] = match kind {
                    0 => None,
                    1 => Some((BigUint::zero(), low_mask(w))), // all X
                    2 => Some((low_mask(w), low_mask(w))),     // all Z
                    3 => {
                        // some bits X or Z (payload under the mask decides which)
                        let (m, p) = if dry {
                            let pat = |seed: u32| -> BigUint {
                                let mut x = seed as u64 | 1;
                                let words: Vec<u64> = (0..w.div_ceil(64))
                                    .map(|_| {
                                        x ^= x << 13;
                                        x ^= x >> 7;
                                        x ^= x << 17;
                                        x
                                    })
                                    .collect();
                                big(&words, w)
                            };
                            (pat(sd), pat(sd ^ 0x5bd1e995))
                        } else {
                            (big(&d.corner_bits(w), w), big(&d.bits(w), w))
                        };
                        let known = &v ^ (&v & &m);
                        Some((known | (&p & &m), m))
                    }
                    _ => {
                        // one X bit in an otherwise known value
                        let b = if dry { (sd as u64) % w as u64 } else { d.below(w as u32) as u64 };
                        let mut m = BigUint::zero();
                        m.set_bit(b, true);
                        let mut p = v.clone();
                        p.set_bit(b, false);
                        Some((p, m))
                    }
                };
            }
        }
    }
    // the known fst-writer defect is excluded by construction (and counted):
    // the recorded reproducer shows it on every run
    if fst_time_table_defect(&predicted_times(&ws, proto)) {
        EXCLUDED_FST_TIME_TABLE.fetch_add(1, Ordering::Relaxed);
        let mut k = 0;
        while fst_time_table_defect(&predicted_times(&ws, proto)) {
            let n = ws.dt.len();
            ws.dt[k % n].0 += 1 + (k / n) as u64;
            k += 1;
        }
    }
    let text = print_design(&g.design);
    let label = format!("{}/{}/{}", config_label(&config), if proto == Protocol::Tb { "tb" } else { "api" }, if attach_late { "attach_dump" } else { "new" });
    if std::env::var("C36_WAVE_SHOW").is_ok() {
        println!("{text}// {label}\n// stimulus: {}", stim_json(&ws));
    }
    let mut gen_classes: Vec<String> = vec![];
    for c in ["var:struct", "var:array", "item:inst", "inst:param_override", "decl:function", "decl:enum", "ctx:signed_rhs"] {
        if g.classes.contains(c) {
            gen_classes.push(format!("gen:{c}"));
        }
    }
    if g.design.modules.iter().any(|m| m.decls.iter().any(|x| x.ty.signed && matches!(x.kind, DeclKind::Var | DeclKind::Input | DeclKind::Output | DeclKind::Let))) {
        gen_classes.push("var:signed".into());
    }
    if g.design.top().has_ff() {
        gen_classes.push("design:sequential".into());
    }
    evaluate(&gen_classes, &text, &ws, &config, proto, attach_late, &label)
}

/// A recorded reproducer: text + engine / protocol / attachment + stimulus.
fn replay_recorded(p: &serde_json::Value, fast: &[Config], cc: &[Config]) -> Outcome {
    let text = p["veryl"].as_str().unwrap_or("");
    let label = p["engine_protocol_attach"].as_str().unwrap_or("interp/api/new").to_string();
    let parts: Vec<&str> = label.split('/').collect();
    let Some(config) = fast.iter().chain(cc.iter()).find(|c| config_label(c) == parts[0]) else {
        return Outcome::skip(format!("engine {} is not available", parts[0]));
    };
    let proto = if parts.get(1) == Some(&"tb") { Protocol::Tb } else { Protocol::Api };
    let attach_late = parts.get(2) == Some(&"attach_dump");
    let ws = stim_from_json(&p["stimulus"]);
    evaluate(&["recorded".to_string()], text, &ws, config, proto, attach_late, &label)
}

fn excerpt(vcd: &str, name_hint: &str) -> String {
    // header lines that mention the variable, plus the first 40 lines of changes
    let mut out = vec![];
    let short = name_hint.rsplit('/').next().unwrap_or(name_hint);
    let mut id = None;
    for l in vcd.lines() {
        if l.starts_with("$var") && l.split_ascii_whitespace().nth(4) == Some(short) {
            id = l.split_ascii_whitespace().nth(3).map(|s| s.to_string());
            out.push(l.to_string());
        }
    }
    if let Some(id) = id {
        let mut n = 0;
        for l in vcd.lines() {
            if l.starts_with('#') || l.ends_with(&format!(" {id}")) {
                out.push(l.to_string());
                n += 1;
                if n > 60 {
                    break;
                }
            }
        }
    }
    out.join("\n")
}

fn evaluate(gen_classes: &[String], text: &str, ws: &WStim, config: &Config, proto: Protocol, attach_late: bool, label: &str) -> Outcome {
    // development aid only (never part of a verdict): where the time goes
    let t0 = std::time::Instant::now();
    let lap = |what: &str| {
        if std::env::var("C36_WAVE_TIME").is_ok() {
            eprintln!("[{label}] {what}: {:.0} ms", t0.elapsed().as_secs_f64() * 1000.0);
        }
    };
    let a = match Analyzed::new(text) {
        Ok(a) => a,
        Err(r) => {
            let code = r.errors.first().map(|e| e.0.clone()).unwrap_or_default();
            return Outcome::skip(format!("generated design rejected by the analyzer ({}:{code})", r.stage));
        }
    };
    lap("analysed");
    let input = |extra: serde_json::Value| json!({"veryl": text, "top": "Top", "engine_protocol_attach": label, "stimulus": stim_json(ws), "detail": extra});
    // ---- reference run: same engine, same protocol, no dumper
    let reference = match guarded(|| drive(&a, config, ws, proto, attach_late, None)) {
        Ok(r) => r,
        Err(e) if e.starts_with("get_var(") => {
            return Outcome::fail("wave:get_var-differs-from-storage", format!("[{label}] without a dumper: {e}\n{text}"), input(json!(e)));
        }
        Err(e) => {
            // an engine that cannot build / run the design is C02's business
            let msg: String = e.lines().next().unwrap_or("").chars().filter(|c| !c.is_ascii_digit()).take(60).collect();
            return Outcome::skip(format!("engine cannot run the design without a dumper ({msg})"));
        }
    };
    lap("reference run");
    // ---- VCD into memory
    let buf = Arc::new(Mutex::new(Vec::<u8>::new()));
    let vcd_run = guarded(|| drive(&a, config, ws, proto, attach_late, Some(WaveDumper::new_vcd(Box::new(SharedVec(buf.clone()))))));
    let vcd_text = String::from_utf8_lossy(&buf.lock().unwrap()).into_owned();
    let vcd_run = match vcd_run {
        Ok(r) => r,
        Err(e) if e.starts_with("get_var(") => {
            return Outcome::fail("wave:get_var-differs-from-storage", format!("[{label}] with the VCD dumper: {e}\n{text}"), input(json!(e)));
        }
        Err(e) => {
            let msg: String = e.lines().next().unwrap_or("").chars().filter(|c| !c.is_ascii_digit()).take(60).collect();
            return Outcome::fail(format!("wave:vcd:run-fails-with-a-dumper:{msg}"), format!("[{label}] the run succeeds without a dumper and fails with the VCD dumper: {e}\n{text}"), input(json!(e)));
        }
    };
    lap("vcd run");
    // ---- FST into a scratch file
    let mut scratch = vcore::util::Scratch::new("c36wave");
    let fst_path = scratch.join("dump.fst");
    if std::env::var("C36_WAVE_KEEP").is_ok() {
        // development aid: keep the FST (and the VCD next to it)
        scratch.keep();
        let _ = std::fs::write(scratch.join("dump.vcd"), &vcd_text);
        println!("kept: {}", scratch.path.display());
    }
    let fst_run = guarded(|| drive(&a, config, ws, proto, attach_late, Some(WaveDumper::new_fst(&fst_path.to_string_lossy()))));
    let fst_run = match fst_run {
        Ok(r) => r,
        Err(e) if e.starts_with("get_var(") => {
            return Outcome::fail("wave:get_var-differs-from-storage", format!("[{label}] with the FST dumper: {e}\n{text}"), input(json!(e)));
        }
        Err(e) => {
            let msg: String = e.lines().next().unwrap_or("").chars().filter(|c| !c.is_ascii_digit()).take(60).collect();
            return Outcome::fail(format!("wave:fst:run-fails-with-a-dumper:{msg}"), format!("[{label}] the run succeeds without a dumper and fails with the FST dumper: {e}\n{text}"), input(json!(e)));
        }
    };
    lap("fst run");
    // ---- dumping must not perturb the simulation
    for (kind, run) in [("vcd", &vcd_run), ("fst", &fst_run)] {
        if run.times != reference.times {
            return Outcome::fail(format!("wave:{kind}:harness-dump-times"), format!("[{label}] dump times differ between the runs: {:?} vs {:?}", run.times, reference.times), input(json!(null)));
        }
        let names = |r: &RunOut| -> Vec<String> { r.held.iter().map(|h| format!("{}:{}", key_of(&h.scope, &h.name), h.width)).collect() };
        let (mut n1, mut n2) = (names(run), names(&reference));
        n1.sort();
        n2.sort();
        if n1 != n2 {
            return Outcome::fail(format!("wave:{kind}:dumper-changes-the-variable-tree"), format!("[{label}] variables with the dumper: {n1:?}\nwithout: {n2:?}\n{text}"), input(json!(null)));
        }
        // same order? (HashMap order of one Ir is stable across builds of the same design in practice; match by name anyway)
        let idx: BTreeMap<String, Vec<usize>> = {
            let mut m: BTreeMap<String, Vec<usize>> = BTreeMap::new();
            for (i, h) in reference.held.iter().enumerate() {
                m.entry(key_of(&h.scope, &h.name)).or_default().push(i);
            }
            m
        };
        let mut used: BTreeMap<String, usize> = BTreeMap::new();
        for (i, h) in run.held.iter().enumerate() {
            let k = key_of(&h.scope, &h.name);
            let n = used.entry(k.clone()).or_insert(0);
            let j = idx[&k][*n];
            *n += 1;
            for s in 0..run.snaps.len() {
                if run.snaps[s][i] != reference.snaps[s][j] {
                    return Outcome::fail(
                        format!("wave:{kind}:dumper-perturbs-the-simulation"),
                        format!(
                            "[{label}] {k} at time {} (dump #{s}): with the {kind} dumper the simulator holds\n  {}\nwithout a dumper\n  {}\n{text}",
                            run.times[s], run.snaps[s][i], reference.snaps[s][j]
                        ),
                        input(json!({"variable": k, "time": run.times[s]})),
                    );
                }
            }
        }
    }
    // ---- the dumps themselves
    let vcd = match parse_vcd(&vcd_text) {
        Ok(d) => d,
        Err(e) => return Outcome::fail("wave:vcd:malformed", format!("[{label}] {e}\n{}", vcd_text.chars().take(3000).collect::<String>()), input(json!(e))),
    };
    if vcd.timescale != "1 us" {
        return Outcome::fail("wave:vcd:timescale", format!("[{label}] $timescale is {:?} (the simulator's time unit is 1 us)", vcd.timescale), input(json!(null)));
    }
    let fst = match read_fst(&fst_path) {
        Ok(d) => d,
        Err(e) => {
            // re-examined: is it the known fst-writer defect (time table deflated to exactly its own length)?
            let sig = if fst_time_table_defect(&fst_run.times) { KNOWN_FST_TIME_TABLE } else { "wave:fst:unreadable" };
            return Outcome::fail(sig, format!("[{label}] fst-reader cannot read the dump: {e}\ndump times: {:?}\n{text}", fst_run.times), input(json!({"error": e, "dump_times": fst_run.times})));
        }
    };
    if fst.timescale != "1e-6 s" {
        return Outcome::fail("wave:fst:timescale", format!("[{label}] FST timescale is {:?} (the simulator's time unit is 1 us)", fst.timescale), input(json!(null)));
    }
    if std::env::var("C36_WAVE_SHOW").is_ok() {
        println!("{vcd_text}");
    }
    let mut stats = Stats::default();
    for (kind, dump, run) in [("vcd", &vcd, &vcd_run), ("fst", &fst, &fst_run)] {
        match check_dump(kind, dump, run) {
            Ok(s) => {
                stats.timestamps += s.timestamps;
                stats.values += s.values;
            }
            Err(m) => {
                let var = m.msg.split(' ').next().unwrap_or("").to_string();
                let ex = if kind == "vcd" { excerpt(&vcd_text, &var) } else { String::new() };
                return Outcome::fail(m.sig, format!("[{label}] {}\n{text}// stimulus: {}\n{ex}", m.msg, stim_json(ws)), input(json!({"what": m.msg, "vcd_excerpt": ex})));
            }
        }
    }
    // VCD and FST of the same run protocol must tell the same story (they
    // were both compared with identical snapshots, so this holds by transitivity)
    TIMESTAMPS.fetch_add(stats.timestamps as u64, Ordering::Relaxed);
    VALUES.fetch_add(stats.values as u64, Ordering::Relaxed);

    lap("compared");
    // ---- classes and the non-triviality rule
    let r = &vcd_run;
    let wide64 = r.held.iter().any(|h| h.width > 64);
    let wide128 = r.held.iter().any(|h| h.width > 128);
    let any_x = r.snaps.iter().any(|row| row.iter().any(|s| s.contains('x')));
    let any_z = r.snaps.iter().any(|row| row.iter().any(|s| s.contains('z')));
    let xz_wide = r.snaps.iter().any(|row| row.iter().zip(&r.held).any(|(s, h)| h.width > 64 && (s.contains('x') || s.contains('z'))));
    let mixed = r.snaps.iter().any(|row| row.iter().any(|s| (s.contains('x') || s.contains('z')) && (s.contains('0') || s.contains('1'))));
    let changing = (0..r.held.len()).filter(|i| r.snaps.iter().any(|row| row[*i] != r.snaps[0][*i])).count();
    let returns = (0..r.held.len()).any(|i| (2..r.snaps.len()).any(|k| r.snaps[k][i] == r.snaps[k - 2][i] && r.snaps[k][i] != r.snaps[k - 1][i]));
    let mut classes: Vec<String> = vec![format!("engine:{}", config_label(config)), format!("protocol:{}", if proto == Protocol::Tb { "tb" } else { "api" }), format!("attach:{}", if attach_late { "attach_dump" } else { "new" })];
    if wide64 {
        classes.push("var:wide(>64)".into());
    }
    if wide128 {
        classes.push("var:wide(>128)".into());
    }
    if any_x {
        classes.push("dump:x_present".into());
    }
    if any_z {
        classes.push("dump:z_present".into());
    }
    if xz_wide {
        classes.push("dump:xz_in_wide_var".into());
    }
    if mixed {
        classes.push("dump:xz_and_01_in_one_value".into());
    }
    if r.held.iter().any(|h| h.name.ends_with(']')) {
        classes.push("var:array_elements".into());
    }
    if r.held.iter().any(|h| h.scope.len() > 1) {
        classes.push("design:hierarchy".into());
    }
    if r.held.iter().any(|h| h.scope.len() > 2) {
        classes.push("design:hierarchy_depth>1".into());
    }
    if changing > 0 {
        classes.push("dump:values_change".into());
    }
    if returns {
        classes.push("dump:value_returns_to_previous".into());
    }
    if ws.dt.iter().any(|(a, b)| *a > (1 << 32) || *b > (1 << 32)) || r.times.last().copied().unwrap_or(0) > (1 << 32) {
        classes.push("time:beyond_32_bits".into());
    }
    if r.held.iter().any(|h| h.width == 1) {
        classes.push("var:scalar".into());
    }
    classes.extend(gen_classes.iter().cloned());
    let nontrivial = (wide64 || any_x || any_z) && r.times.len() >= 10;
    let sample = format!("{text}// {label}; {} variables, {} dump times, {} values compared\n// stimulus: {}", r.held.len(), r.times.len(), stats.values, stim_json(ws));
    Outcome::pass(hash_str(&format!("{text}{}{label}", stim_json(ws))), nontrivial, classes, sample)
}

/// the harness' own parser / comparer must notice the deviations it claims to notice
fn self_test() -> Result<(), String> {
    let vcd = "$timescale 1 us $end\n$scope module Top $end\n$var wire 4 ! a $end\n$scope module u $end\n$var wire 1 \" b[1] $end\n$upscope $end\n$upscope $end\n$enddefinitions $end\n#0\nb0x1z !\n1\"\n#5\nb1 !\nx\"\n";
    let d = parse_vcd(vcd)?;
    if d.vars.len() != 2 || d.vars[1].scope != ["Top", "u"] || d.vars[1].name != "b[1]" || d.frames.len() != 2 || d.frames[1].0 != 5 {
        return Err(format!("VCD self-test: parsed {d:?}"));
    }
    if extend("1", 4).as_deref() != Some("0001") || extend("x1", 4).as_deref() != Some("xxx1") || extend("z", 3).as_deref() != Some("zzz") || extend("10101", 4).is_some() {
        return Err("extension self-test".into());
    }
    let held = vec![
        Held { scope: vec!["Top".into()], name: "a".into(), width: 4, ptr: std::ptr::null(), nb: 8, api_path: None },
        Held { scope: vec!["Top".into(), "u".into()], name: "b[1]".into(), width: 1, ptr: std::ptr::null(), nb: 8, api_path: None },
    ];
    let good = RunOut { held: held.clone(), times: vec![0, 5], snaps: vec![vec!["0x1z".into(), "1".into()], vec!["0001".into(), "x".into()]] };
    if let Err(m) = check_dump("vcd", &d, &good) {
        return Err(format!("comparer self-test: {} {}", m.sig, m.msg));
    }
    for (snaps, times, want) in [
        (vec![vec!["0x1z".to_string(), "1".to_string()], vec!["0011".to_string(), "x".to_string()]], vec![0u64, 5], "value-differs"),
        (vec![vec!["0x10".to_string(), "1".to_string()], vec!["0001".to_string(), "x".to_string()]], vec![0, 5], "value-differs"),
        (vec![vec!["0x1z".to_string(), "1".to_string()], vec!["0001".to_string(), "x".to_string()]], vec![0, 6], "timestamp-without-a-dump"),
    ] {
        let bad = RunOut { held: held.clone(), times, snaps };
        match check_dump("vcd", &d, &bad) {
            Err(m) if m.sig.contains(want) => {}
            Err(m) => return Err(format!("comparer self-test: expected {want}, got {}", m.sig)),
            Ok(_) => return Err(format!("comparer self-test: a {want} deviation went unnoticed")),
        }
    }
    Ok(())
}

/// development aid: `vc-eval fst-info FILE`
pub fn fst_info(path: &str) {
    use fst_reader::{FstFilter, FstReader};
    let f = std::fs::File::open(path).expect("open");
    let mut rd = FstReader::open_and_read_time_table(std::io::BufReader::new(f)).expect("header");
    println!("{:?}", rd.get_header());
    println!("time table: {:?}", rd.get_time_table());
    let mut n = 0;
    rd.read_hierarchy(|e| {
        n += 1;
        println!("  {e:?}");
    })
    .expect("hierarchy");
    println!("{n} hierarchy entries");
    let mut k = 0;
    let r = rd.read_signals(&FstFilter::all(), |t, h, v| -> Result<(), String> {
        k += 1;
        if let fst_reader::FstSignalValue::String(s) = v {
            println!("  #{t} {} {}", h.get_index(), String::from_utf8_lossy(s));
        }
        Ok(())
    });
    println!("{k} changes, result {:?}", r.map_err(|e| format!("{e:?}")));
}

pub fn run(ctx: &Ctx) {
    // what `veryl test --wave` does before the analysis (cmd_test.rs, CmdTest::exec)
    veryl_simulator::backend::aot_c::force_disable_localize();
    veryl_simulator::ir::force_disable_comb_fusion();

    if let Err(e) = self_test() {
        ctx.record("wave-selftest", Outcome::fail("harness:wave-selftest", e, json!(null)), json!(null));
    }
    let (fast, cc) = engine_configs();
    ctx.note("wave_engines", json!(fast.iter().chain(cc.iter()).map(config_label).collect::<Vec<_>>()));
    let n = std::env::var("C36_WAVE_CASES").ok().and_then(|s| s.parse::<usize>().ok()).unwrap_or(ctx.scale(200, 12_000));
    ctx.run_payloads("wave-recorded", |p| {
        std::thread::scope(|s| {
            std::thread::Builder::new()
                .stack_size(16 << 20)
                .spawn_scoped(s, || replay_recorded(p, &fast, &cc))
                .expect("spawn")
                .join()
                .unwrap_or_else(|_| Outcome::fail("panic:wave-recorded", "the replay panicked", p.clone()))
        })
    });
    ctx.run("wave", CaseCfg::cases(n).choices(9000), |d| one_case(d, &fast, &cc));
    ctx.note("wave_excluded_known_fst_time_table", json!(EXCLUDED_FST_TIME_TABLE.load(Ordering::Relaxed)));
    ctx.note("wave_dump_times_compared", json!(TIMESTAMPS.load(Ordering::Relaxed)));
    ctx.note("wave_values_compared", json!(VALUES.load(Ordering::Relaxed)));
    ctx.note("wave_fst_reader", json!("fst-reader 0.17.0 (independent of fst-writer 0.3.1 used by the dumper)"));
    ctx.assume("wave: comb fusion and AOT-C localisation are disabled process-wide before the first analysis, as `veryl test --wave` does (cmd_test.rs); dumps taken without that are not promised to be exact and are not checked");
    ctx.assume("wave: 'the value the simulator holds' is the variable storage read byte-wise by the harness at the dump points (right after Simulator::step / dump_variables return), cross-checked with Simulator::get_var for every variable that API can address; bits above the declared width are not part of the value");
    ctx.assume("wave: the reference run without a dumper uses the same engine and the same call sequence (the testbench protocol's clock-variable writes included); differences between engines are C02's subject");
    ctx.assume("wave: FST files are read with the fst-reader crate; a defect shared by fst-writer and fst-reader (same author) in a corner neither crate's tests reach would go unnoticed");
}
