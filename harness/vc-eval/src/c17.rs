//! C17 — compile-time evaluation follows IEEE 1800 operator semantics.
//!
//! Code under test: `veryl_analyzer::value::Value` and
//! `Op::eval_value_unary / eval_value_binary` (crates/analyzer/src/ir/op.rs),
//! called with the `width` / `signed` arguments exactly as the real caller
//! `Expression::eval_value` (crates/analyzer/src/ir/expression.rs) computes
//! them, and the whole analyzer on generated `const` declarations.
//! Oracle: `vbv`, a bit-vector model written from the LRM.
//!
//! Sub-checks
//! * `exhaustive` — every operator × operand widths 1..=4 (quick and thorough)
//!   × all 4-state operand values × signedness × a list of context widths
//!   (own width, +1, 63, 64, 65; thorough also +2, 7, 32, 70 — so that the same small operands
//!   also go through the big-integer code).
//! * `random`     — operand widths up to 256, corner-biased values, boundary
//!   widths over-weighted; also relation 2: the result at a context ≤ 64 bits
//!   equals the low bits of the result at a context > 64 bits whenever the
//!   reference says the two must agree.
//! * `valueops`   — `Value::expand / trunc / select / concat / assign`.
//! * `lang`       — generated `const` expressions in a module, analysed by the
//!   real analyzer, the evaluated constants read back from the IR.
//!
//! Caller contract honoured by the API-level generators (see `Contract`).
//! Latitude (accepted either way, counted in the evidence): see
//! `vbv::Latitude` — signed MIN / -1, `**` with operands of different
//! signedness, an x/z sign bit being replicated, unary `+` on x/z, the
//! signedness of `'0 '1 'x 'z` in a context; and, at the API level, the
//! signedness *flag* carried by a result value (DESIGN.md §6b) — what that
//! flag breaks is observed at the language level.
//!
//! Listed findings (`/verif/known_findings.d/C17.json`, input classes in
//! `known`): a disagreement inside the input class of a listed finding gets
//! that finding's key; everything else gets a generic signature
//! `api|lang:<operator>:<expected kind>-><actual kind>` and is a VIOLATION.
//! The reproducer of every listed finding (a real Veryl module of `const`s)
//! is replayed through the analyzer on every run.

use num_bigint::BigUint;
use num_traits::ToPrimitive;
use std::collections::BTreeMap;
use std::sync::Mutex;
use std::sync::atomic::{AtomicUsize, Ordering};
use vbv::{BinClass, BinOp, Bit, Bv, Dialect, Latitude, UnOp};
use vcore::{CaseCfg, Ctx, Draw, Outcome, hash_str, json};
use veryl_analyzer::ir::Op;
use veryl_analyzer::value::{MaskCache, Value, ValueBigUint, ValueU64};

// ---------------------------------------------------------------------------
// Bv <-> Value
// ---------------------------------------------------------------------------

pub fn to_value(b: &Bv) -> Value {
    let (val, xz) = b.to_planes();
    let w = b.width();
    if w <= 64 {
        Value::U64(ValueU64 {
            payload: val.to_u64().unwrap(),
            mask_xz: xz.to_u64().unwrap(),
            width: w as u32,
            signed: b.signed(),
        })
    } else {
        Value::BigUint(ValueBigUint {
            payload: Box::new(val),
            mask_xz: Box::new(xz),
            width: w as u32,
            signed: b.signed(),
        })
    }
}

/// Decode a `Value`.  `Err` = the representation itself is broken (bits set
/// at or above `width`), which would change what later operations compute.
pub fn from_value(v: &Value) -> Result<Bv, String> {
    let w = v.width();
    let p: BigUint = v.payload().into_owned();
    let m: BigUint = v.mask_xz().into_owned();
    if p.bits() as usize > w || m.bits() as usize > w {
        return Err(format!(
            "payload/mask_xz have bits at or above width {w}: payload={p:#x} mask_xz={m:#x}"
        ));
    }
    Ok(Bv::from_planes(&p, &m, w, v.signed()))
}

fn variant_consistent(v: &Value) -> bool {
    match v {
        Value::U64(x) => x.width <= 64,
        Value::BigUint(x) => x.width > 64,
    }
}

// ---------------------------------------------------------------------------
// operator tables
// ---------------------------------------------------------------------------

pub const UN_OPS: [(UnOp, Op, &str); 10] = [
    (UnOp::Plus, Op::Add, "+"),
    (UnOp::Minus, Op::Sub, "-"),
    (UnOp::BitNot, Op::BitNot, "~"),
    (UnOp::RedAnd, Op::BitAnd, "&"),
    (UnOp::RedNand, Op::BitNand, "~&"),
    (UnOp::RedOr, Op::BitOr, "|"),
    (UnOp::RedNor, Op::BitNor, "~|"),
    (UnOp::RedXor, Op::BitXor, "^"),
    (UnOp::RedXnor, Op::BitXnor, "~^"),
    (UnOp::LogNot, Op::LogicNot, "!"),
];

/// (reference op, veryl op, Veryl source text)
pub const BIN_OPS: [(BinOp, Op, &str); 24] = [
    (BinOp::Add, Op::Add, "+"),
    (BinOp::Sub, Op::Sub, "-"),
    (BinOp::Mul, Op::Mul, "*"),
    (BinOp::Div, Op::Div, "/"),
    (BinOp::Rem, Op::Rem, "%"),
    (BinOp::Pow, Op::Pow, "**"),
    (BinOp::And, Op::BitAnd, "&"),
    (BinOp::Or, Op::BitOr, "|"),
    (BinOp::Xor, Op::BitXor, "^"),
    (BinOp::Xnor, Op::BitXnor, "~^"),
    (BinOp::Shl, Op::LogicShiftL, "<<"),
    (BinOp::Shr, Op::LogicShiftR, ">>"),
    (BinOp::AShl, Op::ArithShiftL, "<<<"),
    (BinOp::AShr, Op::ArithShiftR, ">>>"),
    (BinOp::Lt, Op::Less, "<:"),
    (BinOp::Le, Op::LessEq, "<="),
    (BinOp::Gt, Op::Greater, ">:"),
    (BinOp::Ge, Op::GreaterEq, ">="),
    (BinOp::Eq, Op::Eq, "=="),
    (BinOp::Ne, Op::Ne, "!="),
    (BinOp::WildEq, Op::EqWildcard, "==?"),
    (BinOp::WildNe, Op::NeWildcard, "!=?"),
    (BinOp::LogAnd, Op::LogicAnd, "&&"),
    (BinOp::LogOr, Op::LogicOr, "||"),
];

fn is_relational(op: BinOp) -> bool {
    matches!(op, BinOp::Lt | BinOp::Le | BinOp::Gt | BinOp::Ge)
}

/// The arguments the real caller passes (`Expression::eval_value`):
/// * `width` — the node's `expr_context.width`: Table 11-21 of the operand
///   widths, maximised with the outer context; ≥ 1 for comparison / logical /
///   reduction results; the left operand's (and the outer) width for shifts
///   and `**`.
/// * `signed` — the node's `expr_context.signed`: "every context-determined
///   operand is signed" (so it may be false although the operand values carry
///   a signed flag, when an unsigned sibling made the context unsigned); for
///   `/ % <: <= >: >=` it is taken from the two operands' contexts; for
///   `== != ==? !=? && ||` and the reductions it is always false.
/// * operand `Value`s arrive un-extended, with their own width and flag.
pub struct Contract;

impl Contract {
    /// minimum legal `width` argument
    pub fn min_width_bin(op: BinOp, wx: usize, wy: usize) -> usize {
        match op.class() {
            BinClass::Arith => wx.max(wy),
            BinClass::ShiftPow => wx,
            BinClass::Compare | BinClass::Logical => 1,
        }
    }
    pub fn min_width_un(op: UnOp, wx: usize) -> usize {
        if op.is_context() { wx } else { 1 }
    }
    /// legal `signed` arguments, simplest first
    pub fn signed_args_bin(op: BinOp, sx: bool, sy: bool) -> Vec<bool> {
        match op.class() {
            BinClass::Arith => {
                if sx && sy {
                    vec![true, false]
                } else {
                    vec![false]
                }
            }
            BinClass::ShiftPow => {
                if sx {
                    vec![true, false]
                } else {
                    vec![false]
                }
            }
            BinClass::Compare if is_relational(op) => vec![sx && sy],
            _ => vec![false],
        }
    }
    pub fn signed_args_un(op: UnOp, sx: bool) -> Vec<bool> {
        if op.is_context() && sx {
            vec![true, false]
        } else {
            vec![false]
        }
    }
}

// ---------------------------------------------------------------------------
// one evaluation against the reference
// ---------------------------------------------------------------------------

#[derive(Clone, Debug)]
pub struct Mismatch {
    pub sig: String,
    pub msg: String,
    pub input: serde_json::Value,
}

#[derive(Clone, Debug)]
pub enum Verdict {
    Ok { latitude: Vec<Latitude>, flag_differs: bool, variant_odd: bool },
    /// the LRM does not constrain the result (signed MIN / -1)
    Unconstrained,
    Bad(Mismatch),
}

fn kind(b: &Bv, one_bit: bool) -> String {
    if one_bit {
        if b.bits().iter().skip(1).any(|x| *x != Bit::Zero) {
            "ext".into()
        } else {
            b.bit(0).to_char().to_string()
        }
    } else if !b.has_xz() {
        "num".into()
    } else if b.bits().contains(&Bit::Z) {
        "hasz".into()
    } else if b.bits().iter().all(|x| *x == Bit::X) {
        "allx".into()
    } else {
        "partx".into()
    }
}

fn lat_name(l: Latitude) -> &'static str {
    match l {
        Latitude::SignedMinDivMinusOne => "signed_min_div_minus_one",
        Latitude::PowMixedSign => "pow_mixed_sign",
        Latitude::XzSignBit => "xz_sign_bit",
        Latitude::UnaryPlusXz => "unary_plus_xz",
        Latitude::UnsizedLiteralSign => "unsized_literal_sign",
    }
}

/// Input classes of the deviations already recorded as findings
/// (/verif/known_findings.d/C17.json).  A disagreement inside such a class
/// *and in the recorded direction* gets the finding's key as its signature;
/// anything else gets a generic `level:op:expected->actual` signature, so a
/// new defect of the same operator is not hidden behind a listed one.
pub mod known {
    /// `==` / `!=` whose relation is ambiguous because of x/z bits (LRM: x)
    /// answered with a definite 0 / 1.
    pub const EQ_AMBIGUOUS: &str = "eq-ambiguous-gives-definite";
    /// `&&` whose result is 0 (an operand is known to be zero) while an
    /// operand carries an x/z bit, answered x.
    pub const LOGAND_FALSE_UNKNOWN: &str = "logand-false-with-xz-operand-gives-x";
    /// `?:` with an unknown condition (LRM: bitwise merge) takes the else arm.
    pub const COND_UNKNOWN: &str = "cond-unknown-takes-else-arm";
    /// `**` whose signed exponent has x/z bits (LRM: all x) computed from the
    /// payload bits.
    pub const POW_XZ_EXPONENT: &str = "pow-xz-in-signed-exponent";
    /// `**` with a negative exponent and a signed base inside an unsigned
    /// context: the base is read as signed.
    pub const POW_SIGNED_BASE_UNSIGNED_CTX: &str = "pow-negative-exponent-signed-base-in-unsigned-context";
    /// `**` with a non-negative exponent ≥ 2^64: the exponent saturates to
    /// `usize::MAX` instead of being reduced exactly.
    pub const POW_HUGE_EXPONENT: &str = "pow-exponent-above-64-bits-saturates";
    /// The `signed` flag of an operator's result value is not the expression
    /// type (bitwise operators and `<< >>` always clear it; unary `+ - ~`,
    /// `<<< >>>`, `**` and `?:` keep the operand's own flag even in an
    /// unsigned context), and `== != ==? !=?`, the arms of `?:` and the
    /// exponent of `**` decide sign extension / sign from that flag.
    pub const RESULT_FLAG: &str = "result-signed-flag-is-not-the-expression-type";
    /// A bit/part select of a signed constant still counts as signed when
    /// the signedness of its context is determined (LRM 11.8.1: unsigned).
    pub const SELECT_SIGNED: &str = "part-select-of-signed-operand-keeps-context-signed";
    /// The 1-bit result of `<: <= >: >=` with two signed operands counts as a
    /// signed operand of the surrounding context (LRM 11.8.1: unsigned).
    pub const RELATIONAL_SIGNED: &str = "relational-result-counts-as-signed-operand";
    /// A bit/part select of a const whose selected bits contain x/z evaluates
    /// to the low bits of the whole const.
    pub const SELECT_XZ: &str = "part-select-with-xz-result-reads-low-bits";
    /// Reference to a const whose initialiser's signedness differs from the
    /// declared type (excluded from the generator by construction; only its
    /// reproducer produces this key).
    #[allow(dead_code)]
    pub const CONST_REF: &str = "const-ref-signedness-from-initializer";
}

/// `known_class`: `Some(key)` when the input is in the class of a listed
/// finding and `known_dir(actual)` says the result deviates in its direction.
#[allow(clippy::too_many_arguments)]
fn judge(
    level: &str,
    optext: &str,
    one_bit: bool,
    alternatives: &[Bv],
    latitude: Vec<Latitude>,
    actual: &Value,
    known_class: Option<(&'static str, &dyn Fn(&Bv) -> bool)>,
    describe: impl Fn() -> (String, serde_json::Value),
) -> Verdict {
    let expected = &alternatives[0];
    let act = match from_value(actual) {
        Ok(a) => a,
        Err(e) => {
            let (text, input) = describe();
            return Verdict::Bad(Mismatch {
                sig: format!("{level}:{optext}:stale-high-bits"),
                msg: format!("{text}\n  expected {expected}\n  result value is malformed: {e}"),
                input,
            });
        }
    };
    if act.width() != expected.width() {
        let (text, input) = describe();
        return Verdict::Bad(Mismatch {
            sig: format!("{level}:{optext}:width"),
            msg: format!("{text}\n  expected {expected}\n  got      {act} (width differs)"),
            input,
        });
    }
    if alternatives.iter().any(|a| a.bits() == act.bits()) {
        return Verdict::Ok {
            latitude,
            flag_differs: act.signed() != expected.signed(),
            variant_odd: !variant_consistent(actual),
        };
    }
    let (text, input) = describe();
    let sig = match known_class {
        Some((key, dir)) if dir(&act) => key.to_string(),
        _ => format!("{level}:{optext}:{}->{}", kind(expected, one_bit), kind(&act, one_bit)),
    };
    Verdict::Bad(Mismatch {
        sig,
        msg: format!(
            "{text}\n  IEEE 1800 value: {expected}{}\n  veryl computes : {act}",
            if alternatives.len() > 1 {
                format!(" (or, where the LRM leaves latitude: {})", alternatives[1..].iter().map(|a| a.to_string()).collect::<Vec<_>>().join(", "))
            } else {
                String::new()
            }
        ),
        input,
    })
}

type KnownDir = Box<dyn Fn(&Bv) -> bool>;

/// The listed-finding class an API-level evaluation falls into, if any.
fn known_class_bin(bop: BinOp, x: Option<&Bv>, y: Option<&Bv>, signed_arg: bool, expected: &Bv) -> Option<(&'static str, KnownDir)> {
    use vbv::Truth;
    match bop {
        BinOp::Eq if expected.bit(0) == Bit::X => Some((known::EQ_AMBIGUOUS, Box::new(|a: &Bv| a.bit(0) == Bit::Zero))),
        BinOp::Ne if expected.bit(0) == Bit::X => Some((known::EQ_AMBIGUOUS, Box::new(|a: &Bv| a.bit(0) == Bit::One))),
        BinOp::LogAnd => {
            let (x, y) = (x?, y?);
            if (x.truth() == Truth::False || y.truth() == Truth::False) && (x.has_xz() || y.has_xz()) {
                Some((known::LOGAND_FALSE_UNKNOWN, Box::new(|a: &Bv| a.bit(0) == Bit::X)))
            } else {
                None
            }
        }
        BinOp::Pow => {
            let (x, y) = (x?, y?);
            if y.signed() && y.has_xz() {
                Some((known::POW_XZ_EXPONENT, Box::new(|a: &Bv| !a.has_xz())))
            } else if !signed_arg && x.signed() && y.to_bigint().is_some_and(|e| e < 0.into()) {
                Some((known::POW_SIGNED_BASE_UNSIGNED_CTX, Box::new(|_| true)))
            } else if y.to_bigint().is_some_and(|e| e.bits() > 64 && e > 0.into()) {
                Some((known::POW_HUGE_EXPONENT, Box::new(|a: &Bv| !a.has_xz())))
            } else {
                None
            }
        }
        _ => None,
    }
}

pub fn check_binary(
    (bop, vop, text): (BinOp, Op, &str),
    x: &Bv,
    y: &Bv,
    w: usize,
    signed_arg: bool,
    mc: &mut MaskCache,
) -> Verdict {
    let e = vbv::binary(bop, x, y, Some(w), Some(signed_arg));
    if e.latitude.contains(&Latitude::SignedMinDivMinusOne) {
        return Verdict::Unconstrained;
    }
    let mut alts = vec![e.value];
    if !e.latitude.is_empty() {
        for d in Dialect::all() {
            let v = vbv::binary_d(bop, x, y, Some(w), Some(signed_arg), &d).value;
            if !alts.contains(&v) {
                alts.push(v);
            }
        }
    }
    let actual = vop.eval_value_binary(&to_value(x), &to_value(y), w, signed_arg, mc);
    let one_bit = matches!(bop.class(), BinClass::Compare | BinClass::Logical);
    let kc = known_class_bin(bop, Some(x), Some(y), signed_arg, &alts[0]);
    let kc = kc.as_ref().map(|(k, f)| (*k, f.as_ref() as &dyn Fn(&Bv) -> bool));
    judge("api", text, one_bit, &alts, e.latitude, &actual, kc, || {
        (
            format!("Op::eval_value_binary: ({x}) {text} ({y})  evaluated with width={w} signed={signed_arg}"),
            json!({"kind": "binary", "op": text, "x": x.to_string(), "y": y.to_string(), "width": w, "signed": signed_arg}),
        )
    })
}

/// One operand is an unbased unsized literal (`'0 '1 'x 'z`): veryl keeps it
/// as a width-0 value until an operator expands it to the context width.
pub fn check_binary_fill(
    (bop, vop, text): (BinOp, Op, &str),
    sized: &Bv,
    fill: Bit,
    fill_is_left: bool,
    w: usize,
    signed_arg: bool,
    mc: &mut MaskCache,
) -> Verdict {
    use vbv::expr::Expr;
    let (ex, ey) = if fill_is_left {
        (Expr::Fill(fill), Expr::Lit(sized.clone()))
    } else {
        (Expr::Lit(sized.clone()), Expr::Fill(fill))
    };
    let e = Expr::bin(bop, ex, ey);
    let r = vbv::eval_in_context(&e, Some(w), Some(signed_arg), &Dialect::default());
    if r.latitude.contains(&Latitude::SignedMinDivMinusOne) {
        return Verdict::Unconstrained;
    }
    let mut alts = vec![r.value];
    if !r.latitude.is_empty() {
        for d in Dialect::all() {
            let v = vbv::eval_in_context(&e, Some(w), Some(signed_arg), &d).value;
            if !alts.contains(&v) {
                alts.push(v);
            }
        }
    }
    let (p, m) = match fill {
        Bit::Zero => (0, 0),
        Bit::One => (1, 0),
        Bit::X => (0, 1),
        Bit::Z => (1, 1),
    };
    let fv = Value::U64(ValueU64 { payload: p, mask_xz: m, width: 0, signed: false });
    let sv = to_value(sized);
    let actual = if fill_is_left {
        vop.eval_value_binary(&fv, &sv, w, signed_arg, mc)
    } else {
        vop.eval_value_binary(&sv, &fv, w, signed_arg, mc)
    };
    let one_bit = matches!(bop.class(), BinClass::Compare | BinClass::Logical);
    let ft = format!("'{}", fill.to_char());
    let kc = known_class_bin(bop, None, None, signed_arg, &alts[0]);
    let kc = kc.as_ref().map(|(k, f)| (*k, f.as_ref() as &dyn Fn(&Bv) -> bool));
    judge("api", &format!("{text}:fill"), one_bit, &alts, r.latitude, &actual, kc, || {
        let (a, b) = if fill_is_left { (ft.clone(), sized.to_string()) } else { (sized.to_string(), ft.clone()) };
        (
            format!("({a}) {text} ({b})  evaluated with width={w} signed={signed_arg}"),
            json!({"kind": "binary-fill", "op": text, "sized": sized.to_string(), "fill": ft, "fill_is_left": fill_is_left, "width": w, "signed": signed_arg}),
        )
    })
}

pub fn check_unary((uop, vop, text): (UnOp, Op, &str), x: &Bv, w: usize, signed_arg: bool, mc: &mut MaskCache) -> Verdict {
    let e = vbv::unary(uop, x, Some(w), Some(signed_arg));
    let mut alts = vec![e.value];
    if !e.latitude.is_empty() {
        for d in Dialect::all() {
            let v = vbv::unary_d(uop, x, Some(w), Some(signed_arg), &d).value;
            if !alts.contains(&v) {
                alts.push(v);
            }
        }
    }
    let actual = vop.eval_value_unary(&to_value(x), w, signed_arg, mc);
    judge("api", &format!("unary{text}"), !uop.is_context(), &alts, e.latitude, &actual, None, || {
        (
            format!("{text}({x})  evaluated with width={w} signed={signed_arg}"),
            json!({"kind": "unary", "op": text, "x": x.to_string(), "width": w, "signed": signed_arg}),
        )
    })
}

pub fn parse_bv(s: &str) -> Option<Bv> {
    let (w, rest) = s.split_once('\'')?;
    let signed = rest.starts_with('s');
    let digits = rest.trim_start_matches('s').strip_prefix('b')?;
    let v = Bv::from_msb_str(digits, signed)?;
    if v.width() != w.parse::<usize>().ok()? {
        return None;
    }
    Some(v)
}

/// Re-run one recorded API-level evaluation (replay files / known findings).
fn replay_api(p: &serde_json::Value) -> Outcome {
    let get = |k: &str| p.get(k).and_then(|v| v.as_str()).unwrap_or("").to_string();
    let w = p.get("width").and_then(|v| v.as_u64()).unwrap_or(1) as usize;
    let s = p.get("signed").and_then(|v| v.as_bool()).unwrap_or(false);
    let mut mc = MaskCache::default();
    let verdict = match get("kind").as_str() {
        "binary" => {
            let Some(op) = BIN_OPS.iter().find(|o| o.2 == get("op")) else {
                return Outcome::skip("unknown operator in payload");
            };
            let (Some(x), Some(y)) = (parse_bv(&get("x")), parse_bv(&get("y"))) else {
                return Outcome::skip("malformed operand in payload");
            };
            check_binary(*op, &x, &y, w, s, &mut mc)
        }
        "unary" => {
            let Some(op) = UN_OPS.iter().find(|o| o.2 == get("op")) else {
                return Outcome::skip("unknown operator in payload");
            };
            let Some(x) = parse_bv(&get("x")) else {
                return Outcome::skip("malformed operand in payload");
            };
            check_unary(*op, &x, w, s, &mut mc)
        }
        "binary-fill" => {
            let Some(op) = BIN_OPS.iter().find(|o| o.2 == get("op")) else {
                return Outcome::skip("unknown operator in payload");
            };
            let Some(x) = parse_bv(&get("sized")) else {
                return Outcome::skip("malformed operand in payload");
            };
            let f = get("fill").chars().last().and_then(Bit::from_char).unwrap_or(Bit::Zero);
            let left = p.get("fill_is_left").and_then(|v| v.as_bool()).unwrap_or(false);
            check_binary_fill(*op, &x, f, left, w, s, &mut mc)
        }
        _ => return Outcome::skip("not an api payload"),
    };
    match verdict {
        Verdict::Bad(m) => Outcome::fail(m.sig, m.msg, m.input),
        _ => Outcome::pass(hash_str(&p.to_string()), true, vec!["replayed".into()], p.to_string()),
    }
}

// ---------------------------------------------------------------------------
// sub-check: exhaustive
// ---------------------------------------------------------------------------

/// All 4-state vectors of width `w`.
fn all_values(w: usize, signed: bool) -> Vec<Bv> {
    let n = 4usize.pow(w as u32);
    (0..n)
        .map(|mut k| {
            let mut bits = Vec::with_capacity(w);
            for _ in 0..w {
                bits.push(Bit::ALL[k % 4]);
                k /= 4;
            }
            Bv::new(bits, signed)
        })
        .collect()
}

#[derive(Clone, Debug)]
enum Cfg {
    Bin { op: usize, wx: usize, wy: usize, sx: bool, sy: bool, w: usize, signed: bool },
    Un { op: usize, wx: usize, sx: bool, w: usize, signed: bool },
    /// one sized operand, the other an unbased unsized literal
    Fill { op: usize, wx: usize, sx: bool, w: usize, left: bool },
}

#[derive(Default)]
struct CfgResult {
    evaluations: u64,
    unconstrained: u64,
    latitude: BTreeMap<&'static str, u64>,
    flag_differs: u64,
    variant_odd: u64,
    /// first mismatch of each signature, and how many
    bad: BTreeMap<String, (Mismatch, u64)>,
}

impl CfgResult {
    fn take(&mut self, v: Verdict) {
        self.evaluations += 1;
        match v {
            Verdict::Ok { latitude, flag_differs, variant_odd } => {
                for l in latitude {
                    *self.latitude.entry(lat_name(l)).or_insert(0) += 1;
                }
                self.flag_differs += flag_differs as u64;
                self.variant_odd += variant_odd as u64;
            }
            Verdict::Unconstrained => self.unconstrained += 1,
            Verdict::Bad(m) => {
                let e = self.bad.entry(m.sig.clone()).or_insert((m, 0));
                e.1 += 1;
            }
        }
    }
}

fn context_widths(base: usize, full: bool) -> Vec<usize> {
    let mut v = vec![base, base + 1, 63, 64, 65];
    if full {
        v.extend([base + 2, 7, 32, 70]);
    }
    v.retain(|w| *w >= base);
    v.sort();
    v.dedup();
    v
}

fn run_cfg(c: &Cfg, mc: &mut MaskCache) -> CfgResult {
    let mut r = CfgResult::default();
    match *c {
        Cfg::Bin { op, wx, wy, sx, sy, w, signed } => {
            let xs = all_values(wx, sx);
            let ys = all_values(wy, sy);
            for x in &xs {
                for y in &ys {
                    r.take(check_binary(BIN_OPS[op], x, y, w, signed, mc));
                }
            }
        }
        Cfg::Un { op, wx, sx, w, signed } => {
            for x in &all_values(wx, sx) {
                r.take(check_unary(UN_OPS[op], x, w, signed, mc));
            }
        }
        Cfg::Fill { op, wx, sx, w, left } => {
            for x in &all_values(wx, sx) {
                for f in Bit::ALL {
                    // the caller passes the sized operand's signedness (the
                    // unsized literal does not make veryl's context unsigned;
                    // accepted either way, `Latitude::UnsizedLiteralSign`)
                    for signed in if sx && BIN_OPS[op].0.class() == BinClass::Arith { vec![false, true] } else { vec![false] } {
                        r.take(check_binary_fill(BIN_OPS[op], x, f, left, w, signed, mc));
                    }
                }
            }
        }
    }
    r
}

fn exhaustive(ctx: &Ctx) {
    let maxw = 4;
    let full = !ctx.is_quick();
    let mut cfgs = vec![];
    for (i, (bop, _, _)) in BIN_OPS.iter().enumerate() {
        for wx in 1..=maxw {
            for wy in 1..=maxw {
                for sx in [false, true] {
                    for sy in [false, true] {
                        for w in context_widths(Contract::min_width_bin(*bop, wx, wy), full) {
                            for signed in Contract::signed_args_bin(*bop, sx, sy) {
                                cfgs.push(Cfg::Bin { op: i, wx, wy, sx, sy, w, signed });
                            }
                        }
                    }
                }
            }
        }
    }
    for (i, (bop, _, _)) in BIN_OPS.iter().enumerate() {
        // an unbased unsized literal is only legal where its width comes from a sibling
        if !matches!(bop.class(), BinClass::Arith | BinClass::Compare) {
            continue;
        }
        for wx in 1..=maxw {
            for sx in [false, true] {
                for w in context_widths(Contract::min_width_bin(*bop, wx, 0), full) {
                    for left in [false, true] {
                        cfgs.push(Cfg::Fill { op: i, wx, sx, w, left });
                    }
                }
            }
        }
    }
    for (i, (uop, _, _)) in UN_OPS.iter().enumerate() {
        for wx in 1..=maxw + 2 {
            for sx in [false, true] {
                for w in context_widths(Contract::min_width_un(*uop, wx), true) {
                    for signed in Contract::signed_args_un(*uop, sx) {
                        cfgs.push(Cfg::Un { op: i, wx, sx, w, signed });
                    }
                }
            }
        }
    }
    let next = AtomicUsize::new(0);
    let results: Mutex<Vec<(usize, CfgResult)>> = Mutex::new(vec![]);
    let threads = std::thread::available_parallelism().map(|n| n.get()).unwrap_or(8);
    std::thread::scope(|s| {
        for _ in 0..threads {
            s.spawn(|| {
                let mut mc = MaskCache::default();
                let mut local = vec![];
                loop {
                    let i = next.fetch_add(1, Ordering::Relaxed);
                    if i >= cfgs.len() {
                        break;
                    }
                    local.push((i, run_cfg(&cfgs[i], &mut mc)));
                }
                results.lock().unwrap().extend(local);
            });
        }
    });
    let mut results = results.into_inner().unwrap();
    results.sort_by_key(|r| r.0);
    let mut total = 0u64;
    for (i, r) in results {
        let c = &cfgs[i];
        let desc = format!("{c:?}");
        total += r.evaluations;
        ctx.note_add("exhaustive_unconstrained_min_div_minus_one", r.unconstrained);
        ctx.note_add("result_signed_flag_differs_from_lrm_type", r.flag_differs);
        ctx.note_add("result_variant_not_matching_width", r.variant_odd);
        for (k, n) in &r.latitude {
            ctx.note_add(&format!("latitude_{k}"), *n);
        }
        let (optext, class) = match c {
            Cfg::Bin { op, w, .. } => (BIN_OPS[*op].2.to_string(), if *w > 64 { "ctx>64" } else { "ctx<=64" }),
            Cfg::Un { op, w, .. } => (format!("unary{}", UN_OPS[*op].2), if *w > 64 { "ctx>64" } else { "ctx<=64" }),
            Cfg::Fill { op, w, .. } => (format!("{}:fill", BIN_OPS[*op].2), if *w > 64 { "ctx>64" } else { "ctx<=64" }),
        };
        if r.bad.is_empty() {
            ctx.record(
                "exhaustive",
                Outcome::pass(
                    hash_str(&desc),
                    true,
                    vec![format!("exh:{optext}"), format!("exh:{class}")],
                    format!("{desc}: {} operand combinations", r.evaluations),
                ),
                json!(null),
            );
        }
        for (_, (m, n)) in r.bad {
            let msg = format!("{}\n  ({n} operand combinations of {desc} fail this way)", m.msg);
            ctx.record("api", Outcome::fail(m.sig, msg, m.input.clone()), m.input);
        }
    }
    ctx.note("exhaustive_operand_combinations", json!(total));
    ctx.note("exhaustive_max_operand_width", json!(maxw));
    ctx.set_exhaustive(true);
}

// ---------------------------------------------------------------------------
// sub-check: random (wide operands, boundary widths) + relation 2
// ---------------------------------------------------------------------------

const BOUNDARY: [usize; 11] = [31, 32, 33, 63, 64, 65, 127, 128, 129, 255, 256];

fn draw_width(d: &mut Draw) -> usize {
    match d.weighted(&[3, 6, 2]) {
        0 => d.usize_in(1, 8),
        1 => *d.pick(&BOUNDARY),
        _ => d.usize_in(1, 256),
    }
}

fn words_to_big(w: &[u64]) -> BigUint {
    let mut v = BigUint::default();
    for (i, x) in w.iter().enumerate() {
        v |= BigUint::from(*x) << (64 * i);
    }
    v
}

pub fn draw_bv(d: &mut Draw, w: usize, signed: bool) -> Bv {
    let val = words_to_big(&d.corner_bits(w));
    let xz = match d.weighted(&[6, 2, 1, 1]) {
        0 => BigUint::default(),
        1 => BigUint::from(1u8) << d.usize_in(0, w - 1),
        2 => words_to_big(&d.corner_bits(w)),
        _ => words_to_big(&d.bits(w)) & words_to_big(&d.bits(w)),
    };
    Bv::from_planes(&val, &xz, w, signed)
}

/// small non-negative number as a vector (shift amounts, exponents)
fn draw_small(d: &mut Draw, around: usize) -> Bv {
    let cands = [0usize, 1, 2, 3, around.saturating_sub(1), around, around + 1, 63, 64, 65, 5, 31, 32, 33, 127, 128, 255, 256, 300];
    let v = *d.pick(&cands);
    let w = d.usize_in(9, 12).max(1);
    Bv::from_u64(v as u64, w, d.chance(1, 4))
}

fn draw_ctx_width(d: &mut Draw, base: usize) -> usize {
    match d.weighted(&[4, 2, 3]) {
        0 => base,
        1 => base + d.usize_in(1, 3),
        _ => (*d.pick(&BOUNDARY)).max(base),
    }
}

fn random_case(d: &mut Draw) -> Outcome {
    let mut mc = MaskCache::default();
    let mut classes: Vec<String> = vec![];
    let unary = d.chance(1, 5);
    if unary {
        let op = *d.pick(&UN_OPS);
        let wx = draw_width(d);
        let sx = d.bool();
        let x = draw_bv(d, wx, sx);
        let w = draw_ctx_width(d, Contract::min_width_un(op.0, wx));
        let signed = *d.pick(&Contract::signed_args_un(op.0, sx));
        let text = format!("{}({x}) width={w} signed={signed}", op.2);
        classes.push(format!("op:unary{}", op.2));
        classify(&mut classes, &[&x], w);
        let nt = BOUNDARY.contains(&wx) || BOUNDARY.contains(&w) || x.has_xz();
        return match check_unary(op, &x, w, signed, &mut mc) {
            Verdict::Bad(m) => Outcome::fail(m.sig, m.msg, m.input),
            Verdict::Unconstrained => Outcome::skip("LRM leaves the result open"),
            Verdict::Ok { latitude, flag_differs, .. } => {
                for l in latitude {
                    classes.push(format!("latitude:{}", lat_name(l)));
                }
                if flag_differs {
                    classes.push("result_signed_flag_differs".into());
                }
                Outcome::pass(hash_str(&text), nt, classes, text)
            }
        };
    }
    let op = *d.pick(&BIN_OPS);
    let wx = draw_width(d);
    let sx = d.bool();
    let sy = d.bool();
    let x = draw_bv(d, wx, sx);
    let y = if op.0.class() == BinClass::ShiftPow && d.chance(3, 4) {
        draw_small(d, wx)
    } else {
        let wy = if d.chance(1, 2) { wx } else { draw_width(d) };
        // equal operands now and then (== / - / / corner cases)
        if wy == wx && d.chance(1, 6) { x.with_signed(sy) } else { draw_bv(d, wy, sy) }
    };
    let sy = y.signed();
    let w = draw_ctx_width(d, Contract::min_width_bin(op.0, wx, y.width()));
    let signed = *d.pick(&Contract::signed_args_bin(op.0, sx, sy));
    let text = format!("({x}) {} ({y}) width={w} signed={signed}", op.2);
    classes.push(format!("op:{}", op.2));
    classify(&mut classes, &[&x, &y], w);
    let nt = BOUNDARY.contains(&wx) || BOUNDARY.contains(&y.width()) || BOUNDARY.contains(&w) || x.has_xz() || y.has_xz();
    match check_binary(op, &x, &y, w, signed, &mut mc) {
        Verdict::Bad(m) => return Outcome::fail(m.sig, m.msg, m.input),
        Verdict::Unconstrained => return Outcome::skip("LRM leaves the result open (signed MIN / -1)"),
        Verdict::Ok { latitude, flag_differs, .. } => {
            for l in latitude {
                classes.push(format!("latitude:{}", lat_name(l)));
            }
            if flag_differs {
                classes.push("result_signed_flag_differs".into());
            }
        }
    }
    // relation 2: the ≤64-bit and the big-integer code agree
    if w <= 64 {
        let w2 = *d.pick(&[65usize, 66, 100, 128, 129]);
        let e1 = vbv::binary(op.0, &x, &y, Some(w), Some(signed));
        let e2 = vbv::binary(op.0, &x, &y, Some(w2), Some(signed));
        let must_agree = e1.latitude.is_empty() && e2.latitude.is_empty() && e2.value.truncate(w).bits() == e1.value.bits();
        if must_agree {
            classes.push("rel2:compared".into());
            let r1 = op.1.eval_value_binary(&to_value(&x), &to_value(&y), w, signed, &mut mc);
            let r2 = op.1.eval_value_binary(&to_value(&x), &to_value(&y), w2, signed, &mut mc);
            let (b1, b2) = (from_value(&r1), from_value(&r2));
            if let (Ok(b1), Ok(b2)) = (b1, b2)
                && b2.truncate(w).bits() != b1.bits()
            {
                return Outcome::fail(
                    format!("rel2:{}:u64-vs-biguint", op.2),
                    format!("{text}\n  at width {w} (64-bit code): {b1}\n  at width {w2} (big-integer code), low {w} bits: {}\n  IEEE 1800: both {}", b2.truncate(w), e1.value),
                    json!({"kind": "binary", "op": op.2, "x": x.to_string(), "y": y.to_string(), "width": w, "width2": w2, "signed": signed}),
                );
            }
        } else {
            classes.push("rel2:context-dependent".into());
        }
    }
    Outcome::pass(hash_str(&text), nt, classes, text)
}

fn classify(classes: &mut Vec<String>, ops: &[&Bv], w: usize) {
    if ops.iter().any(|o| o.width() > 64) || w > 64 {
        classes.push("wide(>64)".into());
    }
    if ops.iter().any(|o| BOUNDARY.contains(&o.width())) || BOUNDARY.contains(&w) {
        classes.push("boundary_width".into());
    }
    if ops.iter().any(|o| o.has_xz()) {
        classes.push("xz_operand".into());
    }
    if ops.iter().any(|o| o.signed()) {
        classes.push("signed_operand".into());
    }
    if ops.iter().all(|o| o.width() <= 64) && w > 64 {
        classes.push("narrow_operands_wide_context".into());
    }
}

// ---------------------------------------------------------------------------
// sub-check: Value::expand / trunc / select / concat / assign
// ---------------------------------------------------------------------------

fn valueops_case(d: &mut Draw) -> Outcome {
    let w = draw_width(d);
    let signed = d.bool();
    let x = draw_bv(d, w, signed);
    let vx = to_value(&x);
    let which = d.below(5);
    let (name, text, expected, actual): (&str, String, Bv, Value) = match which {
        0 => {
            // expand(width, use_sign): wider, sign-extended iff the value is signed and use_sign
            let to = draw_ctx_width(d, w);
            let use_sign = d.bool();
            let e = x.extend(to, use_sign && signed);
            (
                "expand",
                format!("({x}).expand({to}, {use_sign})"),
                e,
                vx.expand(to, use_sign).into_owned(),
            )
        }
        1 => {
            let to = d.usize_in(1, w);
            let mut v = vx.clone();
            v.trunc(to);
            ("trunc", format!("({x}).trunc({to})"), x.truncate(to), v)
        }
        2 => {
            // in-range select (callers reject out-of-range selects)
            let end = d.usize_in(0, w - 1);
            let beg = d.usize_in(end, w - 1);
            ("select", format!("({x}).select({beg}, {end})"), x.part_select(beg, end), vx.select(beg, end))
        }
        3 => {
            let wy = draw_width(d);
            let sy = d.bool();
            let y = draw_bv(d, wy, sy);
            ("concat", format!("({x}).concat({y})"), x.concat(&y), vx.concat(&to_value(&y)))
        }
        _ => {
            // in-range assign of a slice; the written value is as wide as the slice
            let end = d.usize_in(0, w - 1);
            let beg = d.usize_in(end, w - 1);
            let sy = d.bool();
            let y = draw_bv(d, beg - end + 1, sy);
            let mut v = vx.clone();
            v.assign(to_value(&y), beg, end);
            ("assign", format!("({x}).assign({y}, {beg}, {end})"), x.part_assign(beg, end, &y), v)
        }
    };
    let mut classes = vec![format!("valueop:{name}")];
    classify(&mut classes, &[&x, &expected], 0);
    let crosses = (w <= 64) != (expected.width() <= 64);
    if crosses {
        classes.push("crosses_64".into());
    }
    match from_value(&actual) {
        Err(e) => Outcome::fail(format!("value:{name}:stale-high-bits"), format!("{text}: {e}"), json!({"op": text})),
        Ok(a) => {
            if a.width() != expected.width() || a.bits() != expected.bits() {
                Outcome::fail(
                    format!("value:{name}:{}", if a.width() != expected.width() { "width" } else { "bits" }),
                    format!("{text}\n  expected {expected}\n  got      {a}"),
                    json!({"op": text}),
                )
            } else if !variant_consistent(&actual) {
                Outcome::fail(
                    format!("value:{name}:variant"),
                    format!("{text}: result of width {} is held in the {} variant (every operator matches on (U64,U64)/(BigUint,BigUint) and panics on a mix)", a.width(), if a.width() <= 64 { "BigUint" } else { "U64" }),
                    json!({"op": text}),
                )
            } else {
                Outcome::pass(hash_str(&text), BOUNDARY.contains(&w) || x.has_xz() || crosses, classes, text)
            }
        }
    }
}

// ---------------------------------------------------------------------------

pub fn run(ctx: &Ctx) {
    // development aid: C17_ONLY=exhaustive|random|valueops|lang runs one sub-check
    let only = std::env::var("C17_ONLY").ok();
    let want = |s: &str| only.as_deref().is_none_or(|o| o == s);
    let t0 = std::time::Instant::now();
    let lap = |name: &str, since: std::time::Instant| {
        ctx.note(&format!("wall_s_{name}"), json!((since.elapsed().as_secs_f64() * 10.0).round() / 10.0));
    };
    if let Some(o) = &only {
        ctx.note("partial_run_only", json!(o));
    }
    ctx.run_payloads("api", replay_api);
    crate::c17lang::replay_known(ctx);
    if !ctx.replay_mode() && want("exhaustive") {
        exhaustive(ctx);
        lap("exhaustive", t0);
    }
    if want("random") {
        let t = std::time::Instant::now();
        let n = ctx.scale(600_000, 8_000_000);
        ctx.run("random", CaseCfg::cases(n).choices(200).same_thread(), random_case);
        lap("random", t);
    }
    if want("valueops") {
        let t = std::time::Instant::now();
        let n = ctx.scale(200_000, 3_000_000);
        ctx.run("valueops", CaseCfg::cases(n).choices(120).same_thread(), valueops_case);
        lap("valueops", t);
    }
    if want("lang") {
        let t = std::time::Instant::now();
        crate::c17lang::run(ctx);
        lap("lang", t);
    }

    ctx.assume("vbv (harness/vbv) is the reading of IEEE 1800-2017 clause 11 the results are compared with");
    ctx.assume("API level: width/signed arguments restricted to what Expression::eval_value passes (c17.rs `Contract`); operands not wider than the context (no narrowing `as`)");
    ctx.assume("accepted either way and counted: signed MIN / -1, `**` with mixed operand signedness, replicated x/z sign bit, unary + on x/z, the signed flag of a result value");
    ctx.finish(
        "exploration",
        "exhaustive: every operator x operand widths 1..4 (unary 1..6) x all 4-state values x signedness x context widths (own, +1, 63, 64, 65; thorough also +2, 7, 32, 70), one evidence case per configuration; random: operand widths 1..256 with 31/32/33/63/64/65/127/128/129/255/256 over-weighted, corner-biased values and x/z masks; lang: generated const expressions through the real analyzer. non-trivial = an operand or the context uses a boundary width, or an operand has x/z; distinct by case text",
    );
}
