//! C17, language level: generated `const` declarations inside a tiny module go
//! through the real parser and analyzer (pass 1, pass 2 with an IR); the
//! evaluated constants are read back from the module's variable table and
//! compared with `vbv::expr::Expr::eval_assign` (the value an N-bit variable
//! holds after being assigned the expression).
//!
//! Every non-leaf sub-expression of the generated expression gets its own
//! `const` (declared with the sub-expression's self-determined width), so a
//! disagreement is attributed to the smallest sub-expression that disagrees:
//! the failure signature is `lang:<operator>:<expected kind>-><actual kind>`.

use crate::c17::{BIN_OPS, UN_OPS, from_value};
use std::collections::BTreeMap;
use std::path::Path;
use vbv::expr::Expr;
use vbv::{BinClass, Bit, Bv, UnOp};
use vcore::{CaseCfg, Ctx, Draw, Outcome, hash_str, json};
use veryl_analyzer::ir::{Component, Ir};
use veryl_analyzer::value::Value;
use veryl_analyzer::{Analyzer, Context};
use veryl_metadata::Metadata;
use veryl_parser::Parser;

/// Generated expression: enough structure to print Veryl and to build the
/// reference expression.
#[derive(Clone, Debug)]
pub enum G {
    /// based literal, printed in binary (`4'sb10xz`)
    Lit(Bv),
    /// base-less decimal literal: 32 bit signed
    Num(u32),
    /// `'0 '1 'x 'z`
    Fill(Bit),
    Un(usize, Box<G>),
    Bin(usize, Box<G>, Box<G>),
    Cond(Box<G>, Box<G>, Box<G>),
    Concat(Vec<G>),
    Repl(usize, Box<G>),
    /// `$signed` / `$unsigned` — not generated (system functions are outside
    /// the operator property; see the note in `run`), kept for hand-written use
    #[allow(dead_code)]
    SignCast(bool, Box<G>),
    /// reference to a named constant `K<i>` declared before the expression
    /// (its value normalised to the declared type)
    Ref(usize, Bv),
    /// in-range part select `K<i>[hi:lo]`
    Sel(usize, Bv, usize, usize),
}

impl G {
    pub fn to_expr(&self) -> Expr {
        match self {
            G::Lit(v) => Expr::Lit(v.clone()),
            G::Num(n) => Expr::Lit(Bv::from_u64(*n as u64, 32, true)),
            G::Fill(b) => Expr::Fill(*b),
            G::Un(i, x) => Expr::un(UN_OPS[*i].0, x.to_expr()),
            G::Bin(i, x, y) => Expr::bin(BIN_OPS[*i].0, x.to_expr(), y.to_expr()),
            G::Cond(c, a, b) => Expr::cond(c.to_expr(), a.to_expr(), b.to_expr()),
            G::Concat(xs) => Expr::Concat(xs.iter().map(|x| x.to_expr()).collect()),
            G::Repl(n, x) => Expr::Repl(*n, Box::new(x.to_expr())),
            G::SignCast(s, x) => Expr::SignCast(*s, Box::new(x.to_expr())),
            G::Ref(_, v) => Expr::Lit(v.clone()),
            G::Sel(_, v, hi, lo) => Expr::Select(Box::new(Expr::Lit(v.clone())), *hi, *lo),
        }
    }
    pub fn to_veryl(&self) -> String {
        match self {
            G::Lit(v) => v.to_string(),
            G::Num(n) => n.to_string(),
            G::Fill(b) => format!("'{}", b.to_char()),
            G::Un(i, x) => format!("({}{})", UN_OPS[*i].2, x.to_veryl()),
            G::Bin(i, x, y) => format!("({} {} {})", x.to_veryl(), BIN_OPS[*i].2, y.to_veryl()),
            G::Cond(c, a, b) => format!("(if {} ? {} : {})", c.to_veryl(), a.to_veryl(), b.to_veryl()),
            G::Concat(xs) => format!("{{{}}}", xs.iter().map(|x| x.to_veryl()).collect::<Vec<_>>().join(", ")),
            G::Repl(n, x) => format!("{{{} repeat {n}}}", x.to_veryl()),
            G::SignCast(s, x) => format!("{}({})", if *s { "$signed" } else { "$unsigned" }, x.to_veryl()),
            G::Ref(i, _) => format!("K{i}"),
            G::Sel(i, _, hi, lo) => format!("K{i}[{hi}:{lo}]"),
        }
    }
    fn root_op(&self) -> String {
        match self {
            G::Lit(_) | G::Num(_) | G::Fill(_) => "literal".into(),
            G::Ref(..) => "const-ref".into(),
            G::Sel(..) => "part-select".into(),
            G::Un(i, _) => format!("unary{}", UN_OPS[*i].2),
            G::Bin(i, _, _) => BIN_OPS[*i].2.into(),
            G::Cond(..) => "?:".into(),
            G::Concat(_) => "concat".into(),
            G::Repl(..) => "repeat".into(),
            G::SignCast(s, _) => if *s { "$signed" } else { "$unsigned" }.into(),
        }
    }
    fn size(&self) -> usize {
        match self {
            G::Lit(_) | G::Num(_) | G::Fill(_) | G::Ref(..) | G::Sel(..) => 1,
            G::Un(_, x) | G::Repl(_, x) | G::SignCast(_, x) => 1 + x.size(),
            G::Bin(_, x, y) => 1 + x.size() + y.size(),
            G::Cond(c, a, b) => 1 + c.size() + a.size() + b.size(),
            G::Concat(xs) => 1 + xs.iter().map(|x| x.size()).sum::<usize>(),
        }
    }
    fn is_leaf(&self) -> bool {
        matches!(self, G::Lit(_) | G::Num(_) | G::Fill(_) | G::Ref(..) | G::Sel(..))
    }
    fn refs(&self, out: &mut Vec<(usize, Bv)>) {
        match self {
            G::Ref(i, v) | G::Sel(i, v, _, _) => {
                if !out.iter().any(|(k, _)| k == i) {
                    out.push((*i, v.clone()));
                }
            }
            G::Lit(_) | G::Num(_) | G::Fill(_) => {}
            G::Un(_, x) | G::Repl(_, x) | G::SignCast(_, x) => x.refs(out),
            G::Bin(_, x, y) => {
                x.refs(out);
                y.refs(out);
            }
            G::Cond(c, a, b) => {
                c.refs(out);
                a.refs(out);
                b.refs(out);
            }
            G::Concat(xs) => xs.iter().for_each(|x| x.refs(out)),
        }
    }
    /// all non-leaf sub-expressions, root first
    fn subexprs<'a>(&'a self, out: &mut Vec<&'a G>) {
        if self.is_leaf() {
            return;
        }
        out.push(self);
        match self {
            G::Un(_, x) | G::Repl(_, x) | G::SignCast(_, x) => x.subexprs(out),
            G::Bin(_, x, y) => {
                x.subexprs(out);
                y.subexprs(out);
            }
            G::Cond(c, a, b) => {
                c.subexprs(out);
                a.subexprs(out);
                b.subexprs(out);
            }
            G::Concat(xs) => xs.iter().for_each(|x| x.subexprs(out)),
            _ => {}
        }
    }
    fn has_fill(&self) -> bool {
        match self {
            G::Fill(_) => true,
            G::Lit(_) | G::Num(_) | G::Ref(..) | G::Sel(..) => false,
            G::Un(_, x) | G::Repl(_, x) | G::SignCast(_, x) => x.has_fill(),
            G::Bin(_, x, y) => x.has_fill() || y.has_fill(),
            G::Cond(c, a, b) => c.has_fill() || a.has_fill() || b.has_fill(),
            G::Concat(xs) => xs.iter().any(|x| x.has_fill()),
        }
    }
    fn has_xz_literal(&self) -> bool {
        match self {
            G::Fill(b) => b.is_xz(),
            G::Lit(v) | G::Ref(_, v) | G::Sel(_, v, _, _) => v.has_xz(),
            G::Num(_) => false,
            G::Un(_, x) | G::Repl(_, x) | G::SignCast(_, x) => x.has_xz_literal(),
            G::Bin(_, x, y) => x.has_xz_literal() || y.has_xz_literal(),
            G::Cond(c, a, b) => c.has_xz_literal() || a.has_xz_literal() || b.has_xz_literal(),
            G::Concat(xs) => xs.iter().any(|x| x.has_xz_literal()),
        }
    }
    fn max_lit_width(&self) -> usize {
        match self {
            G::Fill(_) => 0,
            G::Lit(v) | G::Ref(_, v) | G::Sel(_, v, _, _) => v.width(),
            G::Num(_) => 32,
            G::Un(_, x) | G::Repl(_, x) | G::SignCast(_, x) => x.max_lit_width(),
            G::Bin(_, x, y) => x.max_lit_width().max(y.max_lit_width()),
            G::Cond(c, a, b) => c.max_lit_width().max(a.max_lit_width()).max(b.max_lit_width()),
            G::Concat(xs) => xs.iter().map(|x| x.max_lit_width()).max().unwrap_or(0),
        }
    }
}

// ---------------------------------------------------------------------------
// generator
// ---------------------------------------------------------------------------

const WIDE: [usize; 9] = [31, 32, 33, 63, 64, 65, 127, 128, 129];

struct Gen {
    /// chance (per mille) that a literal carries x/z bits
    xz_per_mille: u32,
    wide: bool,
    /// values of the named constants K0..K2
    pool: Vec<Bv>,
}

impl Gen {
    fn width(&self, d: &mut Draw) -> usize {
        if self.wide && d.chance(1, 3) { *d.pick(&WIDE) } else { d.usize_in(1, 8) }
    }
    fn lit(&self, d: &mut Draw, w: usize) -> G {
        let signed = d.chance(2, 5);
        let mut bits = Vec::with_capacity(w);
        let xz = d.chance(self.xz_per_mille, 1000);
        let shape = d.below(4);
        for i in 0..w {
            let b = match shape {
                0 => Bit::Zero,
                1 => Bit::One,
                2 => {
                    if i == w - 1 {
                        Bit::One
                    } else {
                        Bit::Zero
                    }
                }
                _ => Bit::from_bool(d.bool()),
            };
            bits.push(b);
        }
        if xz {
            let n = if d.chance(1, 4) { w } else { d.usize_in(1, 2.min(w)) };
            for _ in 0..n {
                let i = d.usize_in(0, w - 1);
                bits[i] = if d.chance(1, 3) { Bit::Z } else { Bit::X };
            }
        }
        G::Lit(Bv::new(bits, signed))
    }
    fn leaf(&self, d: &mut Draw) -> G {
        if d.chance(1, 6) {
            // a named constant (K0..K2), possibly with a declared signedness
            // different from its initialiser's, possibly part-selected
            let i = d.below_usize(self.pool.len());
            let v = self.pool[i].clone();
            let w = v.width();
            if d.chance(1, 3) {
                let lo = d.usize_in(0, w - 1);
                let hi = d.usize_in(lo, w - 1);
                return G::Sel(i, v, hi, lo);
            }
            return G::Ref(i, v);
        }
        if d.chance(1, 12) {
            return G::Num(*d.pick(&[0u32, 1, 2, 3, 7, 100, 255, 65535, 0x7fff_ffff]));
        }
        let w = self.width(d);
        self.lit(d, w)
    }
    /// 1-bit operand for `&& || !` and the `?:` condition
    fn one_bit(&self, d: &mut Draw, depth: usize) -> G {
        if depth == 0 || d.chance(1, 2) {
            return self.lit(d, 1);
        }
        // a comparison or a reduction
        if d.bool() {
            let ops: Vec<usize> = (0..BIN_OPS.len()).filter(|i| BIN_OPS[*i].0.class() == BinClass::Compare).collect();
            let i = *d.pick(&ops);
            G::Bin(i, Box::new(self.expr(d, depth - 1, false)), Box::new(self.expr(d, depth - 1, false)))
        } else {
            let ops: Vec<usize> = (0..UN_OPS.len()).filter(|i| !UN_OPS[*i].0.is_context()).collect();
            G::Un(*d.pick(&ops), Box::new(self.expr(d, depth - 1, false)))
        }
    }
    /// the generated expression: an operator at the root whenever the choice
    /// sequence allows
    fn top(&self, d: &mut Draw, depth: usize) -> G {
        for _ in 0..4 {
            let g = self.expr(d, depth, false);
            if !g.is_leaf() {
                return g;
            }
        }
        self.expr(d, depth, false)
    }
    /// `allow_fill`: the position is context-determined with a sized sibling
    fn expr(&self, d: &mut Draw, depth: usize, allow_fill: bool) -> G {
        if allow_fill && d.chance(1, 15) {
            return G::Fill(*d.pick(&Bit::ALL));
        }
        if depth == 0 || d.chance(1, 4) {
            return self.leaf(d);
        }
        match d.weighted(&[12, 4, 2, 2, 1]) {
            0 => {
                let i = d.below_usize(BIN_OPS.len());
                let op = BIN_OPS[i].0;
                match op.class() {
                    BinClass::Logical => {
                        if d.chance(1, 6) {
                            // multi-bit logical operands: accepted with a warning
                            G::Bin(i, Box::new(self.expr(d, depth - 1, false)), Box::new(self.expr(d, depth - 1, false)))
                        } else {
                            G::Bin(i, Box::new(self.one_bit(d, depth - 1)), Box::new(self.one_bit(d, depth - 1)))
                        }
                    }
                    BinClass::ShiftPow => {
                        let x = self.expr(d, depth - 1, false);
                        let y = if d.chance(2, 3) {
                            let v = *d.pick(&[0u64, 1, 2, 3, 4, 5, 7, 8, 31, 32, 33, 63, 64, 65]);
                            let w = d.usize_in(7, 8);
                            G::Lit(Bv::from_u64(v, w, d.chance(1, 4)))
                        } else {
                            self.expr(d, depth - 1, false)
                        };
                        G::Bin(i, Box::new(x), Box::new(y))
                    }
                    BinClass::Arith => {
                        let x = self.expr(d, depth - 1, false);
                        let y = self.expr(d, depth - 1, true);
                        G::Bin(i, Box::new(x), Box::new(y))
                    }
                    BinClass::Compare => {
                        let x = self.expr(d, depth - 1, false);
                        let y = self.expr(d, depth - 1, true);
                        G::Bin(i, Box::new(x), Box::new(y))
                    }
                }
            }
            1 => {
                let i = d.below_usize(UN_OPS.len());
                if UN_OPS[i].0 == UnOp::LogNot && !d.chance(1, 6) {
                    G::Un(i, Box::new(self.one_bit(d, depth - 1)))
                } else {
                    G::Un(i, Box::new(self.expr(d, depth - 1, false)))
                }
            }
            2 => {
                let c = self.one_bit(d, depth - 1);
                let a = self.expr(d, depth - 1, false);
                let b = self.expr(d, depth - 1, true);
                G::Cond(Box::new(c), Box::new(a), Box::new(b))
            }
            3 => {
                let n = d.usize_in(1, 3);
                G::Concat((0..n).map(|_| self.expr(d, depth - 1, false)).collect())
            }
            _ => G::Repl(d.usize_in(1, 3), Box::new(self.expr(d, depth - 1, false))),
        }
    }
}

// ---------------------------------------------------------------------------
// analyzer driver
// ---------------------------------------------------------------------------

pub struct Analysed {
    pub consts: BTreeMap<String, Value>,
    /// names of diagnostics with error severity
    pub errors: Vec<String>,
    pub warnings: Vec<String>,
}

fn diag_name(e: &veryl_analyzer::AnalyzerError) -> String {
    let s = format!("{e:?}");
    s.split(|c: char| !c.is_alphanumeric() && c != '_').next().unwrap_or("").to_string()
}

/// Parse + analyse `src` (one module) the way the compiler does and return
/// the evaluated value of every scalar variable/const of the first module.
pub fn analyse(src: &str) -> Result<Analysed, String> {
    let metadata = Metadata::create_default("prj").map_err(|e| format!("metadata: {e}"))?;
    let parser = Parser::parse(src, &Path::new("c17.veryl")).map_err(|e| format!("parse error: {e}"))?;
    let analyzer = Analyzer::new(&metadata);
    let mut context = Context::default();
    let mut ir = Ir::default();
    let mut diags = vec![];
    diags.append(&mut analyzer.analyze_pass1("prj", &parser.veryl));
    diags.append(&mut Analyzer::analyze_post_pass1());
    diags.append(&mut analyzer.analyze_pass2(&parser.veryl, &mut context, Some(&mut ir)));
    diags.append(&mut Analyzer::analyze_post_pass2(&ir));
    let mut consts = BTreeMap::new();
    for c in &ir.components {
        if let Component::Module(m) = c {
            for v in m.variables.values() {
                if let Some(val) = v.value.first()
                    && v.value.len() == 1
                {
                    consts.insert(v.path.to_string(), val.clone());
                }
            }
        }
    }
    let errors = diags.iter().filter(|e| e.is_error()).map(diag_name).collect();
    let warnings = diags.iter().filter(|e| !e.is_error()).map(diag_name).collect();
    analyzer.clear();
    Ok(Analysed { consts, errors, warnings })
}

// ---------------------------------------------------------------------------
// one case
// ---------------------------------------------------------------------------

struct Decl<'a> {
    name: String,
    width: usize,
    signed_type: bool,
    g: &'a G,
}

fn kind(b: &Bv) -> &'static str {
    if !b.has_xz() {
        "num"
    } else if b.bits().contains(&Bit::Z) {
        "hasz"
    } else if b.bits().iter().all(|x| *x == Bit::X) {
        "allx"
    } else {
        "partx"
    }
}

fn one_bit_result(g: &G) -> bool {
    match g {
        G::Un(i, _) => !UN_OPS[*i].0.is_context(),
        G::Bin(i, _, _) => matches!(BIN_OPS[*i].0.class(), BinClass::Compare | BinClass::Logical),
        _ => false,
    }
}

/// Input classes of listed findings (`c17::known`) occurring anywhere in
/// `e` when it is assigned to an `lhs_width`-bit constant.  The walk mirrors
/// the context propagation of `Expr::eval_in`.
pub fn triggers(e: &Expr, lhs_width: usize) -> Vec<&'static str> {
    use crate::c17::known;
    use vbv::{BinOp, Truth};
    /// an operator result whose value flag may differ from the LRM type
    fn flag_suspect(e: &Expr) -> bool {
        fn any_signed_leaf(e: &Expr) -> bool {
            match e {
                Expr::Lit(v) => v.signed(),
                Expr::Fill(_) => false,
                Expr::Un(_, x) | Expr::Repl(_, x) | Expr::SignCast(_, x) | Expr::Select(x, _, _) | Expr::SizeCast(_, x) => any_signed_leaf(x),
                Expr::Bin(_, x, y) => any_signed_leaf(x) || any_signed_leaf(y),
                Expr::Cond(c, a, b) => any_signed_leaf(c) || any_signed_leaf(a) || any_signed_leaf(b),
                Expr::Concat(xs) => xs.iter().any(any_signed_leaf),
            }
        }
        let producer = match e {
            Expr::Un(op, _) => op.is_context(),
            Expr::Bin(op, _, _) => matches!(
                op,
                BinOp::And | BinOp::Or | BinOp::Xor | BinOp::Xnor | BinOp::Shl | BinOp::Shr | BinOp::AShl | BinOp::AShr | BinOp::Pow
            ),
            Expr::Cond(..) => true,
            _ => false,
        };
        producer && any_signed_leaf(e)
    }
    fn walk(e: &Expr, width: usize, signed: bool, out: &mut Vec<&'static str>) {
        let mut add = |k: &'static str| {
            if !out.contains(&k) {
                out.push(k)
            }
        };
        match e {
            Expr::Lit(_) | Expr::Fill(_) => {}
            Expr::Un(op, x) => {
                if op.is_context() {
                    walk(x, width, signed, out)
                } else {
                    walk(x, x.width(), x.signed(), out)
                }
            }
            Expr::Bin(op, x, y) => match op.class() {
                BinClass::Arith => {
                    walk(x, width, signed, out);
                    walk(y, width, signed, out);
                }
                BinClass::ShiftPow => {
                    if *op == BinOp::Pow {
                        let ev = y.eval();
                        if y.signed() && ev.has_xz() {
                            add(known::POW_XZ_EXPONENT);
                        }
                        if !signed && x.signed() && ev.to_bigint().is_some_and(|v| v < 0.into()) {
                            add(known::POW_SIGNED_BASE_UNSIGNED_CTX);
                        }
                        if ev.to_bigint().is_some_and(|v| v.bits() > 64 && v > 0.into()) {
                            add(known::POW_HUGE_EXPONENT);
                        }
                        if flag_suspect(y) {
                            add(known::RESULT_FLAG);
                        }
                    }
                    walk(x, width, signed, out);
                    walk(y, y.width(), y.signed(), out);
                }
                BinClass::Compare => {
                    if matches!(op, BinOp::Eq | BinOp::Ne) && e.eval().bit(0) == Bit::X {
                        add(known::EQ_AMBIGUOUS);
                    }
                    if matches!(op, BinOp::Eq | BinOp::Ne | BinOp::WildEq | BinOp::WildNe) && (flag_suspect(x) || flag_suspect(y)) {
                        add(known::RESULT_FLAG);
                    }
                    if matches!(op, BinOp::Lt | BinOp::Le | BinOp::Gt | BinOp::Ge) && x.signed() && y.signed() {
                        add(known::RELATIONAL_SIGNED);
                    }
                    let w = x.width().max(y.width());
                    let s = x.signed() && y.signed();
                    walk(x, w, s, out);
                    walk(y, w, s, out);
                }
                BinClass::Logical => {
                    if *op == BinOp::LogAnd {
                        let (a, b) = (x.eval(), y.eval());
                        if (a.truth() == Truth::False || b.truth() == Truth::False) && (a.has_xz() || b.has_xz()) {
                            add(known::LOGAND_FALSE_UNKNOWN);
                        }
                    }
                    walk(x, x.width(), x.signed(), out);
                    walk(y, y.width(), y.signed(), out);
                }
            },
            Expr::Cond(c, a, b) => {
                if c.eval().truth() == Truth::Unknown {
                    add(known::COND_UNKNOWN);
                }
                // the arms are extended by their own value flags, not by the
                // propagated context type
                if flag_suspect(a) || flag_suspect(b) || (!signed && a.signed() && b.signed()) {
                    add(known::RESULT_FLAG);
                }
                walk(c, c.width(), c.signed(), out);
                walk(a, width, signed, out);
                walk(b, width, signed, out);
            }
            Expr::Concat(xs) => xs.iter().for_each(|x| walk(x, x.width(), x.signed(), out)),
            Expr::Select(x, _, _) => {
                if x.signed() {
                    add(known::SELECT_SIGNED);
                }
                if e.eval().has_xz() {
                    add(known::SELECT_XZ);
                }
                walk(x, x.width(), x.signed(), out)
            }
            Expr::Repl(_, x) | Expr::SignCast(_, x) => walk(x, x.width(), x.signed(), out),
            Expr::SizeCast(k, x) => walk(x, x.width().max(*k), x.signed(), out),
        }
    }
    let mut out = vec![];
    walk(e, e.width().max(lhs_width), e.signed(), &mut out);
    out
}

/// does some strict sub-expression of `g` appear in `set`?
fn strict_sub_in(g: &G, set: &[*const G]) -> bool {
    let kids: Vec<&G> = match g {
        G::Lit(_) | G::Num(_) | G::Fill(_) | G::Ref(..) | G::Sel(..) => vec![],
        G::Un(_, x) | G::Repl(_, x) | G::SignCast(_, x) => vec![x],
        G::Bin(_, x, y) => vec![x, y],
        G::Cond(c, a, b) => vec![c, a, b],
        G::Concat(xs) => xs.iter().collect(),
    };
    kids.iter().any(|k| set.iter().any(|p| std::ptr::eq(*p, *k)) || strict_sub_in(k, set))
}

pub fn check_source(ctx: &Ctx, g: &G, top_width: usize, top_signed: bool) -> Outcome {
    // declarations: the root with the chosen type, then every non-leaf
    // sub-expression (root included) with its self-determined width
    let mut subs = vec![];
    g.subexprs(&mut subs);
    let mut decls = vec![Decl { name: "TOP".into(), width: top_width, signed_type: top_signed, g }];
    for (k, s) in subs.iter().enumerate().take(12) {
        let w = s.to_expr().width();
        if w == 0 || w > 4096 {
            continue;
        }
        decls.push(Decl { name: format!("S{k}"), width: w, signed_type: false, g: s });
    }
    let mut src = String::from("module C17Lang {\n");
    let mut refs = vec![];
    g.refs(&mut refs);
    refs.sort_by_key(|r| r.0);
    for (i, v) in &refs {
        // initialiser: a literal of the declared width and signedness (an
        // initialiser whose signedness differs from the declared type is the
        // listed finding `const-ref-signedness-from-initializer`: excluded
        // by construction, its reproducer is replayed on every run)
        src.push_str(&format!(
            "    const K{i}: {}logic<{}> = {};\n",
            if v.signed() { "signed " } else { "" },
            v.width(),
            v
        ));
    }
    for dcl in &decls {
        src.push_str(&format!(
            "    const {}: {}logic<{}> = {};\n",
            dcl.name,
            if dcl.signed_type { "signed " } else { "" },
            dcl.width,
            dcl.g.to_veryl()
        ));
    }
    src.push_str("}\n");

    let analysed = match std::panic::catch_unwind(|| analyse(&src)) {
        Ok(Ok(a)) => a,
        Ok(Err(e)) => {
            let first = e.lines().next().unwrap_or("").chars().take(60).collect::<String>();
            return Outcome::skip(format!("generated text rejected before analysis: {first}"));
        }
        Err(_) => return Outcome::skip("analyzer panicked (C11's concern)"),
    };
    if !analysed.errors.is_empty() {
        return Outcome::skip(format!("analyzer reports an error: {}", analysed.errors[0]));
    }

    let mut classes: Vec<String> = vec![];
    let mut failures: Vec<(&G, String, String, String)> = vec![]; // (expr, const name, signature, message)
    let mut checked = 0;
    for dcl in &decls {
        let e = dcl.g.to_expr();
        let trig = triggers(&e, dcl.width);
        for t in &trig {
            let c = format!("known_class_present:{t}");
            if !classes.contains(&c) {
                classes.push(c);
            }
        }
        let (alts, notes) = e.eval_assign_all(dcl.width);
        for l in &notes.latitude {
            let c = format!("latitude:{l:?}");
            if !classes.contains(&c) {
                classes.push(c);
            }
        }
        let Some(alts) = alts else { continue };
        let Some(actual) = analysed.consts.get(&dcl.name) else {
            failures.push((
                dcl.g,
                dcl.name.clone(),
                "lang:no-value".into(),
                format!("const {} = {} has no evaluated value in the IR", dcl.name, dcl.g.to_veryl()),
            ));
            continue;
        };
        checked += 1;
        let text = format!("const {}: logic<{}> = {};", dcl.name, dcl.width, dcl.g.to_veryl());
        match from_value(actual) {
            Err(e) => failures.push((dcl.g, dcl.name.clone(), format!("lang:{}:stale-high-bits", dcl.g.root_op()), format!("{text}\n  {e}"))),
            Ok(a) => {
                if a.width() != dcl.width {
                    failures.push((
                        dcl.g,
                        dcl.name.clone(),
                        format!("lang:{}:width", dcl.g.root_op()),
                        format!("{text}\n  evaluated value {a} is not {} bits wide", dcl.width),
                    ));
                } else if !alts.iter().any(|x| x.bits() == a.bits()) {
                    let exp = &alts[0];
                    let (ke, ka) = if one_bit_result(dcl.g) && dcl.width >= 1 {
                        let f = |b: &Bv| {
                            if b.bits().iter().skip(1).any(|x| *x != Bit::Zero) { "ext".to_string() } else { b.bit(0).to_char().to_string() }
                        };
                        (f(exp), f(&a))
                    } else {
                        (kind(exp).to_string(), kind(&a).to_string())
                    };
                    failures.push((
                        dcl.g,
                        dcl.name.clone(),
                        match trig.first() {
                            // the expression contains an input class of a listed finding
                            Some(t) => t.to_string(),
                            None => format!("lang:{}:{ke}->{ka}", dcl.g.root_op()),
                        },
                        format!(
                            "{text}\n  IEEE 1800 value: {}{}\n  veryl evaluates: {}\n  (SystemVerilog: {})",
                            exp.with_signed(false),
                            if alts.len() > 1 { " (alternatives accepted where the LRM leaves latitude)" } else { "" },
                            a.with_signed(false),
                            e.to_sv()
                        ),
                    ));
                }
            }
        }
    }
    if !failures.is_empty() {
        // Root cause = a disagreeing expression none of whose strict
        // sub-expressions disagrees.  Among those prefer one that is not a
        // listed finding, so that a listed one never masks a new one.
        let failing: Vec<*const G> = failures.iter().map(|f| f.0 as *const G).collect();
        let s0_fails = failures.iter().any(|f| f.1 != "TOP" && std::ptr::eq(f.0, g));
        let mut roots: Vec<&(&G, String, String, String)> = failures
            .iter()
            .filter(|f| !strict_sub_in(f.0, &failing) && !(f.1 == "TOP" && s0_fails))
            .collect();
        roots.sort_by(|a, b| a.0.size().cmp(&b.0.size()).then(a.2.cmp(&b.2)));
        let known: Vec<&str> = ctx.findings().iter().filter(|f| f.status == "known").map(|f| f.key.as_str()).collect();
        let pick = roots.iter().find(|f| !known.contains(&f.2.as_str())).unwrap_or(&roots[0]);
        return Outcome::fail(pick.2.clone(), format!("{}\n--- source ---\n{src}", pick.3), json!({"source": src}));
    }

    classes.push(format!("root:{}", g.root_op()));
    if g.has_fill() {
        classes.push("unbased_unsized_literal".into());
    }
    if g.has_xz_literal() {
        classes.push("xz_literal".into());
    }
    if g.max_lit_width() > 64 || top_width > 64 {
        classes.push("wide(>64)".into());
    }
    if top_width < g.to_expr().width() {
        classes.push("truncating_assignment".into());
    } else if top_width > g.to_expr().width() {
        classes.push("widening_assignment".into());
    }
    if g.to_expr().has_unknown_condition() {
        classes.push("unknown_condition".into());
    }
    if !analysed.warnings.is_empty() {
        classes.push(format!("warning:{}", analysed.warnings[0]));
    }
    classes.push(format!("consts_checked:{}", checked.min(9)));
    let nt = g.has_xz_literal() || WIDE.contains(&top_width) || WIDE.contains(&g.max_lit_width());
    Outcome::pass(hash_str(&src), nt, classes, src)
}

fn lang_case(ctx: &Ctx, d: &mut Draw) -> Outcome {
    let mut generator = Gen { xz_per_mille: *d.pick(&[0u32, 150, 400]), wide: d.chance(1, 3), pool: vec![] };
    for _ in 0..3 {
        let w = generator.width(d);
        let G::Lit(v) = generator.lit(d, w) else { unreachable!() };
        let s = d.chance(2, 5);
        generator.pool.push(v.with_signed(s));
    }
    let depth = d.usize_in(1, 3);
    let g = generator.top(d, depth);
    if g.is_leaf() && matches!(g, G::Fill(_)) {
        return Outcome::skip("bare fill literal");
    }
    let selfw = g.to_expr().width();
    if selfw == 0 || selfw > 2048 {
        return Outcome::skip("expression width out of range");
    }
    let top_width = match d.weighted(&[3, 2, 1, 1]) {
        0 => selfw,
        1 => selfw + d.usize_in(1, 4),
        2 => d.usize_in(1, selfw),
        _ => (*d.pick(&WIDE)).max(1),
    };
    let top_signed = d.chance(1, 4);
    check_source(ctx, &g, top_width, top_signed)
}

/// Explicit sources — the reproducers of the listed findings and
/// `--replay` of such a file: payload `{"source": "...", "expect": {...}}`.
pub fn replay_known(ctx: &Ctx) {
    ctx.run_payloads("lang-source", |p| {
        let src = p.get("source").and_then(|s| s.as_str()).unwrap_or("").to_string();
        let expect = p.get("expect").cloned().unwrap_or(json!({}));
        std::thread::spawn(move || replay_source(&src, &expect)).join().unwrap_or_else(|_| Outcome::skip("panicked"))
    });
}

pub fn run(ctx: &Ctx) {
    // Not generated: `$signed(e)` / `$unsigned(e)` (system functions, not
    // operators).  Observed while building the check: `$signed(4'b1000)`
    // assigned to 8 bits evaluates to 8'b00001000 — the value keeps its
    // unsigned flag, so it is zero-extended (IEEE: 8'b11111000).  `as` casts
    // are not generated either (their signedness is a Veryl-level decision).
    let n = ctx.scale(5000, 150_000);
    ctx.run("lang", CaseCfg::cases(n).choices(600), |d| lang_case(ctx, d));
}

/// A hand-written reproducer: `source` is a module of consts, `expect` maps a
/// const name to `{ "ieee": "4'b01xx", "signature": "..." }`.
fn replay_source(src: &str, expect: &serde_json::Value) -> Outcome {
    let a = match analyse(src) {
        Ok(a) => a,
        Err(e) => return Outcome::skip(format!("rejected: {e}")),
    };
    if !a.errors.is_empty() {
        return Outcome::skip(format!("analyzer reports an error: {}", a.errors[0]));
    }
    let Some(map) = expect.as_object() else {
        return Outcome::skip("payload has no expectations");
    };
    for (name, e) in map {
        let ieee = e.get("ieee").and_then(|s| s.as_str()).unwrap_or("");
        let sig = e.get("signature").and_then(|s| s.as_str()).unwrap_or("lang:explicit");
        let Some(exp) = crate::c17::parse_bv(ieee) else {
            return Outcome::skip("malformed expectation");
        };
        let Some(v) = a.consts.get(name) else {
            return Outcome::fail("lang:no-value", format!("const {name} has no evaluated value"), json!({"source": src}));
        };
        match from_value(v) {
            Ok(b) if b.bits() == exp.bits() => {}
            Ok(b) => {
                return Outcome::fail(
                    sig,
                    format!("const {name}: IEEE 1800 value {}, veryl evaluates {}\n--- source ---\n{src}", exp.with_signed(false), b.with_signed(false)),
                    json!({"source": src}),
                );
            }
            Err(m) => return Outcome::fail(sig, m, json!({"source": src})),
        }
    }
    Outcome::pass(hash_str(src), true, vec!["explicit_source".into()], src.to_string())
}
