//! C36 — value encodings at external boundaries are lossless and standard.
//!
//! Sub-checks (one module each under `c36/`):
//! * `svlogic` — `Vec<SvLogicVecVal>::from(&Value)`, `Value::from(&[SvLogicVecVal])`
//!   and the `cosim_set` / `cosim_get` DPI entry points against IEEE 1800
//!   Annex H (per bit (aval,bval): 0→(0,0) 1→(1,0) Z→(0,1) X→(1,1)).
//! * `wave`    — waveform dumps (VCD/FST) record the values the simulator
//!   holds: NOT WRITTEN YET.  Add `mod wave;` below, give it a
//!   `pub fn run(ctx: &Ctx)` that only calls `ctx.run / ctx.record / ctx.note /
//!   ctx.assume` (no `ctx.finish`), and call it from `run` next to `svlogic`.

use vcore::Ctx;

mod svlogic;
// mod wave;

pub fn run(ctx: &Ctx) {
    svlogic::run(ctx);
    // wave::run(ctx);
    ctx.finish(
        "exploration",
        "svlogic: every width 1..300 with all-0/all-1/all-X/all-Z and single-bit walks (enumerated), then generated 4-state values with widths around multiples of 32 over-weighted, through the two From impls and through cosim_set/cosim_get of the real cdylib; non-trivial = width > 64 or an X/Z bit present; distinct by (width, value)",
    );
}
