//! C36 — value encodings at external boundaries are lossless and standard.
//!
//! Sub-checks (one module each under `c36/`):
//! * `svlogic` — `Vec<SvLogicVecVal>::from(&Value)`, `Value::from(&[SvLogicVecVal])`
//!   and the `cosim_set` / `cosim_get` DPI entry points against IEEE 1800
//!   Annex H (per bit (aval,bval): 0→(0,0) 1→(1,0) Z→(0,1) X→(1,1)).
//! * `wave`    — waveform dumps (VCD/FST) record the values the simulator
//!   holds at each dumped time (generated designs × stimulus × engine ×
//!   driving protocol; own VCD parser, `fst-reader` for FST).
//!
//! Development aid: `C36_ONLY=svlogic|wave` runs one sub-check.

use vcore::Ctx;

mod svlogic;
mod wave;

pub use wave::fst_info;

pub fn run(ctx: &Ctx) {
    let only = std::env::var("C36_ONLY").ok();
    if only.as_deref() != Some("wave") {
        svlogic::run(ctx);
    }
    if only.as_deref() != Some("svlogic") {
        wave::run(ctx);
    }
    ctx.finish(
        "exploration",
        "svlogic: every width 1..300 with all-0/all-1/all-X/all-Z and single-bit walks (enumerated), then generated 4-state values with widths around multiples of 32 over-weighted, through the two From impls and through cosim_set/cosim_get of the real cdylib; non-trivial = width > 64 or an X/Z bit present; distinct by (width, value). \
         wave: vdesign designs (hierarchy, arrays, structs, signed, widths 1..300) x stimulus of 10-16 cycles after a reset window (X/Z bits on the inputs under 4-state engines) x one engine of Config::all() (cc on 1/10) x protocol (unit-test `step; time += dt` or native-testbench clock toggling with two dumps per cycle) x attachment (Simulator::new / attach_dump), dumped to VCD (memory) and FST (scratch file) and compared at every dump time with the simulator's storage and with a run without a dumper; non-trivial = a variable wider than 64 bits or an X/Z value in the dump, and at least 10 dump times; distinct by text + stimulus + engine/protocol",
    );
}
