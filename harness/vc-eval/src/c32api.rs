//! API half of C32: `veryl_simulator::random_table`.
//!
//! Property text: "$tb random values are reproducible for a given seed and
//! handle name, and every range draw lies within its requested bounds for
//! every width and signedness."
//!
//! * bounds — `get_range(h, min, max, width, signed)`: the drawn value, read
//!   as a `width`-bit unsigned / two's complement number, lies between the two
//!   requested bounds read the same way (both orders of the bounds are
//!   generated; the raw bound payloads may carry bits above `width`, as
//!   `payload_u64()` of a wider argument expression does); `get` stays below
//!   2^width; the returned `Value` has the requested width and signedness.
//! * reproducibility — after `reset(seed)` the sequence drawn through a handle
//!   depends only on (seed, handle name): the same on a second `reset`, on a
//!   different thread (different `StrId` numbering), and whatever other
//!   handles draw in between; `seed_handle` + `get_seed_handle` round-trip and
//!   restart the stream.

use vcore::{CaseCfg, Ctx, Draw, Outcome, hash_str, json};
use veryl_parser::resource_table;
use veryl_simulator::random_table as rt;

#[derive(Clone, Debug)]
enum Step {
    Get { width: u32, signed: bool },
    Range { min: u64, max: u64, width: u32, signed: bool },
}

fn draw_width(d: &mut Draw) -> u32 {
    match d.weighted(&[2, 3, 3]) {
        0 => d.range(1, 8) as u32,
        1 => *d.pick(&[1u32, 2, 7, 8, 15, 16, 31, 32, 33, 62, 63, 64]),
        _ => d.range(1, 64) as u32,
    }
}

fn draw_bound(d: &mut Draw, width: u32) -> u64 {
    let m = if width >= 64 { u64::MAX } else { (1u64 << width) - 1 };
    let v = d.corner_bits(width as usize)[0];
    // bits above the width now and then (argument expression wider than the handle)
    if d.chance(1, 6) { v | !m } else { v }
}

fn draw_step(d: &mut Draw) -> Step {
    let width = draw_width(d);
    let signed = d.bool();
    if d.chance(1, 4) {
        Step::Get { width, signed }
    } else {
        let min = draw_bound(d, width);
        let max = if d.chance(1, 8) { min } else { draw_bound(d, width) };
        Step::Range { min, max, width, signed }
    }
}

fn mask(width: u32) -> u64 {
    if width >= 64 { u64::MAX } else { (1u64 << width) - 1 }
}

/// `raw` (already masked) read as a `width`-bit number.
fn reading(raw: u64, width: u32, signed: bool) -> i128 {
    if signed && (raw >> (width - 1)) & 1 == 1 {
        raw as i128 - (1i128 << width)
    } else {
        raw as i128
    }
}

/// Run the steps through handle `name`; returns the raw payloads, or the
/// first violated bound.
fn play(name: &str, steps: &[Step], other: Option<&str>) -> Result<Vec<u64>, (String, String)> {
    let key = resource_table::insert_str(name);
    let okey = other.map(resource_table::insert_str);
    let mut out = vec![];
    for (i, s) in steps.iter().enumerate() {
        if let Some(o) = okey
            && i % 2 == 0
        {
            // another handle draws in between
            let _ = rt::get(o, 17, false);
        }
        match *s {
            Step::Get { width, signed } => {
                let v = rt::get(key, width, signed);
                let raw = v.payload_u64();
                if v.width() != width as usize || v.signed() != signed || v.is_xz() {
                    return Err(("c32api:value-shape".into(), format!("get(width={width}, signed={signed}) returned {v:?}")));
                }
                if raw & !mask(width) != 0 {
                    return Err(("c32api:get-exceeds-width".into(), format!("get(width={width}) returned {raw:#x}")));
                }
                out.push(raw);
            }
            Step::Range { min, max, width, signed } => {
                let v = rt::get_range(key, min, max, width, signed);
                let raw = v.payload_u64();
                if v.width() != width as usize || v.signed() != signed || v.is_xz() {
                    return Err(("c32api:value-shape".into(), format!("get_range(width={width}, signed={signed}) returned {v:?}")));
                }
                if raw & !mask(width) != 0 {
                    return Err(("c32api:range-exceeds-width".into(), format!("get_range(min={min:#x}, max={max:#x}, width={width}, signed={signed}) returned {raw:#x}")));
                }
                let a = reading(min & mask(width), width, signed);
                let b = reading(max & mask(width), width, signed);
                let (lo, hi) = (a.min(b), a.max(b));
                let x = reading(raw, width, signed);
                if x < lo || x > hi {
                    return Err((
                        format!("c32api:out-of-bounds:{}", if signed { "signed" } else { "unsigned" }),
                        format!("get_range(min={min:#x}, max={max:#x}, width={width}, signed={signed}) returned {raw:#x} = {x}, outside [{lo}, {hi}]"),
                    ));
                }
                out.push(raw);
            }
        }
    }
    Ok(out)
}

fn case(d: &mut Draw) -> Outcome {
    let seed = if d.chance(1, 4) { *d.pick(&[0u64, 1, u64::MAX]) } else { d.u64() };
    let name = format!("{}{}", d.ident(6), d.below(100));
    let other = format!("{}_o", d.ident(4));
    let n = d.usize_in(1, 24);
    let steps: Vec<Step> = (0..n).map(|_| draw_step(d)).collect();
    let text = format!("seed={seed} handle={name} steps={steps:?}");
    let input = json!({"seed": seed, "handle": name, "steps": format!("{steps:?}")});

    rt::reset(seed);
    let first = match play(&name, &steps, None) {
        Ok(v) => v,
        Err((sig, msg)) => return Outcome::fail(sig, format!("{msg}\n{text}"), input),
    };
    // same seed, same thread, another handle drawing in between
    rt::reset(seed);
    let second = match play(&name, &steps, Some(&other)) {
        Ok(v) => v,
        Err((sig, msg)) => return Outcome::fail(sig, format!("{msg}\n{text}"), input),
    };
    if first != second {
        return Outcome::fail(
            "c32api:not-reproducible:interleaving",
            format!("draws through `{name}` change when handle `{other}` draws in between\n  alone      : {first:x?}\n  interleaved: {second:x?}\n{text}"),
            input,
        );
    }
    // same seed on a fresh thread whose string table numbers the names differently
    let (n2, s2) = (name.clone(), steps.clone());
    let third = std::thread::spawn(move || {
        for k in 0..(seed % 7) {
            resource_table::insert_str(&format!("pad{k}"));
        }
        rt::reset(seed);
        play(&n2, &s2, None)
    })
    .join();
    match third {
        Ok(Ok(v)) if v == first => {}
        Ok(Ok(v)) => {
            return Outcome::fail(
                "c32api:not-reproducible:thread",
                format!("same (seed, handle) gives another sequence on another thread\n  first : {first:x?}\n  second: {v:x?}\n{text}"),
                input,
            );
        }
        Ok(Err((sig, msg))) => return Outcome::fail(sig, format!("{msg}\n{text}"), input),
        Err(_) => return Outcome::fail("c32api:panic", format!("panicked on the second thread\n{text}"), input),
    }
    // explicit seeding: read back, and the stream restarts
    let key = resource_table::insert_str(&name);
    let hs = d.u64();
    rt::seed_handle(key, hs);
    if rt::get_seed_handle(key) != hs {
        return Outcome::fail("c32api:seed-readback", format!("seed_handle({hs}) then get_seed_handle() = {}", rt::get_seed_handle(key)), input);
    }
    let a = play(&name, &steps, None);
    rt::seed_handle(key, hs);
    let b = play(&name, &steps, None);
    match (a, b) {
        (Ok(a), Ok(b)) if a == b => {}
        (Ok(a), Ok(b)) => {
            return Outcome::fail("c32api:not-reproducible:seed_handle", format!("re-seeding with {hs} gives {b:x?} after {a:x?}\n{text}"), input);
        }
        (Err((sig, msg)), _) | (_, Err((sig, msg))) => return Outcome::fail(sig, format!("{msg}\n{text}"), input),
    }
    // a lazily seeded handle reports the seed it was given, twice the same
    rt::reset(seed);
    let s1 = rt::get_seed_handle(key);
    rt::reset(seed);
    let _ = rt::get(key, 8, false);
    let s2 = rt::get_seed_handle(key);
    if s1 != s2 {
        return Outcome::fail("c32api:derived-seed-unstable", format!("derived seed {s1} vs {s2}\n{text}"), input);
    }

    let mut classes = vec![];
    let mut nt = false;
    for s in &steps {
        if let Step::Range { min, max, width, signed } = s {
            let m = mask(*width);
            let (a, b) = (reading(min & m, *width, *signed), reading(max & m, *width, *signed));
            classes.push(if *signed { "range_signed" } else { "range_unsigned" }.to_string());
            if a > b {
                classes.push("bounds_reversed".into());
            }
            if a == b {
                classes.push("bounds_equal".into());
            }
            if *signed && a < 0 && b >= 0 || *signed && b < 0 && a >= 0 {
                classes.push("range_spans_zero".into());
                nt = true;
            }
            if *width == 64 {
                classes.push("width_64".into());
                nt = true;
            }
            if (min | max) & !m != 0 {
                classes.push("bound_bits_above_width".into());
            }
            if b - a == m as i128 || a - b == m as i128 {
                classes.push("full_range".into());
            }
        }
    }
    classes.sort();
    classes.dedup();
    Outcome::pass(hash_str(&text), nt || steps.len() >= 4, classes, text)
}

pub fn random_table_api(ctx: &Ctx) {
    // every width × signedness × a few fixed bound pairs, enumerated
    if !ctx.replay_mode() {
        for width in 1..=64u32 {
            for signed in [false, true] {
                let m = mask(width);
                let msb = 1u64 << (width - 1);
                let pairs = [(0, m), (m, 0), (msb, msb.wrapping_sub(1) & m), (0, 0), (m, m), (1 & m, msb), (msb, m), (u64::MAX, 0)];
                let steps: Vec<Step> = pairs
                    .iter()
                    .flat_map(|(a, b)| (0..40).map(move |_| Step::Range { min: *a, max: *b, width, signed }))
                    .chain((0..40).map(|_| Step::Get { width, signed }))
                    .collect();
                rt::reset(width as u64 * 2 + signed as u64);
                let out = match play(&format!("enum_w{width}"), &steps, None) {
                    Ok(_) => Outcome::pass(
                        hash_str(&format!("enum{width}{signed}")),
                        true,
                        vec![format!("enumerated:{}", if signed { "signed" } else { "unsigned" })],
                        format!("width {width} signed {signed}: {} draws over 8 bound pairs", steps.len()),
                    ),
                    Err((sig, msg)) => Outcome::fail(sig, msg, json!({"width": width, "signed": signed})),
                };
                ctx.record("enumerated", out, json!({"width": width, "signed": signed}));
            }
        }
    }
    let n = ctx.scale(20_000, 500_000);
    ctx.run("random_table", CaseCfg::cases(n).choices(400), case);
    ctx.assume("bounds are read as width-bit unsigned / two's complement numbers after masking to the width; a reversed pair means the interval between the two");
}
