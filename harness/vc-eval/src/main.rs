mod c17;
mod c18;
mod c36;

fn main() {
    let args: Vec<String> = std::env::args().skip(1).collect();
    let id = args.first().cloned().unwrap_or_default();
    vcore::quiet_panics();
    let ctx = vcore::Ctx::new(&id, &args[1.min(args.len())..]);
    match id.as_str() {
        "C17" => c17::run(&ctx),
        "C18" => c18::run(&ctx),
        "C36" => c36::run(&ctx),
        _ => {
            eprintln!("unknown property id {id:?}");
            std::process::exit(2);
        }
    }
}
