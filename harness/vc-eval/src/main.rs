mod c17;
mod c17lang;
mod c32api;
mod c36;

fn main() {
    let args: Vec<String> = std::env::args().skip(1).collect();
    let id = args.first().cloned().unwrap_or_default();
    if id == "fst-info" {
        c36::fst_info(&args[1]);
        return;
    }
    if id == "probe" {
        // vc-eval probe FILE.veryl — analyse a hand-written module and print every evaluated const
        let src = std::fs::read_to_string(&args[1]).expect("read");
        if let Ok(n) = std::env::var("REPEAT") {
            let n: usize = n.parse().unwrap_or(10);
            let t0 = std::time::Instant::now();
            for _ in 0..n {
                let s = src.clone();
                std::thread::Builder::new().stack_size(8 << 20).spawn(move || { let _ = c17lang::analyse(&s); }).unwrap().join().unwrap();
            }
            println!("{} analyses, {:.2} ms each", n, t0.elapsed().as_secs_f64() * 1000.0 / n as f64);
            return;
        }
        let t = std::thread::Builder::new().stack_size(16 << 20).spawn(move || match c17lang::analyse(&src) {
            Ok(a) => {
                println!("errors: {:?}\nwarnings: {:?}", a.errors, a.warnings);
                for (k, v) in a.consts {
                    println!("{k} = {}", c17::from_value(&v).map(|b| b.to_string()).unwrap_or_else(|e| e));
                }
            }
            Err(e) => println!("rejected: {e}"),
        });
        t.unwrap().join().unwrap();
        return;
    }
    vcore::quiet_panics();
    let ctx = vcore::Ctx::new(&id, &args[1.min(args.len())..]);
    match id.as_str() {
        "C17" => c17::run(&ctx),
        "C36" => c36::run(&ctx),
        // the API half of C32 (not registered in MANIFEST; run as `vc-eval C32api quick`)
        "C32api" => {
            c32api::random_table_api(&ctx);
            ctx.finish("exploration", "random_table API: range draws within bounds, reproducible per (seed, handle)");
        }
        _ => {
            eprintln!("unknown property id {id:?}");
            std::process::exit(2);
        }
    }
}
