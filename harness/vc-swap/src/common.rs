//! Shared pieces of C33 / C34: a driver for `veryl_simulator::Simulator` that
//! records, per operation, how many AOT-C dispatch calls it made (C33 needs
//! the position of every dispatch call of a run), stimulus (de)serialisation
//! and trace comparison.

use num_bigint::BigUint;
use vcore::json;
use vdesign::{PortSpec, StimStep, Stimulus};
use veryl_simulator::Simulator;
use veryl_simulator::ir::{Event, Value, VarId};
use veryl_simulator::output_buffer;

/// What a dispatch call of the never-swapping run is.
#[derive(Clone, Copy, Debug, PartialEq, Eq, PartialOrd, Ord)]
pub enum CallKind {
    /// `try_dispatch_const` of a settle
    Const,
    /// `try_dispatch` (whole comb) of a settle
    Main,
    /// `try_dispatch` of a whole-event function
    Event,
    Unknown,
}

/// Everything observable of one run.
#[derive(Clone, Debug, Default, PartialEq, Eq)]
pub struct Observed {
    /// outputs read before the first step (first settle of the instance)
    pub pre: Vec<BigUint>,
    /// `steps[i][j]` = output j after step i
    pub steps: Vec<Vec<BigUint>>,
    pub display: String,
}

#[derive(Clone, Debug, Default)]
pub struct Run {
    pub obs: Observed,
    /// kind of every gate call this run made, in order (meaningful for the
    /// never-swapping run, where every call answers NotReady)
    pub kinds: Vec<CallKind>,
}

pub fn to_value(v: &BigUint, width: usize) -> Value {
    Value::new_biguint(v.clone(), width, false)
}

/// Drive `sim` with `stim`.  `calls` returns the number of gate calls made so
/// far on this thread (`|| 0` when no gate is in use); `has_comb` = the Ir
/// holds a whole-comb handle (then a settle of the never-swapping run makes a
/// const call and a main call).
pub fn drive(sim: &mut Simulator, stim: &Stimulus, presample: bool, has_comb: bool, calls: &dyn Fn() -> i64) -> Result<Run, String> {
    let clk = match &stim.clock {
        Some(c) => sim.get_clock(c).ok_or_else(|| format!("no clock port {c}"))?,
        None => Event::Clock(VarId::SYNTHETIC),
    };
    let rst = match &stim.reset {
        Some(r) => Some(sim.get_reset(r).ok_or_else(|| format!("no reset port {r}"))?),
        None => None,
    };
    let mut run = Run::default();
    output_buffer::enable();
    let r = (|| -> Result<(), String> {
        let settle_kinds = |n: i64, kinds: &mut Vec<CallKind>| {
            // a settle of the never-run = [Const, Main]; with the compiled
            // code in use = [Const?] + passes x Main — only the first shape is
            // used for choosing swap points
            for i in 0..n {
                kinds.push(if has_comb && n == 2 {
                    if i == 0 { CallKind::Const } else { CallKind::Main }
                } else {
                    CallKind::Unknown
                });
            }
        };
        let sample = |sim: &mut Simulator, kinds: &mut Vec<CallKind>| -> Result<Vec<BigUint>, String> {
            let mut row = Vec::with_capacity(stim.outputs.len());
            for p in &stim.outputs {
                let c0 = calls();
                let Some(v) = sim.get(&p.name) else {
                    return Err(format!("no output port {}", p.name));
                };
                settle_kinds(calls() - c0, kinds);
                if v.width() != p.width {
                    return Err(format!("output {} has width {} (expected {})", p.name, v.width(), p.width));
                }
                // X/Z mask (4-state engines) above the payload bits
                row.push(v.payload().into_owned() | (v.mask_xz().into_owned() << p.width));
            }
            Ok(row)
        };
        if presample {
            if let Some(st) = stim.steps.first() {
                for (p, v) in stim.inputs.iter().zip(&st.values) {
                    sim.set(&p.name, to_value(v, p.width));
                }
            }
            run.obs.pre = sample(sim, &mut run.kinds)?;
        }
        for st in &stim.steps {
            if st.values.len() != stim.inputs.len() {
                return Err("stimulus step has the wrong number of input values".into());
            }
            for (p, v) in stim.inputs.iter().zip(&st.values) {
                sim.set(&p.name, to_value(v, p.width));
            }
            let c0 = calls();
            match (&rst, st.reset) {
                (Some(r), true) => sim.step_reset(&clk, r),
                _ => sim.step(&clk),
            }
            let n = calls() - c0;
            // step = settle (the comb is dirty: inputs were set or a step
            // preceded) + one call per whole-event function
            if has_comb && n >= 2 {
                run.kinds.push(CallKind::Const);
                run.kinds.push(CallKind::Main);
                for _ in 2..n {
                    run.kinds.push(CallKind::Event);
                }
            } else {
                for _ in 0..n {
                    run.kinds.push(if has_comb { CallKind::Unknown } else { CallKind::Event });
                }
            }
            let row = sample(sim, &mut run.kinds)?;
            run.obs.steps.push(row);
        }
        Ok(())
    })();
    run.obs.display = output_buffer::take();
    r.map(|_| run)
}

pub fn stim_json(stim: &Stimulus) -> serde_json::Value {
    json!({
        "clock": stim.clock, "reset": stim.reset,
        "inputs": stim.inputs.iter().map(|p| json!({"name": p.name, "width": p.width})).collect::<Vec<_>>(),
        "outputs": stim.outputs.iter().map(|p| json!({"name": p.name, "width": p.width})).collect::<Vec<_>>(),
        "steps": stim.steps.iter().map(|s| json!({
            "reset": s.reset,
            "values": s.values.iter().map(|v| format!("{v:x}")).collect::<Vec<_>>()
        })).collect::<Vec<_>>()
    })
}

pub fn stim_from(v: &serde_json::Value) -> Stimulus {
    let ports = |x: &serde_json::Value| -> Vec<PortSpec> {
        x.as_array()
            .map(|a| {
                a.iter()
                    .map(|p| PortSpec {
                        name: p["name"].as_str().unwrap_or("").to_string(),
                        width: p["width"].as_u64().unwrap_or(1) as usize,
                    })
                    .collect()
            })
            .unwrap_or_default()
    };
    Stimulus {
        clock: v["clock"].as_str().map(|s| s.to_string()),
        reset: v["reset"].as_str().map(|s| s.to_string()),
        inputs: ports(&v["inputs"]),
        outputs: ports(&v["outputs"]),
        steps: v["steps"]
            .as_array()
            .map(|a| {
                a.iter()
                    .map(|s| StimStep {
                        reset: s["reset"].as_bool().unwrap_or(false),
                        values: s["values"]
                            .as_array()
                            .map(|r| r.iter().map(|x| x.as_str().and_then(|t| BigUint::parse_bytes(t.as_bytes(), 16)).unwrap_or_default()).collect())
                            .unwrap_or_default(),
                    })
                    .collect()
            })
            .unwrap_or_default(),
    }
}

/// First difference of two observations, in words.
pub fn first_diff(stim: &Stimulus, a: &Observed, b: &Observed, an: &str, bn: &str) -> Option<String> {
    for (oi, (x, y)) in a.pre.iter().zip(&b.pre).enumerate() {
        if x != y {
            return Some(format!("output {} before the first step: {an} = {x:x}, {bn} = {y:x}", stim.outputs[oi].name));
        }
    }
    if a.steps.len() != b.steps.len() {
        return Some(format!("{an} has {} steps, {bn} has {}", a.steps.len(), b.steps.len()));
    }
    for (si, (ra, rb)) in a.steps.iter().zip(&b.steps).enumerate() {
        for (oi, (x, y)) in ra.iter().zip(rb).enumerate() {
            if x != y {
                return Some(format!("output {} after step {si}: {an} = {x:x}, {bn} = {y:x}", stim.outputs[oi].name));
            }
        }
    }
    if a.display != b.display {
        let (la, lb): (Vec<&str>, Vec<&str>) = (a.display.lines().collect(), b.display.lines().collect());
        let i = la.iter().zip(&lb).position(|(x, y)| x != y).unwrap_or(la.len().min(lb.len()));
        return Some(format!(
            "$display text differs at line {i}: {an} {:?}, {bn} {:?}",
            la.get(i).copied().unwrap_or("<end>"),
            lb.get(i).copied().unwrap_or("<end>")
        ));
    }
    None
}

pub fn panic_text(e: Box<dyn std::any::Any + Send>) -> String {
    if let Some(s) = e.downcast_ref::<&str>() {
        s.to_string()
    } else if let Some(s) = e.downcast_ref::<String>() {
        s.clone()
    } else {
        "panic".into()
    }
}
