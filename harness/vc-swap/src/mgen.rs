//! Generator of parameterised module libraries for C34: leaf modules
//! (`L<i> #(W, K)`), DUT modules (`D<i> #(W, D, M)`) that instantiate the
//! leaves with different parameter overrides and hold an array of state,
//! optional wrappers, and *tops* — plain modules (driven through the
//! `Simulator` API) or native `#[test]` benches (run by `veryl test`) — that
//! instantiate the same DUTs with different parameters and instance layouts.
//!
//! Everything is well-typed by construction: every signal of a module is
//! `logic<W>` of the module's width parameter, conditions are 1-bit
//! comparisons, no combinational loops (leaf output `y` depends on input `a`
//! and state only, `z` on `b` and state only; the DUT wires them forward).

use std::fmt::Write as _;
use vcore::Draw;

/// A `logic<W>` expression over `atoms` (names of `logic<W>` signals).
/// `kname` = a `u32` parameter usable as a constant.
pub fn wexpr(d: &mut Draw, atoms: &[&str], kname: Option<&str>, depth: u32) -> String {
    let atom = |d: &mut Draw| -> String {
        match (kname, d.below(6)) {
            (Some(k), 5) => format!("({k} as W)"),
            _ => atoms[d.below_usize(atoms.len())].to_string(),
        }
    };
    if depth == 0 {
        return atom(d);
    }
    let a = wexpr(d, atoms, kname, depth - 1);
    match d.below(12) {
        0 => a,
        1 => format!("({a} + {})", wexpr(d, atoms, kname, depth - 1)),
        2 => format!("({a} - {})", wexpr(d, atoms, kname, depth - 1)),
        3 => format!("({a} ^ {})", wexpr(d, atoms, kname, depth - 1)),
        4 => format!("({a} & {})", wexpr(d, atoms, kname, depth - 1)),
        5 => format!("({a} | {})", wexpr(d, atoms, kname, depth - 1)),
        6 => format!("(~{a})"),
        7 => format!("({a} << 1)"),
        8 => format!("({a} >> {})", 1 + d.below(3)),
        9 => {
            let x = atom(d);
            let y = atom(d);
            let c = match d.below(3) {
                0 => format!("({x} <: {y})"),
                1 => format!("({x} == {y})"),
                _ if !x.starts_with('(') => format!("{x}[0]"),
                _ => format!("({x} != {y})"),
            };
            format!("(if {c} ? {a} : {})", wexpr(d, atoms, kname, depth - 1))
        }
        10 => {
            let x = atom(d);
            // rotate left by one (W >= 4 everywhere)
            if x.starts_with('(') || x.contains('[') { a } else { format!("{{{x}[W - 2:0], {x}[W - 1]}}") }
        }
        _ => format!("({a} + 1)"),
    }
}

#[derive(Clone, Debug)]
pub struct Library {
    pub n_leaf: usize,
    pub n_dut: usize,
    /// DUT j has a wrapper module `Wr<j>`
    pub wrappers: Vec<bool>,
    pub text: String,
    pub classes: Vec<String>,
}

fn gen_leaf(d: &mut Draw, i: usize, classes: &mut Vec<String>) -> String {
    let mut s = String::new();
    let use_fn = d.chance(1, 3);
    let use_case = d.chance(1, 2);
    let _ = writeln!(s, "module L{i} #(\n    param W: u32 = 8,\n    param K: u32 = 3,\n) (\n    clk: input clock,\n    rst: input reset,\n    a: input logic<W>,\n    b: input logic<W>,\n    y: output logic<W>,\n    z: output logic<W>,\n) {{");
    let _ = writeln!(s, "    const C0: logic<W> = (K * {} + {}) as W;", 1 + d.below(9), d.below(50));
    let _ = writeln!(s, "    var r0: logic<W>;\n    var r1: logic<W>;\n    var m0: logic<W>;");
    if use_fn {
        classes.push("lib:function".into());
        let _ = writeln!(s, "    function f (\n        x: input logic<W>,\n        v: input logic<W>,\n    ) -> logic<W> {{\n        return {};\n    }}", wexpr(d, &["x", "v"], Some("K"), 2));
    }
    let _ = writeln!(s, "    always_ff {{\n        if_reset {{\n            r0 = C0;\n            r1 = 0;\n        }} else {{");
    let _ = writeln!(s, "            r0 = {};", wexpr(d, &["a", "r0", "r1", "C0"], Some("K"), 2));
    let _ = writeln!(s, "            r1 = {};", wexpr(d, &["b", "r0", "r1"], Some("K"), 2));
    let _ = writeln!(s, "        }}\n    }}");
    if use_case {
        classes.push("lib:always_comb-case".into());
        let _ = writeln!(s, "    always_comb {{\n        case a[1:0] {{");
        let _ = writeln!(s, "            2'd0: m0 = {};", wexpr(d, &["a", "r0"], Some("K"), 1));
        let _ = writeln!(s, "            2'd1: m0 = {};", wexpr(d, &["a", "r0", "C0"], Some("K"), 1));
        let _ = writeln!(s, "            default: m0 = {};", wexpr(d, &["a", "r0"], None, 1));
        let _ = writeln!(s, "        }}\n    }}");
    } else {
        let _ = writeln!(s, "    assign m0 = {};", wexpr(d, &["a", "r0", "C0"], Some("K"), 2));
    }
    if use_fn {
        let _ = writeln!(s, "    assign y = f({}, m0);", wexpr(d, &["a", "r0"], None, 1));
    } else {
        let _ = writeln!(s, "    assign y = {};", wexpr(d, &["a", "r0", "m0"], Some("K"), 2));
    }
    let _ = writeln!(s, "    assign z = {};", wexpr(d, &["b", "r1", "C0"], Some("K"), 2));
    let _ = writeln!(s, "}}\n");
    s
}

fn gen_dut(d: &mut Draw, j: usize, n_leaf: usize, classes: &mut Vec<String>) -> String {
    let mut s = String::new();
    let _ = writeln!(s, "module D{j} #(\n    param W: u32 = 8,\n    param D: u32 = 4,\n    param M: u32 = 1,\n) (\n    clk: input clock,\n    rst: input reset,\n    d: input logic<W>,\n    en: input logic,\n    q: output logic<W>,\n    s: output logic<W>,\n) {{");
    let _ = writeln!(s, "    const KC: logic<W> = (M * {} + {}) as W;", 1 + d.below(40), d.below(100));
    let _ = writeln!(s, "    var mem: logic<W> [D];");
    let _ = writeln!(s, "    var t0: logic<W>;\n    var y0: logic<W>;\n    var z0: logic<W>;\n    var y1: logic<W>;\n    var z1: logic<W>;\n    var kk: logic<W>;");
    let la = d.below_usize(n_leaf);
    let lb = d.below_usize(n_leaf);
    let two = !d.chance(1, 4);
    let k0 = match d.below(3) {
        0 => "M".to_string(),
        1 => format!("{}", 1 + d.below(9)),
        _ => "M + 2".to_string(),
    };
    let k1 = match d.below(3) {
        0 => "M + 1".to_string(),
        1 => format!("{}", 1 + d.below(9)),
        _ => k0.clone(),
    };
    if two && la == lb {
        classes.push(if k0 == k1 { "lib:same-leaf-twice-same-params".into() } else { "lib:same-leaf-twice-different-params".into() });
    }
    // a constant cone
    let _ = writeln!(s, "    assign kk = {};", wexpr(d, &["KC"], Some("M"), 2));
    let _ = writeln!(s, "    assign t0 = {};", wexpr(d, &["d", "mem[0]", "kk"], Some("M"), 2));
    let _ = writeln!(s, "    inst u0: L{la} #(W: W, K: {k0}) (clk, rst, a: d, b: t0, y: y0, z: z0);");
    if two {
        let _ = writeln!(s, "    inst u1: L{lb} #(W: W, K: {k1}) (clk, rst, a: y0, b: z0, y: y1, z: z1);");
    } else {
        let _ = writeln!(s, "    assign y1 = {};", wexpr(d, &["y0", "kk"], None, 1));
        let _ = writeln!(s, "    assign z1 = {};", wexpr(d, &["z0", "d"], None, 1));
    }
    let _ = writeln!(s, "    always_ff {{\n        if_reset {{\n            for i in 0..D {{\n                mem[i] = 0;\n            }}\n        }} else if en {{");
    let _ = writeln!(s, "            mem[0] = {};", wexpr(d, &["d", "y1", "z1", "kk"], Some("M"), 2));
    if d.bool() {
        let _ = writeln!(s, "            for i in 1..D {{\n                mem[i] = mem[i - 1];\n            }}");
    } else {
        classes.push("lib:shift-with-xor".into());
        let _ = writeln!(s, "            for i in 1..D {{\n                mem[i] = mem[i - 1] ^ mem[i];\n            }}");
    }
    let _ = writeln!(s, "        }}\n    }}");
    let _ = writeln!(s, "    assign q = {} ^ mem[D / 2];", wexpr(d, &["mem[D - 1]", "y1", "kk"], None, 2));
    let _ = writeln!(s, "    assign s = {};", wexpr(d, &["mem[0]", "z1", "y0", "kk"], Some("M"), 2));
    let _ = writeln!(s, "}}\n");
    s
}

pub fn gen_library(d: &mut Draw) -> Library {
    let n_leaf = 1 + d.below_usize(2);
    let n_dut = 1 + d.below_usize(2);
    let mut classes = vec![];
    let mut text = String::new();
    for i in 0..n_leaf {
        text.push_str(&gen_leaf(d, i, &mut classes));
    }
    let mut wrappers = vec![];
    for j in 0..n_dut {
        text.push_str(&gen_dut(d, j, n_leaf, &mut classes));
        let w = d.chance(1, 3);
        wrappers.push(w);
        if w {
            let stage = d.bool();
            let _ = writeln!(
                text,
                "module Wr{j} #(\n    param W: u32 = 8,\n    param D: u32 = 4,\n    param M: u32 = 1,\n) (\n    clk: input clock,\n    rst: input reset,\n    d: input logic<W>,\n    en: input logic,\n    q: output logic<W>,\n    s: output logic<W>,\n) {{"
            );
            if stage {
                let _ = writeln!(text, "    var dd: logic<W>;\n    always_ff {{\n        if_reset {{\n            dd = 0;\n        }} else {{\n            dd = d;\n        }}\n    }}");
                let _ = writeln!(text, "    inst inner: D{j} #(W: W, D: D, M: M) (clk, rst, d: dd, en, q, s);");
            } else {
                let _ = writeln!(text, "    inst inner: D{j} #(W: W, D: D, M: M) (clk, rst, d, en, q, s);");
            }
            let _ = writeln!(text, "}}\n");
        }
    }
    Library {
        n_leaf,
        n_dut,
        wrappers,
        text,
        classes,
    }
}

/// Parameter set of one DUT instance.
#[derive(Clone, Debug, PartialEq, Eq, PartialOrd, Ord)]
pub struct DutParams {
    pub dut: usize,
    pub w: u32,
    pub depth: u32,
    pub m: u32,
}

impl DutParams {
    /// bytes of `mem` (2-state): the DUT-reuse boundary needs >= 256 bytes of state
    pub fn big(&self) -> bool {
        (self.w as u64).div_ceil(8).next_power_of_two() * self.depth as u64 >= 256
    }
    fn text(&self) -> String {
        format!("#(W: {}, D: {}, M: {})", self.w, self.depth, self.m)
    }
}

/// A pool of parameter sets so that tops share DUTs with equal AND with
/// different parameters.
pub fn gen_param_pool(d: &mut Draw, lib: &Library) -> Vec<DutParams> {
    let n = 2 + d.below_usize(3);
    let mut v: Vec<DutParams> = vec![];
    for _ in 0..n {
        let p = if !v.is_empty() && d.chance(1, 2) {
            // a neighbour of an existing set: one parameter differs
            let mut p = v[d.below_usize(v.len())].clone();
            match d.below(3) {
                0 => p.w = *d.pick(&[8u32, 16, 13, 32, 64, 5, 40, 100]),
                1 => p.depth = *d.pick(&[4u32, 2, 40, 8, 33]),
                _ => p.m = 1 + d.below(6),
            }
            p
        } else {
            DutParams {
                dut: d.below_usize(lib.n_dut),
                w: *d.pick(&[8u32, 16, 32, 64, 13, 40, 100, 4]),
                depth: *d.pick(&[4u32, 40, 2, 33, 8]),
                m: 1 + d.below(6),
            }
        };
        if !v.contains(&p) {
            v.push(p);
        }
    }
    v
}

/// How a top instantiates things around its DUT.
#[derive(Clone, Debug)]
pub struct TopSpec {
    pub name: String,
    pub main: DutParams,
    /// the DUT is instantiated through its wrapper
    pub wrap: bool,
    /// an extra leaf `L<i> #(W: w, K: k)` declared BEFORE the DUT instance
    pub pre_leaf: Option<(usize, u32)>,
    /// a second DUT instance (declared after the first)
    pub second: Option<DutParams>,
    /// a pad variable of this width declared first
    pub pad: Option<u32>,
    /// the second instance is declared before the main one
    pub second_first: bool,
}

impl TopSpec {
    /// (name, width) of the inputs / outputs of the top
    pub fn inputs(&self) -> Vec<(String, u32)> {
        let mut v = vec![("d".to_string(), self.main.w), ("en".to_string(), 1)];
        if let Some(s) = &self.second {
            v.push(("d2".to_string(), s.w));
        }
        v
    }
    pub fn outputs(&self) -> Vec<(String, u32)> {
        let mut v = vec![("q".to_string(), self.main.w), ("s".to_string(), self.main.w)];
        if let Some(s) = &self.second {
            v.push(("q2".to_string(), s.w));
            v.push(("s2".to_string(), s.w));
        }
        v
    }
}

pub fn gen_top(d: &mut Draw, lib: &Library, pool: &[DutParams], name: String) -> TopSpec {
    let main = pool[d.below_usize(pool.len())].clone();
    let wrap = lib.wrappers[main.dut] && d.bool();
    let pre_leaf = if d.chance(1, 3) { Some((d.below_usize(lib.n_leaf), 1 + d.below(9))) } else { None };
    let second = if d.chance(1, 3) { Some(pool[d.below_usize(pool.len())].clone()) } else { None };
    let pad = if d.chance(1, 3) { Some(*d.pick(&[77u32, 8, 300, 64, 1])) } else { None };
    let second_first = second.is_some() && d.bool();
    TopSpec {
        name,
        main,
        wrap,
        pre_leaf,
        second,
        pad,
        second_first,
    }
}

fn lg(w: u32) -> String {
    if w == 1 { "logic".into() } else { format!("logic<{w}>") }
}

/// Declarations + instances shared by both top flavours; `port` = the names
/// d/en/q/s/d2/q2/s2 are ports (plain top) rather than variables (test bench).
fn top_body(t: &TopSpec, port: bool) -> String {
    let mut s = String::new();
    let w = t.main.w;
    if let Some(p) = t.pad {
        let _ = writeln!(s, "    var pad0: {};", lg(p));
    }
    if !port {
        for (n, w) in t.inputs().iter().chain(t.outputs().iter()) {
            let _ = writeln!(s, "    var {n}: {};", lg(*w));
        }
    }
    let _ = writeln!(s, "    var s_i: {};", lg(w));
    if t.pre_leaf.is_some() {
        let _ = writeln!(s, "    var py: {};\n    var pz: {};", lg(w), lg(w));
    }
    let main_inst = {
        let m = if t.wrap { format!("Wr{}", t.main.dut) } else { format!("D{}", t.main.dut) };
        format!("    inst dut: {m} {} (clk, rst, d, en, q, s: s_i);\n", t.main.text())
    };
    let second_inst = t.second.as_ref().map(|p| format!("    inst dut2: D{} {} (clk, rst, d: d2, en, q: q2, s: s2);\n", p.dut, p.text()));
    if let Some((l, k)) = t.pre_leaf {
        let _ = writeln!(s, "    inst pre: L{l} #(W: {w}, K: {k}) (clk, rst, a: d, b: d, y: py, z: pz);");
    }
    if t.second_first {
        s.push_str(second_inst.as_deref().unwrap_or(""));
        s.push_str(&main_inst);
    } else {
        s.push_str(&main_inst);
        s.push_str(second_inst.as_deref().unwrap_or(""));
    }
    if t.pre_leaf.is_some() {
        let _ = writeln!(s, "    assign s = s_i ^ py ^ pz;");
    } else {
        let _ = writeln!(s, "    assign s = s_i;");
    }
    s
}

/// The top as a plain module with ports (for the `Simulator` API).
pub fn print_plain_top(t: &TopSpec) -> String {
    let mut s = String::new();
    let _ = writeln!(s, "module {} (\n    clk: input clock,\n    rst: input reset,", t.name);
    for (n, w) in t.inputs() {
        let _ = writeln!(s, "    {n}: input {},", lg(w));
    }
    for (n, w) in t.outputs() {
        let _ = writeln!(s, "    {n}: output {},", lg(w));
    }
    if t.pad.is_some() {
        let _ = writeln!(s, "    o_pad: output logic,");
    }
    let _ = writeln!(s, ") {{");
    s.push_str(&top_body(t, true));
    if t.pad.is_some() {
        let _ = writeln!(s, "    assign pad0 = '1;\n    assign o_pad = pad0[0] & en;");
    }
    let _ = writeln!(s, "}}\n");
    s
}

/// One cycle of a bench: drive, clock, print.
#[derive(Clone, Debug)]
pub struct BenchStep {
    pub d: u128,
    pub d2: u128,
    pub en: bool,
    pub clocks: u32,
}

#[derive(Clone, Debug)]
pub struct Bench {
    pub top: TopSpec,
    pub steps: Vec<BenchStep>,
    /// data-dependent assertion at the end (decides the verdict)
    pub assert_bit: Option<(u32, bool)>,
    /// print through a `for` loop instead of unrolled statements
    pub reset_again_at: Option<usize>,
}

fn hexlit(w: u32, v: u128) -> String {
    let m = if w >= 128 { u128::MAX } else { (1u128 << w) - 1 };
    format!("{w}'h{:x}", v & m)
}

pub fn gen_bench(d: &mut Draw, top: TopSpec) -> Bench {
    let n = 3 + d.below_usize(8);
    let mut steps = vec![];
    for _ in 0..n {
        steps.push(BenchStep {
            d: match d.below(4) {
                0 => 0,
                1 => u128::MAX,
                _ => (d.u64() as u128) << 64 | d.u64() as u128,
            },
            d2: (d.u64() as u128) << 40 | d.u64() as u128,
            en: !d.chance(1, 5),
            clocks: if d.chance(1, 6) { 2 + d.below(3) } else { 1 },
        });
    }
    let assert_bit = if d.chance(1, 2) { Some((d.below(top.main.w), d.bool())) } else { None };
    let reset_again_at = if d.chance(1, 6) { Some(1 + d.below_usize(n - 1)) } else { None };
    Bench {
        top,
        steps,
        assert_bit,
        reset_again_at,
    }
}

/// The top as a native `#[test]` bench printing a per-cycle trace.
pub fn print_bench(b: &Bench) -> String {
    let t = &b.top;
    let mut s = String::new();
    let _ = writeln!(s, "#[test({})]\nmodule {} {{", t.name, t.name);
    let _ = writeln!(s, "    inst clk: $tb::clock_gen;\n    inst rst: $tb::reset_gen (clk);");
    s.push_str(&top_body(t, false));
    let _ = writeln!(s, "    initial {{");
    if t.pad.is_some() {
        let _ = writeln!(s, "        pad0 = '1;");
    }
    let _ = writeln!(s, "        d = 0;\n        en = 1;");
    if t.second.is_some() {
        let _ = writeln!(s, "        d2 = 0;");
    }
    let _ = writeln!(s, "        rst.assert();\n        clk.next();");
    let outs = t.outputs();
    let fmt: Vec<String> = outs.iter().map(|(n, _)| format!("{n}=%h")).collect();
    let args: Vec<String> = outs.iter().map(|(n, _)| n.clone()).collect();
    for (i, st) in b.steps.iter().enumerate() {
        if b.reset_again_at == Some(i) {
            let _ = writeln!(s, "        rst.assert();\n        clk.next();\n        $display(\"r{i} {}\", {});", fmt.join(" "), args.join(", "));
        }
        let _ = writeln!(s, "        d = {};", hexlit(t.main.w, st.d));
        let _ = writeln!(s, "        en = 1'b{};", st.en as u8);
        if let Some(p) = &t.second {
            let _ = writeln!(s, "        d2 = {};", hexlit(p.w, st.d2));
        }
        if st.clocks == 1 {
            let _ = writeln!(s, "        clk.next();");
        } else {
            let _ = writeln!(s, "        clk.next({});", st.clocks);
        }
        let _ = writeln!(s, "        $display(\"c{i} {}\", {});", fmt.join(" "), args.join(", "));
    }
    if t.pad.is_some() {
        let _ = writeln!(s, "        $display(\"pad %h\", pad0);");
    }
    if let Some((bit, val)) = b.assert_bit {
        let _ = writeln!(s, "        $assert(q[{bit}] == 1'b{}, \"bit {bit} of q\");", val as u8);
    }
    let _ = writeln!(s, "        $finish();\n    }}\n}}\n");
    s
}
