//! C33 — switching to the compiled C backend mid-run is invisible.
//!
//! Case: a generated design (`vdesign::gen_design`, augmented so that it has a
//! constant cone feeding comb logic and a flip-flop, a feed-forward chain that
//! crosses a module boundary twice and `always_ff` code) and a stimulus.  The
//! design is converted ONCE under the asynchronous C backend
//! (`Config { use_jit, aot_c, aot_c_event, aot_c_async }`) through a
//! `ProtoModuleCache`; every run is a fresh instance of that converted module
//! (fresh buffers, the same background-compiled artifacts), so one `cc` run
//! per whole-comb / whole-event function serves all swap points.
//!
//! The hook `verif_gate::set_swap_at(n)` makes dispatch call `n` of the run
//! (const, comb and event dispatches counted together) the first one served
//! by the compiled code.  Reference = swap never (every dispatch answers
//! NotReady, the JIT does all the work), cross-checked against the plain
//! Cranelift configuration.  Oracle: for every swap point N the outputs before
//! the first step, after every step and the `$display` text equal the
//! reference.
//!
//! Soundness: a difference is reported only if it shows again on an instance
//! converted from scratch (`build_ir`, own compile) — otherwise, if it shows
//! on cached instances only, it is a cache problem and gets its own
//! signature.  A compile that never finishes makes the case inconclusive
//! (skip).

use crate::common::*;
use num_bigint::BigUint;
use std::collections::{BTreeMap, BTreeSet};
use vcore::{CaseCfg, Ctx, Draw, Outcome, hash_str, json};
use vdesign::*;
use veryl_simulator::backend::aot_c::verif_gate;
use veryl_simulator::ir::{ProtoModuleCache, build_ir, build_ir_cached};
use veryl_simulator::{Config, Simulator};

pub const NEVER: i64 = i64::MAX;

/// Signature / key of the genuine defect found by this check (see
/// /verif/known/C33): the compiled code becomes ready between the const-cone
/// dispatch and the main dispatch of the very first settle of an instance.
pub const KF_FIRST_SETTLE: &str = "swap-between-const-and-main-dispatch-of-first-settle-skips-const-cone";

pub fn swap_config() -> Config {
    Config {
        use_jit: true,
        aot_c: true,
        aot_c_event: true,
        aot_c_async: true,
        ..Default::default()
    }
}

pub fn jit_config() -> Config {
    Config {
        use_jit: true,
        ..Default::default()
    }
}

// ------------------------------------------------------------ augmentation

fn decl(name: &str, kind: DeclKind, w: u32) -> Decl {
    Decl {
        name: name.to_string(),
        kind,
        ty: Ty::u(w),
        syntax: TySyntax::Logic,
        array: None,
        value: None,
        init: None,
    }
}

fn lit(w: u32, v: u64) -> Expr {
    let m = if w >= 64 { u64::MAX } else { (1u64 << w) - 1 };
    Expr::lit_u(w, BigUint::from(v & m))
}

fn push_item(m: &mut Module, it: Item) {
    m.items.push(it);
    if !m.print_order.is_empty() {
        let n = m.items.len() - 1;
        // anywhere in the text: the order of module items has no meaning
        m.print_order.push(n);
    }
}

/// What `augment` added (class labels).
#[derive(Default, Clone, Debug)]
pub struct Added {
    pub const_cone: bool,
    pub const_ff: bool,
    pub chain: Option<&'static str>,
}

/// Add to the top module: a constant cone (`kc0 = literal; kc1 = f(kc0)`)
/// that drives an output together with an input, a flip-flop accumulating the
/// constant (when the top has clock and reset), and a feed-forward chain
/// through a child module whose output is fed back into another input of the
/// same / a second instance (no combinational loop: the two paths of the child
/// are independent).
pub fn augment(d: &mut Draw, design: &mut Design) -> Added {
    let mut added = Added::default();
    let top_i = design.top;
    let w = *d.pick(&[8u32, 1, 13, 32, 33, 64, 65, 128]);
    let same_w_input = {
        let m = &design.modules[top_i];
        m.inputs().into_iter().find(|&i| {
            let dc = &m.decls[i];
            dc.array.is_none() && !dc.ty.signed && dc.ty.w == w && matches!(dc.syntax, TySyntax::Logic | TySyntax::Bit)
        })
    };
    // any plain unsigned input, used through a width cast
    let any_input = {
        let m = &design.modules[top_i];
        m.inputs().into_iter().find(|&i| {
            let dc = &m.decls[i];
            dc.array.is_none() && !dc.ty.signed && matches!(dc.syntax, TySyntax::Logic | TySyntax::Bit)
        })
    };
    let in_expr = |m: &Module| -> Option<Expr> {
        let _ = m;
        match (same_w_input, any_input) {
            (Some(i), _) => Some(Expr::var(i)),
            (None, Some(i)) => Some(Expr::Cast(Box::new(Expr::var(i)), CastTo::Width(w))),
            _ => None,
        }
    };
    let has_clk = design.modules[top_i].clock().is_some() && design.modules[top_i].reset().is_some();

    if !d.chance(1, 8) {
        added.const_cone = true;
        let m = &mut design.modules[top_i];
        let k0 = m.decls.len();
        m.decls.push(decl("kc0", DeclKind::Var, w));
        let k1 = m.decls.len();
        m.decls.push(decl("kc1", DeclKind::Var, w));
        let o = m.decls.len();
        m.decls.push(decl("o_kc", DeclKind::Output, w));
        let c0 = d.u64() | 1;
        let c1 = d.u64();
        push_item(m, Item::Assign { lhs: Ref::whole(k0), rhs: lit(w, c0) });
        let chain = match d.below(3) {
            0 => Expr::bin(BinOp::Xor, Expr::var(k0), lit(w, c1)),
            1 => Expr::bin(BinOp::Add, Expr::var(k0), lit(w, c1 | 2)),
            _ => Expr::bin(BinOp::Or, Expr::un(UnOp::BitNot, Expr::var(k0)), lit(w, c1)),
        };
        push_item(m, Item::Assign { lhs: Ref::whole(k1), rhs: chain });
        let rhs = match in_expr(m) {
            Some(e) if !d.chance(1, 4) => Expr::bin(*d.pick(&[BinOp::Xor, BinOp::Add, BinOp::Sub]), Expr::var(k1), e),
            _ => Expr::var(k1),
        };
        push_item(m, Item::Assign { lhs: Ref::whole(o), rhs });
        if has_clk && !d.chance(1, 4) {
            added.const_ff = true;
            let r = m.decls.len();
            m.decls.push(decl("r_kc", DeclKind::Var, w));
            let o2 = m.decls.len();
            m.decls.push(decl("o_rk", DeclKind::Output, w));
            let body = match in_expr(m) {
                Some(e) if d.bool() => Expr::bin(BinOp::Add, Expr::var(r), Expr::bin(BinOp::Xor, Expr::var(k1), e)),
                _ => Expr::bin(BinOp::Add, Expr::var(r), Expr::var(k1)),
            };
            push_item(
                m,
                Item::AlwaysFf {
                    reset: vec![Stmt::Assign { lhs: Ref::whole(r), op: AssignOp::Set, rhs: lit(w, 0) }],
                    body: vec![Stmt::Assign { lhs: Ref::whole(r), op: AssignOp::Set, rhs: body }],
                    explicit: false,
                },
            );
            push_item(m, Item::Assign { lhs: Ref::whole(o2), rhs: Expr::var(r) });
        }
    }

    let shape = d.weighted(&[2, 3, 3]);
    if shape > 0 {
        // child with two independent paths a -> p, b -> q
        let mut fw = Module {
            name: "Fw".into(),
            ..Default::default()
        };
        fw.decls.push(decl("a", DeclKind::Input, w));
        fw.decls.push(decl("p", DeclKind::Output, w));
        fw.decls.push(decl("b", DeclKind::Input, w));
        fw.decls.push(decl("q", DeclKind::Output, w));
        let c = d.u64() | 1;
        fw.items.push(Item::Assign { lhs: Ref::whole(1), rhs: Expr::bin(BinOp::Add, Expr::var(0), lit(w, c)) });
        fw.items.push(Item::Assign {
            lhs: Ref::whole(3),
            rhs: Expr::bin(BinOp::Xor, Expr::var(2), Expr::bin(BinOp::Shr, Expr::var(2), lit(3, 1))),
        });
        design.modules.insert(top_i, fw);
        design.top = top_i + 1;
        let fw_i = top_i;
        let m = &mut design.modules[top_i + 1];
        let src = in_expr(m).unwrap_or_else(|| lit(w, d.u64()));
        let f1 = m.decls.len();
        m.decls.push(decl("fw1", DeclKind::Var, w));
        let f2 = m.decls.len();
        m.decls.push(decl("fw2", DeclKind::Var, w));
        let o = m.decls.len();
        m.decls.push(decl("o_fw", DeclKind::Output, w));
        if shape == 1 {
            // one instance, p fed back into b
            added.chain = Some("self-feed");
            push_item(
                m,
                Item::Inst {
                    name: "ufw".into(),
                    module: fw_i,
                    params: vec![],
                    conns: vec![(0, Conn::In(src)), (1, Conn::Out(f1)), (2, Conn::In(Expr::var(f1))), (3, Conn::Out(f2))],
                },
            );
            push_item(m, Item::Assign { lhs: Ref::whole(o), rhs: Expr::var(f2) });
        } else {
            // two instances: A.p -> B.a, B.p -> A.b, A.q -> out
            added.chain = Some("cross-feed");
            let g1 = m.decls.len();
            m.decls.push(decl("fw3", DeclKind::Var, w));
            let g2 = m.decls.len();
            m.decls.push(decl("fw4", DeclKind::Var, w));
            push_item(
                m,
                Item::Inst {
                    name: "ufa".into(),
                    module: fw_i,
                    params: vec![],
                    conns: vec![(0, Conn::In(src)), (1, Conn::Out(f1)), (2, Conn::In(Expr::var(g1))), (3, Conn::Out(f2))],
                },
            );
            push_item(
                m,
                Item::Inst {
                    name: "ufb".into(),
                    module: fw_i,
                    params: vec![],
                    conns: vec![(0, Conn::In(Expr::var(f1))), (1, Conn::Out(g1)), (2, Conn::In(lit(w, 5))), (3, Conn::Out(g2))],
                },
            );
            push_item(m, Item::Assign { lhs: Ref::whole(o), rhs: Expr::bin(BinOp::Xor, Expr::var(f2), Expr::var(g2)) });
        }
    }
    added
}

// ------------------------------------------------------------------- runs

/// A design converted once; every `run` is a fresh instance.
pub struct Converted<'a> {
    pub a: &'a Analyzed,
    pub cfg: Config,
    pub cache: ProtoModuleCache,
    pub has_comb: bool,
    pub n_events: usize,
    pub passes: usize,
}

pub enum RunErr {
    /// the compile never finished (inconclusive)
    WaitFailed,
    Build(String),
    Run(String),
    Panic(String),
}

impl<'a> Converted<'a> {
    pub fn new(a: &'a Analyzed) -> Converted<'a> {
        Converted {
            a,
            cfg: swap_config(),
            cache: ProtoModuleCache::default(),
            has_comb: false,
            n_events: 0,
            passes: 0,
        }
    }

    /// One run from reset with swap point `n`; `fresh` converts from scratch
    /// (own compile) instead of instantiating the cached module.
    pub fn run(&mut self, stim: &Stimulus, n: i64, presample: bool, fresh: bool) -> Result<Run, RunErr> {
        verif_gate::set_swap_at(n);
        let r = std::panic::catch_unwind(std::panic::AssertUnwindSafe(|| -> Result<Run, RunErr> {
            let ir = if fresh {
                build_ir(&self.a.ir, "Top".into(), &self.cfg)
            } else {
                build_ir_cached(&self.a.ir, "Top".into(), &self.cfg, &mut self.cache)
            }
            .map_err(|e| RunErr::Build(format!("build_ir: {e}")))?;
            self.has_comb = ir.whole_comb.is_some();
            self.n_events = ir.whole_events.len();
            self.passes = ir.required_comb_passes;
            let has_comb = self.has_comb;
            let mut sim = Simulator::new(ir, None);
            drive(&mut sim, stim, presample, has_comb, &verif_gate::calls).map_err(RunErr::Run)
        }));
        let failed = verif_gate::wait_failed();
        verif_gate::set_swap_at(-1);
        match r {
            Err(e) => Err(RunErr::Panic(panic_text(e))),
            Ok(_) if failed => Err(RunErr::WaitFailed),
            Ok(x) => x,
        }
    }
}

fn plain_run(a: &Analyzed, cfg: &Config, stim: &Stimulus, presample: bool) -> Result<Run, String> {
    verif_gate::set_swap_at(-1);
    match std::panic::catch_unwind(std::panic::AssertUnwindSafe(|| -> Result<Run, String> {
        let ir = build_ir(&a.ir, "Top".into(), cfg).map_err(|e| format!("build_ir: {e}"))?;
        let mut sim = Simulator::new(ir, None);
        drive(&mut sim, stim, presample, false, &|| 0)
    })) {
        Ok(r) => r,
        Err(e) => Err(format!("panic: {}", panic_text(e))),
    }
}

/// Swap points of a case: all of them (thorough) or ~12 sampled ones that
/// always include 0, 1, 2, last-1 and indices of every kind.
pub fn swap_points(d: &mut Draw, kinds: &[CallKind], all: bool) -> Vec<i64> {
    let n = kinds.len() as i64;
    let mut set: BTreeSet<i64> = BTreeSet::new();
    if all {
        set.extend(0..n);
        return set.into_iter().collect();
    }
    for k in [0, 1, 2, n - 1, n - 2] {
        if k >= 0 && k < n {
            set.insert(k);
        }
    }
    let of = |k: CallKind| -> Vec<i64> { kinds.iter().enumerate().filter(|(_, x)| **x == k).map(|(i, _)| i as i64).collect() };
    // between the const dispatch and the main dispatch of one settle
    let mains = of(CallKind::Main);
    let consts = of(CallKind::Const);
    let events = of(CallKind::Event);
    for (pool, k) in [(&mains, 4usize), (&events, 3), (&consts, 2)] {
        for _ in 0..k {
            if !pool.is_empty() {
                set.insert(pool[d.below_usize(pool.len())]);
            }
        }
    }
    set.into_iter().collect()
}

fn class_of(kinds: &[CallKind], n: i64) -> &'static str {
    match kinds.get(n as usize) {
        Some(CallKind::Const) => "swap-at:const-dispatch",
        Some(CallKind::Main) => "swap-at:main-dispatch(between-const-and-main)",
        Some(CallKind::Event) => "swap-at:event-dispatch",
        _ => "swap-at:other",
    }
}

fn kc_wrong_after_a_step(stim: &Stimulus, reference: &Observed, run: &Result<Run, RunErr>) -> bool {
    let Ok(run) = run else { return false };
    let Some(oi) = stim.outputs.iter().position(|p| p.name == "o_kc") else {
        return false;
    };
    reference.steps.iter().zip(&run.obs.steps).any(|(a, b)| a.get(oi) != b.get(oi))
}

pub struct CaseOpts {
    pub all_points: bool,
    /// per-mille rate at which the swap point of the known finding is kept
    pub known_per_mille: u32,
}

/// Verdict for one (design text, stimulus).
pub fn evaluate(d: &mut Draw, text: &str, stim: &Stimulus, presample: bool, opts: &CaseOpts, mut classes: Vec<String>, forced_points: Option<Vec<i64>>) -> Outcome {
    let a = match Analyzed::new(text) {
        Ok(a) => a,
        Err(r) => {
            let code = r.errors.first().map(|e| e.0.clone()).unwrap_or_default();
            return Outcome::skip(format!("generated design rejected by the analyzer ({}:{code})", r.stage));
        }
    };
    let input = |extra: serde_json::Value| json!({"veryl": text, "top": "Top", "stimulus": stim_json(stim), "presample": presample, "detail": extra});
    let mut cv = Converted::new(&a);
    // reference: never swapped
    let reference = match cv.run(stim, NEVER, presample, false) {
        Ok(r) => r,
        Err(RunErr::Build(e)) => {
            let msg: String = e.chars().filter(|c| !c.is_ascii_digit()).take(60).collect();
            return Outcome::skip(format!("not simulatable ({msg})"));
        }
        Err(RunErr::WaitFailed) => return Outcome::skip("inconclusive: the background compile never finished"),
        Err(RunErr::Run(e)) => return Outcome::skip(format!("driver: {e}")),
        Err(RunErr::Panic(e)) => {
            // an engine that panics without the C backend in play is C02's subject
            if plain_run(&a, &jit_config(), stim, presample).is_err() {
                return Outcome::skip("the plain JIT configuration panics / fails on this design (C02's subject)");
            }
            let first: String = e.lines().next().unwrap_or("").chars().filter(|c| !c.is_ascii_digit()).take(70).collect();
            return Outcome::fail(format!("panic-in-never-swapped-run:{first}"), format!("the simulator panicked with every dispatch answering NotReady: {e}\n{text}"), input(json!(null)));
        }
    };
    if !cv.has_comb && cv.n_events == 0 {
        return Outcome::skip("the C backend declined the design (no whole-comb / whole-event function)");
    }
    // cross-check: the plain Cranelift configuration
    match plain_run(&a, &jit_config(), stim, presample) {
        Ok(p) => {
            if let Some(diff) = first_diff(stim, &p.obs, &reference.obs, "cranelift", "never-swapped") {
                return Outcome::fail(
                    "never-swapped-run-differs-from-cranelift",
                    format!("the asynchronous C configuration that never swaps differs from the plain JIT: {diff}\n{text}"),
                    input(json!({"diff": diff})),
                );
            }
        }
        Err(e) => return Outcome::skip(format!("plain JIT run failed: {e}")),
    }
    let kinds = reference.kinds.clone();
    let total = kinds.len() as i64;
    let mut points = match forced_points {
        Some(p) => p,
        None => swap_points(d, &kinds, opts.all_points),
    };
    // the known finding: N = main dispatch of the very first settle
    let first_main = kinds.iter().position(|k| *k == CallKind::Main).map(|i| i as i64).filter(|&i| i == 1 && kinds.first() == Some(&CallKind::Const));
    let mut excluded_known = 0u64;
    if let Some(fm) = first_main {
        // an exhausted choice sequence (below = 0) excludes the point
        if points.contains(&fm) && !(opts.known_per_mille > 0 && d.below(1000) + opts.known_per_mille >= 1000) {
            points.retain(|&p| p != fm);
            excluded_known += 1;
        }
    }
    let mut by_kind: BTreeMap<&'static str, u32> = BTreeMap::new();
    let mut failures: Vec<(i64, String)> = vec![];
    for &n in &points {
        if n >= total {
            continue;
        }
        *by_kind.entry(class_of(&kinds, n)).or_insert(0) += 1;
        let run = match cv.run(stim, n, presample, false) {
            Ok(r) => r,
            Err(RunErr::WaitFailed) => return Outcome::skip("inconclusive: the background compile never finished"),
            Err(RunErr::Build(e)) | Err(RunErr::Run(e)) => return Outcome::skip(format!("swap run failed to start: {e}")),
            Err(RunErr::Panic(e)) => {
                failures.push((n, format!("panic: {e}")));
                continue;
            }
        };
        if let Some(diff) = first_diff(stim, &reference.obs, &run.obs, "never-swapped", &format!("swap@{n}")) {
            failures.push((n, diff));
        }
    }
    // the artifact is shared by all instances: a second instance that swaps at
    // call 0 must behave like the first one (no per-artifact run-once state)
    if failures.is_empty() && points.contains(&0) && total > 0 {
        match cv.run(stim, 0, presample, false) {
            Ok(run) => {
                if let Some(diff) = first_diff(stim, &reference.obs, &run.obs, "never-swapped", "swap@0(second instance)") {
                    failures.push((0, diff));
                }
            }
            Err(RunErr::Panic(e)) => failures.push((0, format!("panic: {e}"))),
            Err(RunErr::WaitFailed) => return Outcome::skip("inconclusive: the background compile never finished"),
            Err(_) => {}
        }
        if !failures.is_empty() {
            let (_, diff) = failures[0].clone();
            // confirm on one more instance
            let again = match cv.run(stim, 0, presample, false) {
                Ok(run) => first_diff(stim, &reference.obs, &run.obs, "never-swapped", "swap@0(third instance)"),
                _ => None,
            };
            if again.is_none() {
                return Outcome::fail(
                    "unstable-difference-on-a-later-instance",
                    format!("a second instance swapping at call 0 differed once but not again: {diff}\n{text}"),
                    input(json!({"swap_points": [0, 0]})),
                );
            }
            return Outcome::fail(
                "later-instance-of-the-shared-artifact-differs-at-swap-0",
                format!("the first instance that swaps at dispatch call 0 equals the never-swapped run, a later instance of the same converted module (same compiled artifact) does not: {diff}\n{text}"),
                input(json!({"swap_points": [0, 0]})),
            );
        }
    }
    if failures.is_empty() {
        if cv.has_comb {
            classes.push("cc:whole-comb".into());
        }
        if cv.n_events > 0 {
            classes.push(format!("cc:whole-events={}", cv.n_events.min(3)));
        }
        classes.push(format!("comb-passes={}", cv.passes.min(4)));
        for (k, v) in &by_kind {
            if *v > 0 {
                classes.push(k.to_string());
            }
        }
        if excluded_known > 0 {
            classes.push(format!("excluded:{KF_FIRST_SETTLE}"));
        }
        if !reference.obs.display.is_empty() {
            classes.push("display:text_compared".into());
        }
        if presample {
            classes.push("presample".into());
        }
        classes.push(format!("dispatch-calls:{}", if total < 20 { "<20" } else if total < 60 { "20-59" } else { "60+" }));
        let has_const = classes.iter().any(|c| c == "aug:const-cone");
        let nontrivial = (cv.has_comb && (has_const || cv.passes > 1)) || cv.n_events > 0;
        return Outcome::pass(
            hash_str(&format!("{text}{}", stim_json(stim))),
            nontrivial,
            classes,
            format!("{text}// stimulus: {}\n// swap points: {points:?} of {total}", stim_json(stim)),
        );
    }
    // ---- a difference: must reproduce on an instance converted from scratch
    let (n, diff) = failures[0].clone();
    let kind = kinds.get(n as usize).copied().unwrap_or(CallKind::Unknown);
    let fresh = cv.run(stim, n, presample, true);
    let fresh_diff = match &fresh {
        Ok(r) => first_diff(stim, &reference.obs, &r.obs, "never-swapped", &format!("swap@{n}(fresh)")),
        Err(RunErr::Panic(e)) => Some(format!("panic: {e}")),
        Err(RunErr::WaitFailed) => return Outcome::skip("inconclusive: the background compile never finished (confirmation run)"),
        Err(_) => return Outcome::skip("confirmation run failed to start"),
    };
    // is the compiled code itself different from the JIT, without any swap?
    // Then the engines disagree on this design — C02's subject (every such
    // root cause is a finding of C02 / C18), not a property of the swap.
    if fresh_diff.is_some() {
        let sync_cfg = Config {
            aot_c_async: false,
            ..swap_config()
        };
        match plain_run(&a, &sync_cfg, stim, presample) {
            Ok(s) => {
                if first_diff(stim, &reference.obs, &s.obs, "jit", "cc").is_some() {
                    return Outcome::skip("the synchronous C backend and the JIT disagree on this design without any swap (C02's subject)");
                }
            }
            Err(e) if e.starts_with("panic") => return Outcome::skip("the synchronous C backend panics on this design (C02's subject)"),
            Err(_) => {}
        }
    }
    let sig = match (&fresh_diff, kind) {
        (None, _) => "difference-only-on-cached-instance".to_string(),
        (Some(x), _) if x.starts_with("panic") => {
            let first: String = x.lines().next().unwrap_or("").chars().filter(|c| !c.is_ascii_digit()).take(70).collect();
            format!("panic-after-swap:{first}")
        }
        // the known defect loses the constant cone for ONE settle: a purely
        // combinational output of the cone (`o_kc`, added by `augment`) is
        // wrong before the first step only.  Wrong after a step as well =
        // the cone stays unevaluated = another defect.
        (Some(_), CallKind::Main) if n == 1 && kc_wrong_after_a_step(stim, &reference.obs, &fresh) => "const-cone-stays-unevaluated-after-swap-in-first-settle".to_string(),
        (Some(_), CallKind::Main) if n == 1 => KF_FIRST_SETTLE.to_string(),
        (Some(_), CallKind::Main) => "swap-between-const-and-main-dispatch".to_string(),
        (Some(_), CallKind::Const) => "swap-at-settle-boundary".to_string(),
        (Some(_), CallKind::Event) => "swap-at-event-dispatch".to_string(),
        (Some(_), CallKind::Unknown) => "swap-at-unclassified-dispatch".to_string(),
    };
    let list: Vec<String> = failures.iter().take(8).map(|(k, m)| format!("  N={k} ({:?}): {m}", kinds.get(*k as usize).copied().unwrap_or(CallKind::Unknown))).collect();
    Outcome::fail(
        sig,
        format!(
            "trace depends on the swap point ({} of {} tried points differ from the never-swapped run; {} dispatch calls, comb passes {}):\n{}\nfirst: N={n}: {diff}\nconfirmation on a from-scratch conversion: {}\n{text}",
            failures.len(),
            points.len(),
            total,
            cv.passes,
            list.join("\n"),
            fresh_diff.clone().unwrap_or_else(|| "NOT reproduced".into()),
        ),
        input(json!({"swap_points": failures.iter().map(|f| f.0).collect::<Vec<_>>(), "kinds": kinds.iter().map(|k| format!("{k:?}")).collect::<Vec<_>>()})),
    )
}

pub fn one_case(d: &mut Draw, opts: &CaseOpts) -> Outcome {
    let mut cfg = GenCfg::default();
    cfg.display = d.chance(1, 4);
    // where SystemVerilog gives X the engines may differ (C02's finding);
    // this check is about the swap, so everything is guarded
    cfg.unguarded_per_mille = 0;
    // the C emitter declines many wide expressions: mostly narrow designs
    cfg.max_width = *d.pick(&[64u32, 32, 64, 128, 160]);
    if let Ok(w) = std::env::var("C33_MAX_WIDTH") {
        cfg.max_width = w.parse().unwrap_or(64);
    }
    let mut g = gen_design(d, &cfg);
    let added = augment(d, &mut g.design);
    let cycles = 4 + d.below(8) as usize;
    let mut stim = gen_stimulus(d, &g.design, cycles);
    // now and then the run does not start with a reset: what the first
    // settle computed is then what the flip-flops latch
    if stim.reset.is_some() && d.chance(1, 3) {
        for s in stim.steps.iter_mut().take(2) {
            s.reset = false;
        }
    }
    let presample = !d.chance(1, 4);
    let text = print_design(&g.design);
    let mut classes: Vec<String> = vec![];
    if added.const_cone {
        classes.push("aug:const-cone".into());
    }
    if added.const_ff {
        classes.push("aug:const-cone-into-ff".into());
    }
    if let Some(c) = added.chain {
        classes.push(format!("aug:chain-{c}"));
    }
    if g.design.top().has_ff() {
        classes.push("design:sequential".into());
    }
    if g.design.modules.len() > 1 {
        classes.push("design:hierarchy".into());
    }
    if std::env::var("C33_DUMP").is_ok() {
        println!("{text}// stimulus: {}", stim_json(&stim));
    }
    evaluate(d, &text, &stim, presample, opts, classes, None)
}

/// Replay of a recorded reproducer (`veryl`, `stimulus`, `presample`, `detail.swap_points`).
pub fn replay_recorded(p: &vcore::Value) -> Outcome {
    let text = p["veryl"].as_str().unwrap_or("");
    let stim = stim_from(&p["stimulus"]);
    let presample = p["presample"].as_bool().unwrap_or(true);
    let points: Vec<i64> = p["detail"]["swap_points"].as_array().map(|a| a.iter().filter_map(|x| x.as_i64()).collect()).unwrap_or_default();
    let mut d = Draw::new(vec![]);
    let opts = CaseOpts {
        all_points: false,
        known_per_mille: 1000,
    };
    // known_per_mille = 1000 keeps the point whatever the draw
    evaluate(&mut d, text, &stim, presample, &opts, vec!["recorded".into()], if points.is_empty() { None } else { Some(points) })
}

pub fn run(ctx: &Ctx) {
    // the compile pool of the simulator: its size and niceness are
    // performance knobs only (read once, before the first compile)
    if std::env::var("VERYL_AOT_C_COMPILE_JOBS").is_err() {
        unsafe { std::env::set_var("VERYL_AOT_C_COMPILE_JOBS", "8") };
    }
    if std::env::var("VERYL_AOT_C_NICE").is_err() {
        unsafe { std::env::set_var("VERYL_AOT_C_NICE", "0") };
    }
    if !veryl_simulator::backend::aot_c::cc_available() {
        println!("INCONCLUSIVE property=C33: no C compiler (`cc`) on this host");
        std::process::exit(2);
    }
    ctx.run_payloads("recorded", |p| {
        std::thread::scope(|s| {
            std::thread::Builder::new()
                .stack_size(16 << 20)
                .spawn_scoped(s, || replay_recorded(p))
                .expect("spawn")
                .join()
                .unwrap_or_else(|_| Outcome::fail("panic:recorded", "the replay panicked", p.clone()))
        })
    });
    let n = std::env::var("C33_CASES").ok().and_then(|s| s.parse::<usize>().ok()).unwrap_or(ctx.scale(100, 3000));
    let opts = CaseOpts {
        all_points: !ctx.is_quick(),
        known_per_mille: std::env::var("C33_KNOWN_PER_MILLE").ok().and_then(|s| s.parse().ok()).unwrap_or(60),
    };
    ctx.run("designs", CaseCfg::cases(n).choices(8000).timeout_s(900).shrink_iters(40), |d| one_case(d, &opts));
    ctx.assume("the hook verif_gate gates all artifacts of a design (whole-comb and every whole-event function) at one common dispatch index; a schedule where the event artifact is ready before the comb artifact (or vice versa) is outside this check's reach");
    ctx.assume("C33 is decided modulo C02: when the synchronous C backend and the JIT already disagree on a design without any swap, the case is skipped (counted) — the disagreement is an engine defect catalogued by C02 / C18, not a property of the swap");
    ctx.assume("every run is a fresh instance of one converted module (ProtoModuleCache), so all swap points share one compile; a difference is confirmed on a from-scratch conversion before it is reported");
    ctx.finish(
        "exploration",
        "generated designs (vdesign: children with parameter overrides, let/assign/always_comb, always_ff with reset, functions, structs, arrays, $display on 1/4) augmented with a constant cone feeding an output and a flip-flop and a feed-forward chain crossing a module boundary twice, x stimulus of 4-11 cycles (1/3 without the initial reset), under the asynchronous C backend with the swap forced at dispatch call N (quick: ~12 sampled incl. 0,1,2,last and indices between const and main dispatch; thorough: every index); non-trivial = the C backend compiled the whole comb of a design with a constant cone or > 1 comb pass, or compiled an always_ff event; distinct by text + stimulus",
    );
}
