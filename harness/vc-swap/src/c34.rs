//! C34 — reusing converted modules across tests is invisible.
//!
//! (a) in process, the API `cmd_test.rs` uses (`build_ir_cached` with one
//!     `ProtoModuleCache`, no `dut_reuse` — DESIGN.md §6a):
//!     * `api-tops`: a generated library (leaves, DUTs with an array of
//!       state, wrappers; `mgen`) and 2–5 plain tops instantiating the same
//!       DUTs with different parameter overrides and instance layouts; a
//!       history = sequence of (top, stimulus) in which tops repeat; every
//!       element is built through the shared cache, run, dropped — and
//!       compared with the same element built by `build_ir` from scratch.
//!     * `api-designs`: a `vdesign` design (every statement kind the
//!       generator knows) instantiated 2–4 times from one cache entry with
//!       different stimuli, against from-scratch conversions.
//! (b) `cli`: generated projects of 3–8 native `#[test]` benches over the
//!     same library, printing per-cycle traces; all tests in ONE `veryl test`
//!     process restricted to one CPU (`taskset` ⇒ one worker) with DUT reuse
//!     (default), in alphabetical and in a forced dispatch order, versus the
//!     same with `VERYL_DUT_REUSE=0` and (thorough tier, 1/3 of the projects) each
//!     test alone.
//!     Oracle: equal (status, message, output) per test.
//!
//! A difference is re-run before it is reported (the CLI runs are repeated;
//! the in-process element is rebuilt).

use crate::common::*;
use crate::mgen::*;
use num_bigint::BigUint;
use std::collections::{BTreeMap, BTreeSet};
use std::path::PathBuf;
use std::time::Duration;
use vcore::util::{Scratch, repo_bin, run_cmd, write_file};
use vcore::{CaseCfg, Ctx, Draw, Outcome, Value, hash_str, json};
use vdesign::{Analyzed, GenCfg, PortSpec, StimStep, Stimulus, gen_design, gen_stimulus, print_design};
use veryl_simulator::ir::{ProtoModuleCache, build_ir, build_ir_cached};
use veryl_simulator::{Config, Simulator};

// ------------------------------------------------------------- in process

fn api_configs() -> Vec<(&'static str, Config)> {
    vec![
        ("jit", Config { use_jit: true, ..Default::default() }),
        ("interp", Config::default()),
        ("jit+noffopt", Config { use_jit: true, disable_ff_opt: true, ..Default::default() }),
        ("jit+4st", Config { use_jit: true, use_4state: true, ..Default::default() }),
        ("interp+4st", Config { use_4state: true, ..Default::default() }),
        // the synchronous C backend: one `cc` run per conversion
        ("cc", Config { use_jit: true, aot_c: true, aot_c_event: true, ..Default::default() }),
    ]
}

fn pick_config(d: &mut Draw, cc_ok: bool) -> (&'static str, Config) {
    let all = api_configs();
    let i = d.weighted(&[6, 3, 2, 2, 1, if cc_ok { 1 } else { 0 }]);
    all[i].clone()
}

fn run_ir(ir: veryl_simulator::ir::Ir, stim: &Stimulus) -> Result<Observed, String> {
    match std::panic::catch_unwind(std::panic::AssertUnwindSafe(|| {
        let mut sim = Simulator::new(ir, None);
        drive(&mut sim, stim, false, false, &|| 0).map(|r| r.obs)
    })) {
        Ok(r) => r,
        Err(e) => Err(format!("panic: {}", panic_text(e))),
    }
}

fn build_fresh(a: &Analyzed, top: &str, cfg: &Config) -> Result<veryl_simulator::ir::Ir, String> {
    match std::panic::catch_unwind(std::panic::AssertUnwindSafe(|| build_ir(&a.ir, top.into(), cfg).map_err(|e| format!("build_ir: {e}")))) {
        Ok(r) => r,
        Err(e) => Err(format!("panic: {}", panic_text(e))),
    }
}

fn build_cached(a: &Analyzed, top: &str, cfg: &Config, cache: &mut ProtoModuleCache) -> Result<veryl_simulator::ir::Ir, String> {
    match std::panic::catch_unwind(std::panic::AssertUnwindSafe(|| build_ir_cached(&a.ir, top.into(), cfg, cache).map_err(|e| format!("build_ir_cached: {e}")))) {
        Ok(r) => r,
        Err(e) => Err(format!("panic: {}", panic_text(e))),
    }
}

fn top_stimulus(d: &mut Draw, t: &TopSpec) -> Stimulus {
    let mut ins: Vec<PortSpec> = t.inputs().into_iter().map(|(n, w)| PortSpec { name: n, width: w as usize }).collect();
    let mut outs: Vec<PortSpec> = t.outputs().into_iter().map(|(n, w)| PortSpec { name: n, width: w as usize }).collect();
    if t.pad.is_some() {
        outs.push(PortSpec { name: "o_pad".into(), width: 1 });
    }
    let n = 3 + d.below_usize(8);
    let mut steps = vec![];
    let resets = 1 + d.below_usize(2);
    for i in 0..(resets + n) {
        let values = ins
            .iter()
            .map(|p| if p.name == "en" { BigUint::from(!d.chance(1, 5) as u8) } else { vdesign::gen_value(d, p.width as u32) })
            .collect();
        steps.push(StimStep {
            reset: i < resets || d.chance(1, 15),
            values,
        });
    }
    let _ = &mut ins;
    let _ = &mut outs;
    Stimulus {
        clock: Some("clk".into()),
        reset: Some("rst".into()),
        inputs: ins,
        outputs: outs,
        steps,
    }
}

fn norm_err(e: &str) -> String {
    e.lines().next().unwrap_or("").chars().filter(|c| !c.is_ascii_digit()).take(70).collect()
}

/// One history over `tops` (names) of an analysed text: `seq[i]` = (top index, stimulus).
fn run_history(a: &Analyzed, text: &str, tops: &[String], seq: &[(usize, Stimulus)], cfg_name: &str, cfg: &Config, classes: Vec<String>, nontrivial: bool) -> Outcome {
    let mut cache = ProtoModuleCache::default();
    let input = |i: usize, extra: Value| {
        json!({"veryl": text, "config": cfg_name, "tops": tops,
               "history": seq.iter().map(|(t, s)| json!({"top": tops[*t], "stimulus": stim_json(s)})).collect::<Vec<_>>(),
               "element": i, "detail": extra})
    };
    let mut seen: BTreeSet<usize> = BTreeSet::new();
    let mut hits = 0;
    for (i, (ti, stim)) in seq.iter().enumerate() {
        let top = &tops[*ti];
        let fresh = build_fresh(a, top, cfg).and_then(|ir| run_ir(ir, stim));
        let cached = build_cached(a, top, cfg, &mut cache).and_then(|ir| run_ir(ir, stim));
        let hit = !seen.insert(*ti);
        if hit {
            hits += 1;
        }
        let what = if hit { "cache-hit" } else { "cache-miss" };
        match (&fresh, &cached) {
            (Err(e), Err(_)) if i == 0 && e.starts_with("build_ir") => {
                return Outcome::skip(format!("not simulatable ({})", norm_err(e)));
            }
            (Err(e1), Err(e2)) if norm_err(e1).replace("build_ir_cached", "build_ir") == norm_err(e2).replace("build_ir_cached", "build_ir") => continue,
            (Ok(f), Ok(c)) => {
                if let Some(diff) = first_diff(stim, f, c, "from-scratch", "through-cache") {
                    // soundness: the difference must show again on a second
                    // from-scratch conversion and a second cached instance
                    let f2 = build_fresh(a, top, cfg).and_then(|ir| run_ir(ir, stim));
                    let c2 = build_cached(a, top, cfg, &mut cache).and_then(|ir| run_ir(ir, stim));
                    let stable = matches!((&f2, &c2), (Ok(f2), Ok(c2)) if f2 == f && first_diff(stim, f2, c2, "a", "b").is_some());
                    if !stable {
                        return Outcome::fail(
                            format!("unstable-difference/{what}"),
                            format!("element {i} ({top}, {what}, {cfg_name}) differed once but not on re-run: {diff}\n{text}"),
                            input(i, json!({"diff": diff})),
                        );
                    }
                    return Outcome::fail(
                        format!("cached-instance-differs/{what}/{}", cfg_name.split('+').next().unwrap_or(cfg_name)),
                        format!("element {i} of the history (top {top}, {what}, config {cfg_name}): {diff}\n{text}"),
                        input(i, json!({"diff": diff})),
                    );
                }
            }
            (f, c) => {
                let fe = f.as_ref().err().cloned().unwrap_or_else(|| "ok".into());
                let ce = c.as_ref().err().cloned().unwrap_or_else(|| "ok".into());
                return Outcome::fail(
                    format!("cached-build-verdict-differs/{what}:{}|{}", norm_err(&fe), norm_err(&ce)),
                    format!("element {i} ({top}, {what}, {cfg_name}): from scratch: {fe}; through the cache: {ce}\n{text}"),
                    input(i, json!({"fresh": fe, "cached": ce})),
                );
            }
        }
    }
    let mut classes = classes;
    classes.push(format!("config:{cfg_name}"));
    classes.push(format!("cache-hits:{}", hits.min(4)));
    let hist: Vec<&str> = seq.iter().map(|(t, _)| tops[*t].as_str()).collect();
    Outcome::pass(hash_str(&format!("{text}{hist:?}{cfg_name}")), nontrivial && hits > 0, classes, format!("{text}// history: {hist:?} config {cfg_name}"))
}

fn api_tops_case(d: &mut Draw, cc_ok: bool) -> Outcome {
    let lib = gen_library(d);
    let pool = gen_param_pool(d, &lib);
    let n_tops = 2 + d.below_usize(4);
    let tops: Vec<TopSpec> = (0..n_tops).map(|i| gen_top(d, &lib, &pool, format!("Top{i}"))).collect();
    let mut text = lib.text.clone();
    for t in &tops {
        text.push_str(&print_plain_top(t));
    }
    let (cfg_name, cfg) = pick_config(d, cc_ok);
    let len = if cfg_name == "cc" { 3 } else { 3 + d.below_usize(6) };
    let mut seq: Vec<(usize, Stimulus)> = vec![];
    for i in 0..len {
        // repeat an earlier top half of the time
        let ti = if i > 0 && d.bool() { seq[d.below_usize(i)].0 } else { d.below_usize(n_tops) };
        let stim = top_stimulus(d, &tops[ti]);
        seq.push((ti, stim));
    }
    if std::env::var("C34_DUMP").is_ok() {
        println!("{text}");
    }
    let a = match Analyzed::new(&text) {
        Ok(a) => a,
        Err(r) => {
            let code = r.errors.first().map(|e| format!("{}: {}", e.0, e.1.lines().next().unwrap_or(""))).unwrap_or_default();
            return Outcome::skip(format!("generated library rejected by the analyzer ({}:{})", r.stage, norm_err(&code)));
        }
    };
    let mut classes = lib.classes.clone();
    // sharing statistics
    let used: Vec<&DutParams> = tops.iter().flat_map(|t| std::iter::once(&t.main).chain(t.second.iter())).collect();
    let mut same_mod_diff_params = false;
    let mut same_params = false;
    for (i, p) in used.iter().enumerate() {
        for q in &used[i + 1..] {
            if p.dut == q.dut && p != q {
                same_mod_diff_params = true;
            }
            if p == q {
                same_params = true;
            }
        }
    }
    if same_mod_diff_params {
        classes.push("share:same-dut-different-params".into());
    }
    if same_params {
        classes.push("share:same-dut-same-params".into());
    }
    for t in &tops {
        if t.wrap {
            classes.push("layout:wrapper".into());
        }
        if t.pre_leaf.is_some() {
            classes.push("layout:leaf-before-dut".into());
        }
        if t.second.is_some() {
            classes.push("layout:two-duts".into());
        }
        if t.pad.is_some() {
            classes.push("layout:pad".into());
        }
    }
    classes.sort();
    classes.dedup();
    let names: Vec<String> = tops.iter().map(|t| t.name.clone()).collect();
    run_history(&a, &text, &names, &seq, cfg_name, &cfg, classes, same_mod_diff_params)
}

fn api_designs_case(d: &mut Draw, cc_ok: bool) -> Outcome {
    let mut gc = GenCfg::default();
    gc.display = d.chance(1, 3);
    gc.max_width = 160;
    let g = gen_design(d, &gc);
    let text = print_design(&g.design);
    let (cfg_name, cfg) = pick_config(d, cc_ok);
    let len = if cfg_name == "cc" { 2 } else { 2 + d.below_usize(3) };
    let mut seq = vec![];
    for _ in 0..len {
        let cycles = 3 + d.below(8) as usize;
        seq.push((0usize, gen_stimulus(d, &g.design, cycles)));
    }
    let a = match Analyzed::new(&text) {
        Ok(a) => a,
        Err(r) => {
            let code = r.errors.first().map(|e| e.0.clone()).unwrap_or_default();
            return Outcome::skip(format!("generated design rejected by the analyzer ({}:{code})", r.stage));
        }
    };
    let mut classes: Vec<String> = vec![];
    if g.design.top().has_ff() {
        classes.push("design:sequential".into());
    }
    if g.design.modules.len() > 1 {
        classes.push("design:hierarchy".into());
    }
    let nt = g.design.top().has_ff() || g.design.modules.len() > 1;
    run_history(&a, &text, &["Top".to_string()], &seq, cfg_name, &cfg, classes, nt)
}

/// Replay of a recorded in-process history.
fn replay_api(p: &Value) -> Outcome {
    let text = p["veryl"].as_str().unwrap_or("");
    let cfg_name = p["config"].as_str().unwrap_or("jit");
    let Some((name, cfg)) = api_configs().into_iter().find(|(n, _)| *n == cfg_name) else {
        return Outcome::skip("unknown config in the recorded history");
    };
    let tops: Vec<String> = p["tops"].as_array().map(|a| a.iter().filter_map(|x| x.as_str().map(|s| s.to_string())).collect()).unwrap_or_default();
    let mut seq = vec![];
    for h in p["history"].as_array().cloned().unwrap_or_default() {
        let Some(ti) = tops.iter().position(|t| Some(t.as_str()) == h["top"].as_str()) else {
            return Outcome::skip("recorded history names an unknown top");
        };
        seq.push((ti, stim_from(&h["stimulus"])));
    }
    let a = match Analyzed::new(text) {
        Ok(a) => a,
        Err(r) => return Outcome::skip(format!("recorded text rejected by the analyzer ({r})")),
    };
    run_history(&a, text, &tops, &seq, name, &cfg, vec!["recorded".into()], true)
}

// -------------------------------------------------------------------- CLI

const PROJECT: &str = "c34p";

fn veryl_toml() -> String {
    format!("[project]\nname    = \"{PROJECT}\"\nversion = \"0.1.0\"\n\n[build]\nclock_type  = \"posedge\"\nreset_type  = \"async_low\"\nsources     = [\"src\"]\nexclude_std = true\n")
}

#[derive(Clone, Debug, PartialEq, Eq)]
struct TestRes {
    status: String,
    message: Option<String>,
    output: Option<String>,
}

#[derive(Clone, Debug)]
struct Report {
    order: Vec<String>,
    tests: BTreeMap<String, TestRes>,
}

fn parse_report(stdout: &str) -> Result<Report, String> {
    let start = stdout.find("{\n").or_else(|| stdout.find('{')).ok_or("no JSON report on stdout")?;
    let v: Value = serde_json::from_str(&stdout[start..]).map_err(|e| format!("report is not JSON: {e}"))?;
    let arr = v.get("tests").and_then(|t| t.as_array()).ok_or("report has no tests array")?;
    let mut order = Vec::new();
    let mut tests = BTreeMap::new();
    for t in arr {
        let name = t.get("name").and_then(|n| n.as_str()).ok_or("test without name")?.to_string();
        let res = TestRes {
            status: t.get("status").and_then(|n| n.as_str()).unwrap_or("").to_string(),
            message: t.get("message").and_then(|n| n.as_str()).map(|s| s.to_string()),
            output: t.get("output").and_then(|n| n.as_str()).map(|s| s.to_string()),
        };
        order.push(name.clone());
        if tests.insert(name.clone(), res).is_some() {
            return Err(format!("test {name} reported twice"));
        }
    }
    Ok(Report { order, tests })
}

struct Workspace {
    _scratch: Scratch,
    proj: PathBuf,
    xdg: PathBuf,
    backend: &'static str,
    four_state: bool,
    cpu: u32,
    /// `VERYL_DUT_REUSE_MIN_BYTES=0`: every recurring component is a reuse boundary
    min_bytes0: bool,
}

#[derive(Clone, Debug)]
struct RunCfg {
    reuse: bool,
    /// forced dispatch order (names, first = first dispatched); None = alphabetical (no history)
    order: Option<Vec<String>>,
    /// only this test (`--test NAME`)
    only: Option<String>,
    label: String,
}

impl Workspace {
    fn command_line(&self, c: &RunCfg) -> String {
        let mut s = String::new();
        if !c.reuse {
            s.push_str("VERYL_DUT_REUSE=0 ");
        }
        if self.backend == "cc" {
            s.push_str("VERYL_AOT_C_ASYNC=0 ");
        }
        if self.min_bytes0 {
            s.push_str("VERYL_DUT_REUSE_MIN_BYTES=0 ");
        }
        s.push_str(&format!("taskset -c {} veryl test --format json --seed 1 --backend {}", self.cpu, self.backend));
        if self.four_state {
            s.push_str(" --4state");
        }
        if let Some(t) = &c.only {
            s.push_str(&format!(" --test {t}"));
        }
        s
    }

    fn run(&self, c: &RunCfg) -> Result<Report, String> {
        let tp = self.proj.join(".build/test_timings");
        match &c.order {
            None => {
                let _ = std::fs::remove_file(&tp);
            }
            Some(o) => {
                let n = o.len();
                let text: Vec<String> = o.iter().enumerate().map(|(i, name)| format!("{name} {:.6}", 0.001 * (n - i) as f64 + 0.0005)).collect();
                write_file(&tp, &text.join("\n"));
            }
        }
        let bin = repo_bin("veryl").to_string_lossy().into_owned();
        let cpu = self.cpu.to_string();
        // `nice -n -10` (effective for root only; otherwise a warning and
        // unchanged priority): the pinned process cannot migrate away from a
        // CPU another pinned job occupies — performance only
        let mut args: Vec<&str> = vec!["-n", "-10", "taskset", "-c", &cpu, &bin, "test", "--format", "json", "--seed", "1", "--backend", self.backend];
        if self.four_state {
            args.push("--4state");
        }
        if let Some(t) = &c.only {
            args.push("--test");
            args.push(t);
        }
        let xdg = self.xdg.to_string_lossy().into_owned();
        let mut env = vec![("XDG_CACHE_HOME", xdg.as_str()), ("NO_GRAPHICS", "1"), ("NO_COLOR", "1"), ("RUST_BACKTRACE", "0")];
        // the C backend only with a synchronous compile (the swap point of
        // the asynchronous one is C33's subject and depends on timing)
        if self.backend == "cc" {
            env.push(("VERYL_AOT_C_ASYNC", "0"));
        }
        env.push(("VERYL_DUT_REUSE", if c.reuse { "1" } else { "0" }));
        if self.min_bytes0 {
            env.push(("VERYL_DUT_REUSE_MIN_BYTES", "0"));
        }
        let t0 = std::time::Instant::now();
        let o = run_cmd("nice", &args, &self.proj, &env, Duration::from_secs(400));
        if std::env::var("C34_TIMING").is_ok() {
            eprintln!("  run {} on cpu {}: {:.1}s", c.label, self.cpu, t0.elapsed().as_secs_f64());
        }
        if o.timed_out {
            return Err("timeout".into());
        }
        parse_report(&o.stdout).map_err(|e| {
            let tail: String = o.stderr.lines().filter(|l| !l.contains("[INFO")).take(12).collect::<Vec<_>>().join("\n");
            format!("{e}; exit={:?} signal={:?}\n{tail}", o.code, o.signal)
        })
    }
}

/// The least busy CPU that no concurrent case of this process uses (the
/// machine is shared; a CPU on which another pinned process spins would make
/// a run take minutes).  Performance only: the verdict does not depend on it.
struct CpuGuard(u32);

static CPUS_IN_USE: std::sync::Mutex<BTreeSet<u32>> = std::sync::Mutex::new(BTreeSet::new());

fn cpu_busy() -> Vec<(u64, u64)> {
    // (busy, total) jiffies per cpu
    let text = std::fs::read_to_string("/proc/stat").unwrap_or_default();
    let mut v = vec![];
    for l in text.lines() {
        if l.starts_with("cpu") && !l.starts_with("cpu ") {
            let f: Vec<u64> = l.split_whitespace().skip(1).filter_map(|x| x.parse().ok()).collect();
            if f.len() >= 5 {
                let total: u64 = f.iter().take(8).sum();
                let idle = f[3] + f[4];
                v.push((total - idle, total));
            }
        }
    }
    v
}

impl CpuGuard {
    fn take(total: u32) -> CpuGuard {
        let a = cpu_busy();
        std::thread::sleep(Duration::from_millis(120));
        let b = cpu_busy();
        let mut used = CPUS_IN_USE.lock().unwrap();
        let mut best: Option<(u64, u32)> = None;
        for c in 0..total {
            if used.contains(&c) {
                continue;
            }
            let load = match (a.get(c as usize), b.get(c as usize)) {
                (Some(x), Some(y)) if y.1 > x.1 => (y.0 - x.0) * 1000 / (y.1 - x.1),
                _ => 500,
            };
            if best.map(|(l, _)| load < l).unwrap_or(true) {
                best = Some((load, c));
            }
        }
        let c = best.map(|(_, c)| c).unwrap_or(0);
        used.insert(c);
        CpuGuard(c)
    }
}

impl Drop for CpuGuard {
    fn drop(&mut self) {
        CPUS_IN_USE.lock().unwrap().remove(&self.0);
    }
}

fn permutation(d: &mut Draw, names: &[String]) -> Vec<String> {
    let mut v = names.to_vec();
    if d.exhausted() {
        v.reverse();
        return v;
    }
    for i in (1..v.len()).rev() {
        let j = d.below(i as u32 + 1) as usize;
        v.swap(i, j);
    }
    v
}

fn diff_reports(base: &Report, other: &Report, names: &[String]) -> Option<(String, String)> {
    for n in names {
        match (base.tests.get(n), other.tests.get(n)) {
            (Some(a), Some(b)) => {
                if a.status != b.status {
                    return Some((n.clone(), format!("status {:?} vs {:?} (message {:?} vs {:?})", a.status, b.status, a.message, b.message)));
                }
                if a.output != b.output {
                    let (ao, bo) = (a.output.clone().unwrap_or_default(), b.output.clone().unwrap_or_default());
                    let (la, lb): (Vec<&str>, Vec<&str>) = (ao.lines().collect(), bo.lines().collect());
                    let i = la.iter().zip(&lb).position(|(x, y)| x != y).unwrap_or(la.len().min(lb.len()));
                    return Some((n.clone(), format!("output line {i}: {:?} vs {:?}", la.get(i).copied().unwrap_or("<end>"), lb.get(i).copied().unwrap_or("<end>"))));
                }
                if a.message != b.message {
                    return Some((n.clone(), format!("message {:?} vs {:?}", a.message, b.message)));
                }
            }
            (a, b) => return Some((n.clone(), format!("reported: {} vs {}", a.is_some(), b.is_some()))),
        }
    }
    None
}

struct CliProject {
    min_bytes0: bool,
    files: Vec<(String, String)>,
    names: Vec<String>,
    classes: Vec<String>,
    nontrivial: bool,
    backend: &'static str,
    four_state: bool,
}

const STEMS: &[&str] = &["a", "zz", "m", "b", "k", "x9", "q", "top", "e", "w", "n0", "cnt"];

fn gen_cli_project(d: &mut Draw, cc_ok: bool, max_tests: usize) -> CliProject {
    let lib = gen_library(d);
    let pool = gen_param_pool(d, &lib);
    let n = 3 + d.below_usize(max_tests - 2);
    let mut tops = vec![];
    let mut names = vec![];
    for i in 0..n {
        // names: unique two-digit tag in the middle so that no name contains another
        let name = format!("T{}_{i:02}x", STEMS[d.below_usize(STEMS.len())]);
        names.push(name.clone());
        tops.push(gen_top(d, &lib, &pool, name));
    }
    // make sure some tests share a DUT with the same parameters
    if d.chance(2, 3) && n >= 2 {
        let src = tops[0].main.clone();
        let k = 1 + d.below_usize(n - 1);
        tops[k].main = src;
        tops[k].wrap = tops[k].wrap && lib.wrappers[tops[k].main.dut];
    }
    let benches: Vec<Bench> = tops.into_iter().map(|t| gen_bench(d, t)).collect();
    let mut classes = lib.classes.clone();
    let used: Vec<&DutParams> = benches.iter().flat_map(|b| std::iter::once(&b.top.main).chain(b.top.second.iter())).collect();
    let mut same_mod_diff_params = false;
    let mut same_params_big = false;
    let mut same_params = false;
    for (i, p) in used.iter().enumerate() {
        for q in &used[i + 1..] {
            if p.dut == q.dut && p != q {
                same_mod_diff_params = true;
            }
            if p == q {
                same_params = true;
                if p.big() {
                    same_params_big = true;
                }
            }
        }
    }
    if same_mod_diff_params {
        classes.push("share:same-dut-different-params".into());
    }
    if same_params {
        classes.push("share:same-dut-same-params".into());
    }
    if same_params_big {
        classes.push("share:same-dut-same-params-state>=256B(reuse-boundary)".into());
    }
    for b in &benches {
        let t = &b.top;
        if t.wrap {
            classes.push("layout:wrapper".into());
        }
        if t.pre_leaf.is_some() {
            classes.push("layout:leaf-before-dut".into());
        }
        if t.second.is_some() {
            classes.push("layout:two-duts".into());
        }
        if t.pad.is_some() {
            classes.push("layout:pad".into());
        }
        if b.assert_bit.is_some() {
            classes.push("bench:data-dependent-assert".into());
        }
    }
    classes.sort();
    classes.dedup();
    let backend = match d.weighted(&[5, 3, if cc_ok { 1 } else { 0 }]) {
        0 => "cranelift",
        1 => "interpret",
        _ => "cc",
    };
    let four_state = backend != "cc" && d.chance(1, 6);
    let min_bytes0 = d.chance(1, 3);
    let split = d.bool();
    let mut files = vec![("Veryl.toml".to_string(), veryl_toml())];
    if split {
        files.push(("src/lib.veryl".into(), lib.text.clone()));
        for b in &benches {
            files.push((format!("src/{}.veryl", b.top.name.to_lowercase()), print_bench(b)));
        }
    } else {
        let mut all = lib.text.clone();
        for b in &benches {
            all.push_str(&print_bench(b));
        }
        files.push(("src/all.veryl".into(), all));
    }
    CliProject {
        min_bytes0,
        files,
        names,
        classes,
        nontrivial: same_mod_diff_params,
        backend,
        four_state,
    }
}

fn files_json(files: &[(String, String)]) -> Value {
    Value::Object(files.iter().map(|(k, v)| (k.clone(), json!(v))).collect())
}

fn cli_evaluate(d: &mut Draw, p: &CliProject, alone: bool) -> Outcome {
    let scratch = Scratch::new("c34");
    let proj = scratch.join(PROJECT);
    let xdg = scratch.join("xdg");
    std::fs::create_dir_all(&xdg).expect("mkdir xdg");
    for (rel, text) in &p.files {
        write_file(&proj.join(rel), text);
    }
    let total = std::thread::available_parallelism().map(|n| n.get()).unwrap_or(1) as u32;
    let cpu_guard = CpuGuard::take(total);
    let ws = Workspace {
        _scratch: scratch,
        proj,
        xdg,
        backend: p.backend,
        four_state: p.four_state,
        // which CPU the process is pinned to has no meaning for the case
        cpu: cpu_guard.0,
        min_bytes0: p.min_bytes0,
    };
    let mut sorted = p.names.clone();
    sorted.sort();
    let forced = permutation(d, &sorted);
    let base_cfg = RunCfg { reuse: false, order: None, only: None, label: "no-reuse".into() };
    let base = match ws.run(&base_cfg) {
        Ok(r) => r,
        Err(e) => return Outcome::skip(format!("no report from the run without reuse ({})", norm_err(&e))),
    };
    if base.tests.len() != p.names.len() {
        return Outcome::skip("the run without reuse did not report every test");
    }
    if base.tests.values().any(|t| t.status == "error") {
        let m = base.tests.values().find(|t| t.status == "error").and_then(|t| t.message.clone()).unwrap_or_default();
        return Outcome::skip(format!("a generated bench does not elaborate / run without reuse ({})", norm_err(&m)));
    }
    let mut runs: Vec<RunCfg> = vec![
        RunCfg { reuse: true, order: None, only: None, label: "reuse/alphabetical".into() },
        RunCfg { reuse: true, order: Some(forced.clone()), only: None, label: "reuse/forced-order".into() },
    ];
    if alone {
        for n in &sorted {
            runs.push(RunCfg { reuse: true, order: None, only: Some(n.clone()), label: format!("alone:{n}") });
        }
    }
    let input = |detail: Value| json!({"files": files_json(&p.files), "backend": p.backend, "four_state": p.four_state, "min_bytes0": p.min_bytes0, "tests": p.names, "forced_order": forced, "detail": detail});
    for rc in &runs {
        let names: Vec<String> = match &rc.only {
            Some(n) => vec![n.clone()],
            None => sorted.clone(),
        };
        let rep = match ws.run(rc) {
            Ok(r) => r,
            Err(e) => {
                // the run with reuse produced no report while the one without did: re-run to rule out a timeout
                match ws.run(rc) {
                    Ok(r) => r,
                    Err(e2) if e == "timeout" || e2 == "timeout" => return Outcome::skip("timeout of a reuse run"),
                    Err(e2) => {
                        return Outcome::fail(
                            format!("no-report-with-reuse:{}", norm_err(&e2)),
                            format!("`{}` gives no report although the run without reuse does: {e2}", ws.command_line(rc)),
                            input(json!({"run": rc.label})),
                        );
                    }
                }
            }
        };
        if let Some((test, what)) = diff_reports(&base, &rep, &names) {
            // soundness: both runs again
            let base2 = ws.run(&base_cfg);
            let rep2 = ws.run(rc);
            let stable = match (&base2, &rep2) {
                (Ok(b2), Ok(r2)) => diff_reports(&base, b2, &sorted).is_none() && diff_reports(&rep, r2, &names).is_none(),
                _ => false,
            };
            let kind = if rc.only.is_some() { "alone" } else { "suite" };
            let what_kind = if what.starts_with("status") { "status" } else if what.starts_with("output") { "output" } else { "report" };
            if !stable {
                return Outcome::fail(
                    format!("unstable-cli-difference/{kind}"),
                    format!("test {test}: {what} between `{}` and `{}`, but a re-run of the two gave other results", ws.command_line(&base_cfg), ws.command_line(rc)),
                    input(json!({"run": rc.label, "test": test, "diff": what})),
                );
            }
            let pos = rep.order.iter().position(|x| *x == test).unwrap_or(0);
            return Outcome::fail(
                format!("dut-reuse-changes-{what_kind}/{kind}/{}", p.backend),
                format!(
                    "test {test} (dispatched {pos}. of {:?}): {what}\n  reference: `{}`\n  differs:   `{}`\n  without reuse: {:?}\n  with reuse:    {:?}",
                    rep.order,
                    ws.command_line(&base_cfg),
                    ws.command_line(rc),
                    base.tests.get(&test),
                    rep.tests.get(&test)
                ),
                input(json!({"run": rc.label, "test": test, "diff": what, "order": rep.order})),
            );
        }
    }
    let mut classes = p.classes.clone();
    classes.push(format!("backend:{}{}", p.backend, if p.four_state { "+4state" } else { "" }));
    if alone {
        classes.push("runs:each-test-alone".into());
    }
    if p.min_bytes0 {
        classes.push("knob:VERYL_DUT_REUSE_MIN_BYTES=0".into());
    }
    if base.tests.values().any(|t| t.status == "fail") {
        classes.push("verdict:some-test-fails".into());
    }
    if forced != sorted {
        classes.push("order:forced-differs-from-alphabetical".into());
    }
    let all_text: String = p.files.iter().map(|(k, v)| format!("// ---- {k}\n{v}")).collect();
    Outcome::pass(hash_str(&all_text), p.nontrivial, classes, format!("{all_text}// backend {} forced order {forced:?}", p.backend))
}

fn cli_case(d: &mut Draw, cc_ok: bool, quick: bool) -> Outcome {
    // quick tier: at most 6 tests, no `--backend cc` projects (a synchronous
    // `cc` run per function and test)
    let p = gen_cli_project(d, cc_ok && !quick, if quick { 6 } else { 8 });
    // each test alone: one more process per test — thorough tier only
    let alone = !quick && d.chance(1, 3);
    let t0 = std::time::Instant::now();
    let o = cli_evaluate(d, &p, alone);
    if std::env::var("C34_TIMING").is_ok() {
        eprintln!("cli case: {} tests, backend {}, alone {alone}: {:.1}s", p.names.len(), p.backend, t0.elapsed().as_secs_f64());
    }
    o
}

/// Development aid: write the project generated from a pseudo-random choice vector.
pub fn dump(dir: &std::path::Path, n: u64) {
    let mut x = n.wrapping_mul(0x9E37_79B9_7F4A_7C15) ^ 0xD1B5_4A32_D192_ED03;
    let choices: Vec<u32> = (0..6000)
        .map(|_| {
            x ^= x << 13;
            x ^= x >> 7;
            x ^= x << 17;
            (x >> 16) as u32
        })
        .collect();
    let mut d = Draw::new(choices);
    let p = gen_cli_project(&mut d, true, 8);
    for (rel, text) in &p.files {
        write_file(&dir.join(rel), text);
    }
    println!("backend {} four_state {} tests {:?}", p.backend, p.four_state, p.names);
}

fn replay_cli(v: &Value) -> Outcome {
    let files: Vec<(String, String)> = v["files"].as_object().map(|m| m.iter().map(|(k, x)| (k.clone(), x.as_str().unwrap_or("").to_string())).collect()).unwrap_or_default();
    let names: Vec<String> = v["tests"].as_array().map(|a| a.iter().filter_map(|x| x.as_str().map(|s| s.to_string())).collect()).unwrap_or_default();
    let backend = match v["backend"].as_str() {
        Some("interpret") => "interpret",
        Some("cc") => "cc",
        _ => "cranelift",
    };
    let p = CliProject {
        min_bytes0: v["min_bytes0"].as_bool().unwrap_or(false),
        files,
        names,
        classes: vec!["recorded".into()],
        nontrivial: true,
        backend,
        four_state: v["four_state"].as_bool().unwrap_or(false),
    };
    // the forced order of the record: encode as a permutation is not needed —
    // an exhausted Draw reverses the alphabetical order; the alphabetical run
    // and the runs alone are made as well
    let mut d = Draw::new(vec![]);
    cli_evaluate(&mut d, &p, true)
}

pub fn run(ctx: &Ctx) {
    let cc_ok = veryl_simulator::backend::aot_c::cc_available();
    ctx.assume("`taskset -c <one cpu>` makes std::thread::available_parallelism = 1 in the veryl process, hence one worker and a sequential history of tests (cmd_test.rs: num_threads = min(available_parallelism, tests))");
    ctx.assume("the reference of the CLI part is the same suite run with VERYL_DUT_REUSE=0 (every test converted from scratch); with --backend cc the compile is synchronous (VERYL_AOT_C_ASYNC=0) — the asynchronous swap is C33's subject");
    ctx.assume("in process the cache is used the way cmd_test.rs uses it: one configuration per cache, build / run / drop one test after the other (DESIGN.md 6a: no dut_reuse outside the CLI)");
    let only = std::env::var("C34_ONLY").unwrap_or_default();
    ctx.run_payloads("api-recorded", replay_api);
    ctx.run_payloads("cli-recorded", replay_cli);
    if only.is_empty() || only == "api" {
        let n = std::env::var("C34_API_CASES").ok().and_then(|s| s.parse().ok()).unwrap_or(ctx.scale(130, 8000));
        ctx.run("api-tops", CaseCfg::cases(n).choices(6000).timeout_s(900).shrink_iters(60), |d| api_tops_case(d, cc_ok));
        let n2 = std::env::var("C34_API_CASES").ok().and_then(|s| s.parse().ok()).unwrap_or(ctx.scale(80, 6000));
        ctx.run("api-designs", CaseCfg::cases(n2).choices(8000).timeout_s(900).shrink_iters(60), |d| api_designs_case(d, cc_ok));
    }
    if only.is_empty() || only == "cli" {
        let n = std::env::var("C34_CLI_CASES").ok().and_then(|s| s.parse().ok()).unwrap_or(ctx.scale(6, 1500));
        let quick = ctx.is_quick();
        let total = std::thread::available_parallelism().map(|n| n.get()).unwrap_or(1);
        ctx.run("cli", CaseCfg::cases(n).choices(6000).threads(total.min(12)).shrink_iters(6).timeout_s(3000), |d| cli_case(d, cc_ok, quick));
    }
    ctx.finish(
        "exploration",
        "api-tops: generated library (1-2 leaf modules with params W,K; 1-2 DUT modules with params W,D,M holding an array of state and instantiating the leaves with different overrides; wrappers) + 2-5 plain tops (DUT parameter sets drawn from a shared pool so that tops share DUTs with equal and with different parameters; layouts: wrapper, leaf before the DUT, two DUTs in either order, pad variable) x histories of 3-8 (top, stimulus) elements with repeats, one engine configuration per history; api-designs: vdesign designs instantiated 2-4 times through one cache entry; cli: projects of 3-8 native #[test] benches over such a library, suite runs on one CPU with reuse (alphabetical and forced dispatch order) and each test alone (1/3) versus the suite with VERYL_DUT_REUSE=0; non-trivial = at least two tops/tests share a DUT module with different parameters (api: and the history has a cache hit); distinct by text + history",
    );
}
