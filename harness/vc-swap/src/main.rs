mod c33;
mod c34;

fn main() {
    let args: Vec<String> = std::env::args().skip(1).collect();
    let id = args.first().cloned().unwrap_or_default();
    vcore::quiet_panics();
    let ctx = vcore::Ctx::new(&id, &args[1.min(args.len())..]);
    match id.as_str() {
        "C33" => c33::run(&ctx),
        "C34" => c34::run(&ctx),
        _ => {
            eprintln!("unknown property id {id:?}");
            std::process::exit(2);
        }
    }
}
