mod c33;
mod c34;
mod common;
mod mgen;

/// Development aid: `vc-swap probe FILE` — convert `Top` of FILE under the
/// asynchronous C configuration and print what the C backend took.
fn probe(path: &str) {
    use veryl_simulator::backend::aot_c::verif_gate;
    let text = std::fs::read_to_string(path).expect("read");
    let a = match vdesign::Analyzed::new(&text) {
        Ok(a) => a,
        Err(r) => {
            println!("rejected: {r}");
            return;
        }
    };
    for w in &a.warnings {
        println!("warning: {w}");
    }
    let cfg = c33::swap_config();
    verif_gate::set_swap_at(c33::NEVER);
    let ir = match veryl_simulator::ir::build_ir(&a.ir, "Top".into(), &cfg) {
        Ok(ir) => ir,
        Err(e) => {
            println!("build_ir: {e}");
            return;
        }
    };
    println!(
        "whole_comb={} whole_events={} required_comb_passes={} comb_stmts={} jit_stats={:?}",
        ir.whole_comb.is_some(),
        ir.whole_events.len(),
        ir.required_comb_passes,
        ir.comb_statements.len(),
        ir.jit_stats()
    );
}

fn main() {
    let args: Vec<String> = std::env::args().skip(1).collect();
    let id = args.first().cloned().unwrap_or_default();
    if id == "probe" {
        probe(&args[1]);
        return;
    }
    if id == "c34-dump" {
        c34::dump(std::path::Path::new(&args[1]), args[2].parse().unwrap_or(1));
        return;
    }
    vcore::quiet_panics();
    let ctx = vcore::Ctx::new(&id, &args[1.min(args.len())..]);
    match id.as_str() {
        "C33" => c33::run(&ctx),
        "C34" => c34::run(&ctx),
        _ => {
            eprintln!("unknown property id {id:?}");
            std::process::exit(2);
        }
    }
}
