mod c31;
mod model;
mod plan;
mod worker;

fn main() {
    let args: Vec<String> = std::env::args().skip(1).collect();
    let id = args.first().cloned().unwrap_or_default();
    if id == "--worker" {
        // child process of a C31 case (own XDG_CACHE_HOME)
        let dir = args.get(1).cloned().unwrap_or_default();
        std::process::exit(worker::main(&dir));
    }
    if id == "--c31-plan" {
        // development aid: run one plan file, keep the scratch directory
        let text = std::fs::read_to_string(args.get(1).expect("plan file")).expect("read plan");
        let v: serde_json::Value = serde_json::from_str(&text).expect("json");
        let p = v.get("input").and_then(|i| i.get("plan")).cloned().unwrap_or(v);
        let plan: plan::Plan = serde_json::from_value(p).expect("plan");
        println!("{}", plan.describe());
        match c31::run_plan(&plan, true) {
            Ok((s, log)) => {
                println!("scratch kept at {}", s.path.display());
                if std::env::var_os("C31_SHOW_LOG").is_some() {
                    println!("{}", serde_json::to_string_pretty(&log).unwrap());
                }
                let base = s.path.join("u").to_string_lossy().to_string();
                let (fails, classes, nt) = c31::decide_for_dev(&plan, &base, &log);
                println!("non-trivial: {nt}\nclasses: {classes:#?}");
                for (sig, msg) in fails {
                    println!("DISAGREEMENT [{sig}]\n{msg}\n");
                }
            }
            Err(e) => println!("error: {e}"),
        }
        return;
    }
    vcore::quiet_panics();
    let ctx = vcore::Ctx::new(&id, &args[1.min(args.len())..]);
    match id.as_str() {
        "C31" => c31::run(&ctx),
        _ => {
            eprintln!("unknown property id {id:?}");
            std::process::exit(2);
        }
    }
}
