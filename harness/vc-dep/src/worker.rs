//! `vc-dep --worker <dir>`: materialises `<dir>/plan.json` under `<dir>/u`
//! through the real veryl-metadata API (git repositories, `Metadata::publish`,
//! `Metadata::bump_version`) and performs the resolutions exactly the way the
//! callers in /repo do (`Metadata::update_lockfile`, `CmdUpdate::exec`), with
//! the intermediate lock tables observed.  Writes `<dir>/log.json`.
//!
//! A separate process per case because the dependency cache location comes
//! from the process environment (`XDG_CACHE_HOME`) and its directories are
//! guarded by process-wide file locks.  The worker decides nothing.

use crate::plan::{Bump, Event, Owner, Plan};
use serde_json::{Value, json};
use std::fs;
use std::path::{Path, PathBuf};
use veryl_metadata::{BumpKind, Git, LockSource, Lockfile, Metadata, MetadataError};

fn err_kind(e: &MetadataError) -> &'static str {
    match e {
        MetadataError::FileIO { .. } => "FileIO",
        MetadataError::FileNotFound(_) => "FileNotFound",
        MetadataError::Deserialize(_) => "Deserialize",
        MetadataError::Git(_) => "Git",
        MetadataError::PublishedVersion(_) => "PublishedVersion",
        MetadataError::ModifiedProject(_) => "ModifiedProject",
        MetadataError::TomlSer(_) => "TomlSer",
        MetadataError::VersionNotFound { .. } => "VersionNotFound",
        MetadataError::ProjectNotFound { .. } => "ProjectNotFound",
        MetadataError::UnpublishedDependency { .. } => "UnpublishedDependency",
        MetadataError::InvalidDependency { .. } => "InvalidDependency",
        MetadataError::NameConflict(_) => "NameConflict",
        MetadataError::UnknownProperty { .. } => "UnknownProperty",
        MetadataError::MismatchType { .. } => "MismatchType",
        MetadataError::Path(_) => "Path",
        _ => "Other",
    }
}

fn err_json(stage: &str, e: &MetadataError) -> Value {
    json!({"stage": stage, "kind": err_kind(e), "text": format!("{e}"), "debug": format!("{e:?}")})
}

/// the lock table as data: groups in key order, locks in the table's own order
pub fn dump_table(lf: &Lockfile) -> Value {
    let mut groups: Vec<(String, Value)> = vec![];
    for (k, locks) in &lf.lock_table {
        let mut arr = vec![];
        for l in locks {
            let mut v = serde_json::to_value(l).unwrap_or(json!({"unserialisable": true}));
            if let Some(o) = v.as_object_mut() {
                o.insert("visible".into(), json!(l.visible));
                o.insert("key_of_source".into(), json!(l.source.to_url().to_string()));
                o.insert(
                    "is_path".into(),
                    json!(matches!(l.source, LockSource::Path(_))),
                );
            }
            arr.push(v);
        }
        groups.push((k.to_string(), json!(arr)));
    }
    groups.sort_by(|a, b| a.0.cmp(&b.0));
    json!(groups.into_iter().map(|(k, v)| json!({"key": k, "locks": v})).collect::<Vec<_>>())
}

fn read_opt(p: &Path) -> Option<String> {
    fs::read_to_string(p).ok()
}

/// One resolution the way the callers do it.  `force == false`:
/// `Metadata::update_lockfile` (build, check, test, publish, metadata);
/// `force == true`: `CmdUpdate::exec`.
fn resolve_once(root_toml: &Path, force: bool, rt_path: &Path) -> Value {
    let md = match Metadata::load(root_toml) {
        Ok(m) => m,
        Err(e) => return json!({"ok": false, "error": err_json("metadata-load", &e)}),
    };
    let existed = md.lockfile_path.exists();
    let mut out = serde_json::Map::new();
    out.insert("existed".into(), json!(existed));
    let mut lf;
    let modified;
    if existed {
        lf = match Lockfile::load(&md) {
            Ok(l) => l,
            Err(e) => {
                out.insert("ok".into(), json!(false));
                out.insert("error".into(), err_json("lockfile-load", &e));
                return Value::Object(out);
            }
        };
        out.insert("t0".into(), dump_table(&lf));
        match lf.update(&md, force) {
            Ok(m) => modified = m,
            Err(e) => {
                out.insert("ok".into(), json!(false));
                out.insert("error".into(), err_json("update", &e));
                return Value::Object(out);
            }
        }
        out.insert("modified".into(), json!(modified));
    } else {
        lf = match Lockfile::new(&md) {
            Ok(l) => l,
            Err(e) => {
                out.insert("ok".into(), json!(false));
                out.insert("error".into(), err_json("new", &e));
                return Value::Object(out);
            }
        };
        modified = true;
        out.insert("modified".into(), Value::Null);
    }
    out.insert("t1".into(), dump_table(&lf));
    // save -> load on a copy, at a side path (the real file is written below
    // exactly when the callers write it)
    {
        let mut copy = lf.clone();
        match copy.save(rt_path) {
            Ok(()) => {
                let mut md2 = md.clone();
                md2.lockfile_path = rt_path.to_path_buf();
                match Lockfile::load(&md2) {
                    Ok(l2) => {
                        out.insert("t2".into(), dump_table(&l2));
                    }
                    Err(e) => {
                        out.insert("roundtrip_error".into(), err_json("roundtrip-load", &e));
                    }
                }
                out.insert("rt_text".into(), json!(read_opt(rt_path)));
                let _ = fs::remove_file(rt_path);
            }
            Err(e) => {
                out.insert("roundtrip_error".into(), err_json("roundtrip-save", &e));
            }
        }
    }
    if modified {
        if let Err(e) = lf.save(&md.lockfile_path) {
            out.insert("ok".into(), json!(false));
            out.insert("error".into(), err_json("save", &e));
            return Value::Object(out);
        }
    }
    out.insert("saved".into(), json!(modified));
    out.insert("ok".into(), json!(true));
    Value::Object(out)
}

/// the same through the real command line
fn resolve_cli(root_dir: &Path, force: bool) -> Value {
    let bin = vcore::util::repo_bin("veryl");
    let args: Vec<&str> = if force {
        vec!["update"]
    } else {
        vec!["metadata", "--format", "json", "--format-version", "2"]
    };
    let lock_path = root_dir.join("Veryl.lock");
    let before = read_opt(&lock_path);
    let existed = before.is_some();
    let r = vcore::util::run_cmd(
        bin.to_str().unwrap(),
        &args,
        root_dir,
        &[("NO_GRAPHICS", "1"), ("NO_COLOR", "1")],
        std::time::Duration::from_secs(900),
    );
    let mut out = serde_json::Map::new();
    out.insert("cli".into(), json!(true));
    out.insert("existed".into(), json!(existed));
    if r.timed_out {
        out.insert("ok".into(), json!(false));
        out.insert("timeout".into(), json!(true));
        return Value::Object(out);
    }
    let ok = r.code == Some(0);
    out.insert("ok".into(), json!(ok));
    if !ok {
        let text = format!("{}{}", r.stdout, r.stderr);
        let kind = if text.contains("MetadataError::VersionNotFound") || text.contains(" is not found") {
            "VersionNotFound"
        } else if text.contains("it conflicts with") {
            "InvalidDependency"
        } else {
            "Other"
        };
        out.insert(
            "error".into(),
            json!({"stage": "cli", "kind": kind, "text": text.chars().take(1500).collect::<String>(), "code": r.code, "signal": r.signal}),
        );
        return Value::Object(out);
    }
    // Both callers write Veryl.lock exactly when update() reported a
    // modification (or there was no lock file): an untouched file means "not
    // modified", and then the file is NOT the table of this run (it may still
    // carry the names of before an alias was renamed) - nothing to observe.
    let after = read_opt(&lock_path);
    if existed {
        out.insert("modified".into(), json!(after != before));
        if after == before {
            return Value::Object(out);
        }
    } else {
        out.insert("modified".into(), Value::Null);
    }
    // the table as the next process will load it
    match Metadata::load(root_dir.join("Veryl.toml")) {
        Ok(md) => match Lockfile::load(&md) {
            Ok(lf) => {
                out.insert("t1".into(), dump_table(&lf));
            }
            Err(e) => {
                out.insert("ok".into(), json!(false));
                out.insert("error".into(), err_json("cli-lockfile-load", &e));
            }
        },
        Err(e) => {
            out.insert("ok".into(), json!(false));
            out.insert("error".into(), err_json("cli-metadata-load", &e));
        }
    }
    Value::Object(out)
}

fn in_fresh_thread<T: Send + 'static>(f: impl FnOnce() -> T + Send + 'static) -> Result<T, String> {
    // a fresh thread gets fresh hash-map keys, like a fresh process
    match std::thread::Builder::new().stack_size(8 << 20).spawn(f).unwrap().join() {
        Ok(v) => Ok(v),
        Err(e) => {
            let msg = if let Some(s) = e.downcast_ref::<&str>() {
                s.to_string()
            } else if let Some(s) = e.downcast_ref::<String>() {
                s.clone()
            } else {
                "panic".to_string()
            };
            Err(msg)
        }
    }
}

/// `git init` through the command line: `Git::init` of the code under test
/// first asks whether the directory is inside *any* repository (gix discovers
/// upwards) and /verif is one, so it would never create a repository here.
fn git_init(dir: &Path) -> Result<(), String> {
    let r = vcore::util::run_cmd(
        "git",
        &["init", "-q", "-b", "main", "."],
        dir,
        &[],
        std::time::Duration::from_secs(300),
    );
    if r.code != Some(0) || !dir.join(".git").is_dir() {
        return Err(format!("git init failed: {} {}", r.stdout, r.stderr));
    }
    Ok(())
}

fn commit_all(dir: &Path, files: &[PathBuf], msg: &str) -> Result<(), String> {
    // never let a commit escape into a repository further up
    if !dir.join(".git").is_dir() {
        return Err(format!("{} is not a repository root", dir.display()));
    }
    let git = Git::open(dir).map_err(|e| format!("git open: {e}"))?;
    for f in files {
        git.add(f).map_err(|e| format!("git add {}: {e}", f.display()))?;
    }
    git.commit(msg).map_err(|e| format!("git commit: {e}"))?;
    Ok(())
}

pub fn main(dir: &str) -> i32 {
    let dir = PathBuf::from(dir);
    let plan: Plan = match fs::read_to_string(dir.join("plan.json"))
        .map_err(|e| e.to_string())
        .and_then(|t| serde_json::from_str(&t).map_err(|e| e.to_string()))
    {
        Ok(p) => p,
        Err(e) => {
            eprintln!("worker: cannot read plan: {e}");
            return 3;
        }
    };
    let u = dir.join("u");
    let base = u.to_string_lossy().to_string();
    let cache = dir.join("cache");
    let mut log: Vec<Value> = vec![];
    let mut fatal: Option<String> = None;

    let setup = || -> Result<(), String> {
        fs::create_dir_all(u.join("root")).map_err(|e| e.to_string())?;
        for r in 0..plan.n_repos {
            let d = u.join(format!("r{r}"));
            fs::create_dir_all(&d).map_err(|e| e.to_string())?;
            git_init(&d)?;
        }
        for p in &plan.projects {
            if !p.subdir.is_empty() {
                fs::create_dir_all(u.join(format!("r{}/{}", p.repo, p.subdir))).map_err(|e| e.to_string())?;
            }
        }
        for (k, l) in plan.locals.iter().enumerate() {
            let d = u.join(&l.dir);
            fs::create_dir_all(&d).map_err(|e| e.to_string())?;
            let toml = plan.render_toml(&base, Owner::Local(k), &l.name, "0.1.0", &l.props, &[]);
            fs::write(d.join("Veryl.toml"), toml).map_err(|e| e.to_string())?;
        }
        let toml = plan.render_toml(&base, Owner::Root, "root", "0.1.0", &[], &[]);
        fs::write(u.join("root/Veryl.toml"), toml).map_err(|e| e.to_string())?;
        Ok(())
    };
    if let Err(e) = setup() {
        fatal = Some(format!("setup: {e}"));
    }

    let root_toml = u.join("root/Veryl.toml");
    let lock_path = u.join("root/Veryl.lock");
    let mut repo_inited = vec![false; plan.n_repos];

    let mut last = std::time::Instant::now();
    let mut timing: Vec<Value> = vec![json!({"setup_ms": last.elapsed().as_millis() as u64})];
    for (i, ev) in plan.events.iter().enumerate() {
        if fatal.is_some() {
            break;
        }
        // diagnostics only (never decides anything)
        let now = std::time::Instant::now();
        if i > 0 {
            timing.push(json!({"event": i - 1, "ms": now.duration_since(last).as_millis() as u64}));
        }
        last = now;
        match ev {
            Event::Release { proj, version, decls, via_bump } => {
                let p = &plan.projects[*proj];
                let pdir = u.join(plan.owner_dir(Owner::Proj(*proj)));
                let rdir = u.join(format!("r{}", p.repo));
                let toml_path = pdir.join("Veryl.toml");
                let r = (|| -> Result<Value, String> {
                    if !rdir.join(".git").is_dir() {
                        return Err(format!("{} is not a repository root", rdir.display()));
                    }
                    if let Some(b) = via_bump {
                        let mut md = Metadata::load(&toml_path).map_err(|e| format!("load: {e}"))?;
                        let kind = match b {
                            Bump::Major => BumpKind::Major,
                            Bump::Minor => BumpKind::Minor,
                            Bump::Patch => BumpKind::Patch,
                        };
                        md.bump_version(kind).map_err(|e| format!("bump_version: {e}"))?;
                    } else {
                        let toml = plan.render_toml(&base, Owner::Proj(*proj), &p.name, version, &p.props, decls);
                        fs::write(&toml_path, toml).map_err(|e| e.to_string())?;
                        let mut files = vec![toml_path.clone()];
                        if !repo_inited[p.repo] {
                            let gi = rdir.join(".gitignore");
                            fs::write(&gi, "Veryl.lock\n.build/\n").map_err(|e| e.to_string())?;
                            files.push(gi);
                        }
                        commit_all(&rdir, &files, &format!("{} {}", p.name, version))?;
                        repo_inited[p.repo] = true;
                    }
                    let mut md = Metadata::load(&toml_path).map_err(|e| format!("load: {e}"))?;
                    let have = md.project.version.as_ref().map(|v| v.to_string()).unwrap_or_default();
                    if &have != version {
                        return Err(format!("version in Veryl.toml is {have}, planned {version}"));
                    }
                    md.publish().map_err(|e| format!("publish: {e}"))?;
                    let md = Metadata::load(&toml_path).map_err(|e| format!("reload: {e}"))?;
                    let last = md.pubfile.releases.last().ok_or("no release recorded")?;
                    if last.version.to_string() != *version {
                        return Err(format!("last release in Veryl.pub is {}", last.version));
                    }
                    Ok(json!({"event": i, "kind": "release", "revision": last.revision,
                              "pub_text": read_opt(&pdir.join("Veryl.pub"))}))
                })();
                match r {
                    Ok(v) => log.push(v),
                    Err(e) => fatal = Some(format!("event {i} (release): {e}")),
                }
            }
            Event::SetRoot { decls } => {
                let toml = plan.render_toml(&base, Owner::Root, "root", "0.1.0", &[], decls);
                if let Err(e) = fs::write(&root_toml, toml) {
                    fatal = Some(format!("event {i}: {e}"));
                }
                log.push(json!({"event": i, "kind": "set-root"}));
            }
            Event::SetLocal { local, decls } => {
                let l = &plan.locals[*local];
                let toml = plan.render_toml(&base, Owner::Local(*local), &l.name, "0.1.0", &l.props, decls);
                if let Err(e) = fs::write(u.join(&l.dir).join("Veryl.toml"), toml) {
                    fatal = Some(format!("event {i}: {e}"));
                }
                log.push(json!({"event": i, "kind": "set-local"}));
            }
            Event::DeleteLock => {
                let _ = fs::remove_file(&lock_path);
                log.push(json!({"event": i, "kind": "delete-lock"}));
            }
            Event::ClearCache => {
                let _ = fs::remove_dir_all(&cache);
                log.push(json!({"event": i, "kind": "clear-cache"}));
            }
            Event::Resolve { force, recheck_force, cli, cold_twin } => {
                let before = read_opt(&lock_path);
                let rt = u.join("root/.roundtrip.lock");
                let run = |force: bool| -> Value {
                    let (t, r) = (root_toml.clone(), rt.clone());
                    match in_fresh_thread(move || resolve_once(&t, force, &r)) {
                        Ok(v) => v,
                        Err(msg) => json!({"ok": false, "panic": msg}),
                    }
                };
                let t_a = std::time::Instant::now();
                let a = run(*force);
                let ms_a = t_a.elapsed().as_millis() as u64;
                let after_a = read_opt(&lock_path);
                // same state again
                match &before {
                    Some(t) => {
                        let _ = fs::write(&lock_path, t);
                    }
                    None => {
                        let _ = fs::remove_file(&lock_path);
                    }
                }
                if *cold_twin {
                    let _ = fs::remove_dir_all(&cache);
                }
                let t_b = std::time::Instant::now();
                let b = if *cli { resolve_cli(&u.join("root"), *force) } else { run(*force) };
                let ms_b = t_b.elapsed().as_millis() as u64;
                let after_b = read_opt(&lock_path);
                let t_c = std::time::Instant::now();
                let c = run(*recheck_force);
                let ms_c = t_c.elapsed().as_millis() as u64;
                let after_c = read_opt(&lock_path);
                log.push(json!({
                    "event": i, "kind": "resolve",
                    "a": a, "b": b, "c": c, "ms": [ms_a, ms_b, ms_c],
                    "lock_before": before, "lock_after_a": after_a,
                    "lock_after_b": after_b, "lock_after_c": after_c,
                }));
            }
        }
    }
    timing.push(json!({"event": plan.events.len().saturating_sub(1), "ms": last.elapsed().as_millis() as u64}));
    let out = json!({"fatal": fatal, "log": log, "timing": timing});
    if let Err(e) = fs::write(dir.join("log.json"), serde_json::to_string(&out).unwrap()) {
        eprintln!("worker: cannot write log: {e}");
        return 3;
    }
    0
}
