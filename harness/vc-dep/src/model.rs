//! Reference resolver and the oracles of C31, written from the property text:
//!
//! * for each dependency: the locked release if it still satisfies the
//!   requirement, otherwise the highest published release that does;
//! * save -> load gives the same lock table;
//! * updating a project whose declarations have not changed reports no modification;
//! * every resolved dependency gets a distinct project name;
//! * (title) resolution is deterministic: two runs from one state agree.
//!
//! "The locked release" of a dependency is read the weak way: the lock file
//! keeps one table per repository, so any release of the same project that is
//! locked there and satisfies the requirement is accepted.  (Where that
//! freedom makes the result change although nothing was edited, the
//! "no modification" clause decides.)

use crate::plan::{Decl, Owner, Plan, Prop, Target};
use semver::{Version, VersionReq};
use serde_json::Value;
use std::collections::{BTreeMap, BTreeSet};

pub type Fail = (String, String);

#[derive(Clone, Debug)]
pub struct Rel {
    pub version: Version,
    pub revision: String,
    pub decls: Vec<Decl>,
}

pub struct World<'a> {
    pub plan: &'a Plan,
    pub base: String,
    pub rels: Vec<Vec<Rel>>,
    pub root: Vec<Decl>,
    pub local_decls: Vec<Vec<Decl>>,
}

#[derive(Clone, Debug, PartialEq)]
pub struct PSource {
    pub is_path: bool,
    /// repository: the `git` text; path: the path text
    pub url: String,
    pub path: String,
    pub project: String,
    pub version: String,
    pub revision: String,
}

#[derive(Clone, Debug)]
pub struct PDep {
    pub name: String,
    pub source: PSource,
}

#[derive(Clone, Debug)]
pub struct PLock {
    pub name: String,
    pub source: PSource,
    pub props: BTreeMap<String, String>,
    pub deps: Vec<PDep>,
    pub visible: bool,
    pub group_key: String,
    pub key_of_source: String,
}

fn parse_source(v: &Value) -> Option<PSource> {
    if let Some(s) = v.as_str() {
        return Some(PSource {
            is_path: true,
            url: s.to_string(),
            path: String::new(),
            project: String::new(),
            version: String::new(),
            revision: String::new(),
        });
    }
    let o = v.as_object()?;
    Some(PSource {
        is_path: false,
        url: o.get("url")?.as_str()?.to_string(),
        path: o.get("path")?.as_str()?.to_string(),
        project: o.get("project")?.as_str()?.to_string(),
        version: o.get("version")?.as_str()?.to_string(),
        revision: o.get("revision")?.as_str()?.to_string(),
    })
}

pub fn parse_table(t: &Value) -> Result<Vec<PLock>, String> {
    let mut out = vec![];
    for g in t.as_array().ok_or("table is not an array")? {
        let key = g.get("key").and_then(|k| k.as_str()).ok_or("group without key")?.to_string();
        for l in g.get("locks").and_then(|l| l.as_array()).ok_or("group without locks")? {
            let source = parse_source(l.get("source").ok_or("lock without source")?)
                .ok_or_else(|| format!("unparsable source {}", l.get("source").unwrap()))?;
            let mut props = BTreeMap::new();
            if let Some(p) = l.get("properties").and_then(|p| p.as_object()) {
                for (k, v) in p {
                    props.insert(k.clone(), v.to_string());
                }
            }
            let mut deps = vec![];
            for d in l.get("dependencies").and_then(|d| d.as_array()).cloned().unwrap_or_default() {
                deps.push(PDep {
                    name: d.get("name").and_then(|n| n.as_str()).unwrap_or("").to_string(),
                    source: parse_source(d.get("source").ok_or("dependency without source")?)
                        .ok_or("unparsable dependency source")?,
                });
            }
            out.push(PLock {
                name: l.get("name").and_then(|n| n.as_str()).unwrap_or("").to_string(),
                source,
                props,
                deps,
                visible: l.get("visible").and_then(|b| b.as_bool()).unwrap_or(false),
                group_key: key.clone(),
                key_of_source: l.get("key_of_source").and_then(|n| n.as_str()).unwrap_or("").to_string(),
            });
        }
    }
    Ok(out)
}

fn props_text(p: &BTreeMap<String, String>) -> String {
    p.iter().map(|(k, v)| format!("{k}={v};")).collect()
}

/// what makes two locks "the same dependency": location, revision, properties
pub fn identity(s: &PSource, props: &BTreeMap<String, String>) -> String {
    if s.is_path {
        format!("P|{}|{}", s.url, props_text(props))
    } else {
        format!("R|{}|{}|{}|{}", s.url, s.path, s.revision, props_text(props))
    }
}

pub fn lock_identity(l: &PLock) -> String {
    identity(&l.source, &l.props)
}

pub fn identities(t: &[PLock]) -> BTreeSet<String> {
    t.iter().map(lock_identity).collect()
}

#[derive(Clone, Debug, PartialEq, Eq, PartialOrd, Ord)]
pub enum Node {
    Repo { proj: usize, rel: usize, url: String },
    Local { local: usize, text: String },
}

#[derive(Default, Debug)]
pub struct Shape {
    pub classes: BTreeSet<String>,
    pub diamond: bool,
    pub alias: bool,
    /// some declaration had several locked releases to choose from
    pub ambiguous: bool,
}

impl<'a> World<'a> {
    fn prop_map(defaults: &[(String, Prop)], over: &[(String, Prop)]) -> BTreeMap<String, String> {
        let mut m = BTreeMap::new();
        for (k, v) in defaults {
            m.insert(k.clone(), v.toml());
        }
        for (k, v) in over {
            m.insert(k.clone(), v.toml());
        }
        m
    }

    fn expected_props(&self, d: &Decl) -> BTreeMap<String, String> {
        match &d.target {
            Target::Git { proj, .. } => Self::prop_map(&self.plan.projects[*proj].props, &d.props),
            Target::Path { local, .. } => Self::prop_map(&self.plan.locals[*local].props, &d.props),
        }
    }

    fn decls_of(&self, n: &Node) -> (Owner, &[Decl]) {
        match n {
            Node::Repo { proj, rel, .. } => (Owner::Proj(*proj), &self.rels[*proj][*rel].decls),
            Node::Local { local, .. } => (Owner::Local(*local), &self.local_decls[*local]),
        }
    }

    fn rel_source(&self, proj: usize, rel: usize, url: &str) -> PSource {
        let r = &self.rels[proj][rel];
        PSource {
            is_path: false,
            url: url.to_string(),
            path: self.plan.projects[proj].subdir.clone(),
            project: self.plan.projects[proj].name.clone(),
            version: r.version.to_string(),
            revision: r.revision.clone(),
        }
    }

    fn node_source(&self, n: &Node) -> PSource {
        match n {
            Node::Repo { proj, rel, url } => self.rel_source(*proj, *rel, url),
            Node::Local { text, .. } => PSource {
                is_path: true,
                url: text.clone(),
                path: String::new(),
                project: String::new(),
                version: String::new(),
                revision: String::new(),
            },
        }
    }

    /// The releases the property allows for a git declaration: the locked
    /// releases of that project that satisfy the requirement (not under
    /// `veryl update`), otherwise the highest published one that does.
    /// `Ok((allowed release indices, came_from_lock))`; `Err(())` = none.
    fn allowed(&self, owner: Owner, d: &Decl, t0: &[PLock], force: bool) -> Result<(Vec<usize>, bool), ()> {
        let Target::Git { proj, spelling } = &d.target else { unreachable!() };
        let url = self.plan.git_url(&self.base, owner, *proj, *spelling);
        let pname = &self.plan.projects[*proj].name;
        let Ok(req) = VersionReq::parse(&d.req) else { return Err(()) };
        if !force {
            let mut locked = vec![];
            for l in t0 {
                if l.source.is_path || l.source.url != url || &l.source.project != pname {
                    continue;
                }
                let Ok(ver) = Version::parse(&l.source.version) else { continue };
                if !req.matches(&ver) {
                    continue;
                }
                if let Some(i) = self.rels[*proj]
                    .iter()
                    .position(|r| r.revision == l.source.revision && r.version == ver)
                {
                    if !locked.contains(&i) {
                        locked.push(i);
                    }
                }
            }
            if !locked.is_empty() {
                return Ok((locked, true));
            }
        }
        let mut best: Option<usize> = None;
        for (i, r) in self.rels[*proj].iter().enumerate() {
            if req.matches(&r.version) && best.map(|b| self.rels[*proj][b].version < r.version).unwrap_or(true) {
                best = Some(i);
            }
        }
        match best {
            Some(b) => Ok((vec![b], false)),
            None => Err(()),
        }
    }

    fn node_of_source(&self, s: &PSource) -> Option<Node> {
        if s.is_path {
            for (k, _) in self.plan.locals.iter().enumerate() {
                for abs in [false, true] {
                    if self.plan.path_lock_text(&self.base, k, abs) == s.url {
                        return Some(Node::Local { local: k, text: s.url.clone() });
                    }
                }
            }
            return None;
        }
        for (p, pr) in self.plan.projects.iter().enumerate() {
            if pr.name != s.project {
                continue;
            }
            if let Some(i) = self.rels[p]
                .iter()
                .position(|r| r.revision == s.revision && r.version.to_string() == s.version)
            {
                return Some(Node::Repo { proj: p, rel: i, url: s.url.clone() });
            }
        }
        None
    }

    /// does the source picked for declaration `d` obey the property?
    fn check_pick(&self, owner: Owner, d: &Decl, s: &PSource, t0: &[PLock], force: bool, shape: &mut Shape) -> Result<(), Fail> {
        let ctx = format!("declaration `{}` of {:?}", self.plan.render_decl("$U", owner, d), owner);
        match &d.target {
            Target::Path { local, abs } => {
                let want = self.plan.path_lock_text(&self.base, *local, *abs);
                if !s.is_path || s.url != want {
                    return Err((
                        "path-dependency-source".into(),
                        format!("{ctx}: expected path source {want:?}, table has {s:?}"),
                    ));
                }
                shape.classes.insert("path-dep".into());
                if self.plan.locals[*local].dir.contains('/') {
                    shape.classes.insert("path-dep:nested".into());
                }
                if *abs {
                    shape.classes.insert("path-dep:absolute".into());
                }
                if d.name != self.plan.locals[*local].name {
                    shape.alias = true;
                    shape.classes.insert("alias:path".into());
                }
                Ok(())
            }
            Target::Git { proj, spelling } => {
                let url = self.plan.git_url(&self.base, owner, *proj, *spelling);
                let pr = &self.plan.projects[*proj];
                if s.is_path || s.url != url || s.project != pr.name || s.path != pr.subdir {
                    return Err((
                        "git-dependency-source".into(),
                        format!("{ctx}: expected {} @ {url} (dir {:?}), table has {s:?}", pr.name, pr.subdir),
                    ));
                }
                let req = VersionReq::parse(&d.req).map_err(|e| ("harness:req".to_string(), e.to_string()))?;
                let ver = Version::parse(&s.version).map_err(|e| ("harness:version".to_string(), e.to_string()))?;
                let published: Vec<String> = self.rels[*proj].iter().map(|r| r.version.to_string()).collect();
                if !req.matches(&ver) {
                    return Err((
                        "picked-release-does-not-satisfy".into(),
                        format!("{ctx}: picked {ver}, which does not satisfy {:?}; published {published:?}", d.req),
                    ));
                }
                let Some(idx) = self.rels[*proj].iter().position(|r| r.revision == s.revision && r.version == ver)
                else {
                    return Err((
                        "picked-release-not-published".into(),
                        format!("{ctx}: picked {ver} @ {} which is not a published release; published {published:?}", s.revision),
                    ));
                };
                let allowed = self.allowed(owner, d, t0, force);
                let (set, from_lock) = match &allowed {
                    Ok(x) => x.clone(),
                    Err(()) => (vec![], false),
                };
                if from_lock && set.len() >= 2 {
                    shape.ambiguous = true;
                    shape.classes.insert("several locked releases satisfy one requirement".into());
                }
                if !set.contains(&idx) {
                    let names: Vec<String> = set.iter().map(|i| self.rels[*proj][*i].version.to_string()).collect();
                    let sig = if from_lock { "locked-release-not-kept" } else { "not-the-highest-release" };
                    return Err((
                        sig.into(),
                        format!(
                            "{ctx}: picked {ver}; {} {names:?}; published {published:?}; update={force}",
                            if from_lock { "locked releases that still satisfy:" } else { "nothing usable is locked, highest satisfying is" }
                        ),
                    ));
                }
                // classes
                shape.classes.insert(crate::plan::req_kind(&d.req).into());
                if !ver.pre.is_empty() {
                    shape.classes.insert("picked:pre-release".into());
                }
                if d.name != pr.name {
                    shape.alias = true;
                    shape.classes.insert("alias".into());
                }
                if !pr.subdir.is_empty() {
                    shape.classes.insert("inner-project".into());
                }
                match spelling {
                    crate::plan::Spelling::FileUrl => {}
                    crate::plan::Spelling::AbsPath => {
                        shape.classes.insert("git-as:abs-path".into());
                    }
                    crate::plan::Spelling::RelPath => {
                        shape.classes.insert("git-as:rel-path".into());
                    }
                }
                if !d.props.is_empty() {
                    shape.classes.insert("props-override".into());
                }
                if from_lock {
                    let newer = self.rels[*proj].iter().any(|r| req.matches(&r.version) && r.version > ver);
                    shape.classes.insert(if newer { "pick:locked-kept-though-newer-exists".into() } else { "pick:locked-kept".into() });
                } else {
                    shape.classes.insert("pick:highest".into());
                    let higher_unsat = self.rels[*proj].iter().any(|r| r.version > ver);
                    if higher_unsat {
                        shape.classes.insert("pick:highest-below-newer-unsatisfying".into());
                    }
                }
                Ok(())
            }
        }
    }

    /// Decide a table the code produced (`t1`) from the lock table it started
    /// with (`t0`, empty when there was no lock file).
    pub fn validate(&self, t0: &[PLock], t1: &[PLock], force: bool, shape: &mut Shape) -> Result<(), Fail> {
        // distinct names
        let mut names = BTreeSet::new();
        for l in t1 {
            if !names.insert(l.name.clone()) {
                return Err((
                    "lock-name-collision".into(),
                    format!("two resolved dependencies are called {:?}: {}", l.name, show_table(t1)),
                ));
            }
            if l.group_key != l.key_of_source {
                return Err((
                    "table-key-mismatch".into(),
                    format!("lock {} filed under {:?} but its source says {:?}", l.name, l.group_key, l.key_of_source),
                ));
            }
        }
        let mut ids = BTreeMap::new();
        for l in t1 {
            if let Some(other) = ids.insert(lock_identity(l), l.name.clone()) {
                return Err((
                    "duplicate-lock-identity".into(),
                    format!("locks {other:?} and {:?} are the same dependency: {}", l.name, show_table(t1)),
                ));
            }
        }
        let find_ident = |id: &str| t1.iter().position(|l| lock_identity(l) == id);
        let mut reached: BTreeSet<usize> = BTreeSet::new();
        let mut routes: BTreeMap<usize, usize> = BTreeMap::new();
        let mut queue: Vec<usize> = vec![];
        for d in &self.root {
            let Some(i) = t1.iter().position(|l| l.name == d.name) else {
                return Err((
                    "root-dependency-not-in-table".into(),
                    format!("no lock named {:?}: {}", d.name, show_table(t1)),
                ));
            };
            let l = &t1[i];
            self.check_pick(Owner::Root, d, &l.source, t0, force, shape)?;
            let want = self.expected_props(d);
            if l.props != want {
                return Err((
                    "properties-mismatch".into(),
                    format!("lock {:?}: properties {:?}, expected {want:?}", l.name, l.props),
                ));
            }
            if !l.visible {
                return Err(("visible-flag".into(), format!("direct dependency {:?} is not visible", l.name)));
            }
            *routes.entry(i).or_insert(0) += 1;
            if reached.insert(i) {
                queue.push(i);
            }
        }
        let root_count = reached.len();
        let mut qi = 0;
        while qi < queue.len() {
            let i = queue[qi];
            qi += 1;
            let l = &t1[i];
            let Some(node) = self.node_of_source(&l.source) else {
                return Err((
                    "lock-of-unknown-release".into(),
                    format!("lock {:?} has a source that is no published release / known path: {:?}", l.name, l.source),
                ));
            };
            let (owner, decls) = self.decls_of(&node);
            let want_names: BTreeSet<&str> = decls.iter().map(|d| d.name.as_str()).collect();
            let have_names: BTreeSet<&str> = l.deps.iter().map(|d| d.name.as_str()).collect();
            if want_names != have_names || l.deps.len() != decls.len() {
                return Err((
                    "lock-dependencies-mismatch".into(),
                    format!("lock {:?} ({:?}) lists dependencies {have_names:?}, the release declares {want_names:?}", l.name, l.source),
                ));
            }
            for d in decls {
                let e = l.deps.iter().find(|e| e.name == d.name).unwrap();
                self.check_pick(owner, d, &e.source, t0, force, shape)?;
                let id = identity(&e.source, &self.expected_props(d));
                let Some(j) = find_ident(&id) else {
                    return Err((
                        "dependency-without-lock".into(),
                        format!("lock {:?} depends on {:?} = {:?} but the table has no such lock ({id}): {}", l.name, d.name, e.source, show_table(t1)),
                    ));
                };
                *routes.entry(j).or_insert(0) += 1;
                if reached.insert(j) {
                    queue.push(j);
                }
            }
        }
        for (i, l) in t1.iter().enumerate() {
            if !reached.contains(&i) {
                return Err((
                    "unreachable-lock-in-table".into(),
                    format!("lock {:?} ({:?}) is not required by any declaration: {}", l.name, l.source, show_table(t1)),
                ));
            }
        }
        // transitive locks are not visible
        let root_names: BTreeSet<&str> = self.root.iter().map(|d| d.name.as_str()).collect();
        for l in t1 {
            if !root_names.contains(l.name.as_str()) && l.visible {
                return Err(("visible-flag".into(), format!("transitive dependency {:?} is visible", l.name)));
            }
        }
        // shape classes
        if routes.values().any(|&n| n >= 2) {
            shape.diamond = true;
            shape.classes.insert("diamond:compatible (one lock, several routes)".into());
        }
        let mut per_proj: BTreeMap<(String, String), BTreeSet<String>> = BTreeMap::new();
        for l in t1 {
            if !l.source.is_path {
                per_proj
                    .entry((l.source.url.clone(), l.source.project.clone()))
                    .or_default()
                    .insert(l.source.revision.clone());
            }
        }
        if per_proj.values().any(|s| s.len() >= 2) {
            shape.diamond = true;
            shape.classes.insert("diamond:incompatible (several releases of one project)".into());
        }
        let mut per_rev: BTreeMap<(String, String), usize> = BTreeMap::new();
        for l in t1 {
            if !l.source.is_path {
                *per_rev.entry((l.source.url.clone(), l.source.revision.clone() + &l.source.path)).or_insert(0) += 1;
            }
        }
        if per_rev.values().any(|&n| n >= 2) {
            shape.classes.insert("one-release-twice (different properties)".into());
        }
        let decl_names: BTreeSet<String> = {
            let mut s = BTreeSet::new();
            for l in t1 {
                for d in &l.deps {
                    s.insert(d.name.clone());
                }
            }
            for d in &self.root {
                s.insert(d.name.clone());
            }
            s
        };
        if t1.iter().any(|l| !decl_names.contains(&l.name)) {
            shape.classes.insert("name:suffixed".into());
        }
        if t1.len() > root_count {
            shape.classes.insert("transitive".into());
        }
        shape.classes.insert(format!("locks:{}", match t1.len() { 0 => "0", 1..=2 => "1-2", 3..=5 => "3-5", _ => "6+" }));
        Ok(())
    }

    /// Which errors the property allows: explores every way of choosing among
    /// several locked releases.  Returns (error kinds that can happen, whether
    /// some way succeeds, exploration complete).
    pub fn possible_errors(&self, t0: &[PLock], force: bool) -> (BTreeSet<&'static str>, bool, bool, bool) {
        let mut kinds = BTreeSet::new();
        let mut some_ok = false;
        let mut had_choice = false;
        let mut script: Vec<usize> = vec![];
        let mut runs = 0;
        loop {
            runs += 1;
            let mut widths: Vec<usize> = vec![];
            let mut errs: BTreeSet<&'static str> = BTreeSet::new();
            let mut pos = 0usize;
            let mut choose = |n: usize, script: &Vec<usize>, widths: &mut Vec<usize>| -> usize {
                let c = if pos < script.len() { script[pos] } else { 0 };
                widths.push(n);
                pos += 1;
                c.min(n - 1)
            };
            let mut seen: BTreeSet<String> = BTreeSet::new();
            let mut queue: Vec<Node> = vec![];
            let mut root_ids: BTreeSet<String> = BTreeSet::new();
            let mut resolve = |owner: Owner, d: &Decl, errs: &mut BTreeSet<&'static str>, widths: &mut Vec<usize>| -> Option<(Node, String)> {
                match &d.target {
                    Target::Path { local, abs } => {
                        let text = self.plan.path_lock_text(&self.base, *local, *abs);
                        let n = Node::Local { local: *local, text };
                        let id = identity(&self.node_source(&n), &self.expected_props(d));
                        Some((n, id))
                    }
                    Target::Git { proj, spelling } => match self.allowed(owner, d, t0, force) {
                        Err(()) => {
                            errs.insert("VersionNotFound");
                            None
                        }
                        Ok((set, _)) => {
                            let c = if set.len() > 1 { choose(set.len(), &script, widths) } else { 0 };
                            let url = self.plan.git_url(&self.base, owner, *proj, *spelling);
                            let n = Node::Repo { proj: *proj, rel: set[c], url };
                            let id = identity(&self.node_source(&n), &self.expected_props(d));
                            Some((n, id))
                        }
                    },
                }
            };
            for d in &self.root {
                if let Some((n, id)) = resolve(Owner::Root, d, &mut errs, &mut widths) {
                    if !root_ids.insert(id.clone()) {
                        errs.insert("InvalidDependency");
                    } else if seen.insert(id) {
                        queue.push(n);
                    }
                }
            }
            let mut qi = 0;
            while qi < queue.len() {
                let n = queue[qi].clone();
                qi += 1;
                let (owner, decls) = self.decls_of(&n);
                for d in decls {
                    if let Some((m, id)) = resolve(owner, d, &mut errs, &mut widths) {
                        if seen.insert(id) {
                            queue.push(m);
                        }
                    }
                }
            }
            if errs.is_empty() {
                some_ok = true;
            }
            if !widths.is_empty() {
                had_choice = true;
            }
            kinds.extend(errs);
            // next script (odometer)
            let mut next: Vec<usize> = (0..widths.len()).map(|i| script.get(i).copied().unwrap_or(0).min(widths[i] - 1)).collect();
            let mut k = next.len();
            let mut advanced = false;
            while k > 0 {
                k -= 1;
                if next[k] + 1 < widths[k] {
                    next[k] += 1;
                    next.truncate(k + 1);
                    advanced = true;
                    break;
                }
            }
            if !advanced {
                return (kinds, some_ok, true, had_choice);
            }
            if runs >= 300 {
                return (kinds, some_ok, false, had_choice);
            }
            script = next;
        }
    }
}

pub fn show_table(t: &[PLock]) -> String {
    let mut s = String::from("[");
    for l in t {
        if l.source.is_path {
            s.push_str(&format!("{}=path:{}{{{}}} ", l.name, l.source.url, props_text(&l.props)));
        } else {
            s.push_str(&format!(
                "{}={}@{}:{}{{{}}}->({}) ",
                l.name,
                l.source.project,
                l.source.url.rsplit('/').next().unwrap_or(""),
                l.source.version,
                props_text(&l.props),
                l.deps
                    .iter()
                    .map(|d| format!("{}:{}", d.name, if d.source.is_path { d.source.url.clone() } else { d.source.version.clone() }))
                    .collect::<Vec<_>>()
                    .join(",")
            ));
        }
    }
    s.push(']');
    s
}

/// the lock as comparable data without its table name / with sorted dependencies
fn canon_lock(l: &PLock, with_name: bool, sort_deps: bool) -> String {
    let mut deps: Vec<String> = l.deps.iter().map(|d| format!("{}>{:?}", d.name, d.source)).collect();
    if sort_deps {
        deps.sort();
    }
    format!(
        "{}|{}|{:?}|{}|vis={}|{}",
        lock_identity(l),
        if with_name { l.name.as_str() } else { "" },
        l.source,
        props_text(&l.props),
        l.visible,
        deps.join(",")
    )
}

pub fn canon_table(t: &[PLock], with_name: bool, sort_deps: bool) -> Vec<String> {
    let mut v: Vec<String> = t.iter().map(|l| canon_lock(l, with_name, sort_deps)).collect();
    v.sort();
    v
}

/// save -> load: same groups, same locks (order among locks the table's own
/// ordering does not distinguish is free)
pub fn compare_roundtrip(t1: &Value, t2: &Value) -> Result<bool, Fail> {
    let a = t1.as_array().cloned().unwrap_or_default();
    let b = t2.as_array().cloned().unwrap_or_default();
    let keys = |x: &Vec<Value>| -> Vec<String> {
        x.iter().map(|g| g.get("key").and_then(|k| k.as_str()).unwrap_or("").to_string()).collect()
    };
    if keys(&a) != keys(&b) {
        return Err((
            "save-load-table-differs".into(),
            format!("lock table keys before save {:?}, after load {:?}", keys(&a), keys(&b)),
        ));
    }
    let mut same_order = true;
    for (ga, gb) in a.iter().zip(b.iter()) {
        let la = ga.get("locks").and_then(|l| l.as_array()).cloned().unwrap_or_default();
        let lb = gb.get("locks").and_then(|l| l.as_array()).cloned().unwrap_or_default();
        let mut sa: Vec<String> = la.iter().map(|v| v.to_string()).collect();
        let mut sb: Vec<String> = lb.iter().map(|v| v.to_string()).collect();
        if sa != sb {
            same_order = false;
        }
        sa.sort();
        sb.sort();
        if sa != sb {
            let only_a: Vec<&String> = sa.iter().filter(|x| !sb.contains(x)).collect();
            let only_b: Vec<&String> = sb.iter().filter(|x| !sa.contains(x)).collect();
            return Err((
                "save-load-table-differs".into(),
                format!(
                    "group {}: only before save: {only_a:?}; only after load: {only_b:?}",
                    ga.get("key").map(|k| k.to_string()).unwrap_or_default()
                ),
            ));
        }
    }
    Ok(same_order)
}
