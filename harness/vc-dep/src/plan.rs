//! The generated case of C31: a universe of local git repositories with
//! release histories, local (path) projects, a root project and a history of
//! events (publish a release, edit declarations, resolve, ...).
//!
//! A `Plan` is pure data produced from the `Draw` choice sequence only.  The
//! worker process (`worker.rs`) materialises it on disk through the real
//! veryl-metadata API, the parent decides the observations with the reference
//! resolver in `model.rs`.

use semver::{BuildMetadata, Prerelease, Version, VersionReq};
use serde::{Deserialize, Serialize};
use vcore::Draw;

#[derive(Clone, Debug, Serialize, Deserialize, PartialEq)]
pub enum Prop {
    Int(i64),
    Bool(bool),
}

impl Prop {
    pub fn toml(&self) -> String {
        match self {
            Prop::Int(x) => x.to_string(),
            Prop::Bool(x) => x.to_string(),
        }
    }
}

#[derive(Clone, Copy, Debug, Serialize, Deserialize, PartialEq)]
pub enum Spelling {
    /// `git = "file:///abs/r0"`
    FileUrl,
    /// `git = "/abs/r0"`
    AbsPath,
    /// `git = "../r0"` (root project only: the code resolves it against the root)
    RelPath,
}

#[derive(Clone, Debug, Serialize, Deserialize, PartialEq)]
pub enum Target {
    Git { proj: usize, spelling: Spelling },
    Path { local: usize, abs: bool },
}

#[derive(Clone, Debug, Serialize, Deserialize, PartialEq)]
pub struct Decl {
    /// key in `[dependencies]`
    pub name: String,
    pub target: Target,
    /// version requirement text (git targets only)
    pub req: String,
    /// write `project = "<name of the target project>"` (always when `name` differs)
    pub explicit_project: bool,
    pub props: Vec<(String, Prop)>,
}

#[derive(Clone, Debug, Serialize, Deserialize)]
pub struct Proj {
    pub name: String,
    pub repo: usize,
    /// "" = repository root, else a sub-directory (several projects in one repository)
    pub subdir: String,
    /// `[properties]` defaults
    pub props: Vec<(String, Prop)>,
}

#[derive(Clone, Debug, Serialize, Deserialize)]
pub struct Local {
    pub name: String,
    /// directory relative to the universe root, e.g. "l0" or "l0/n1"
    pub dir: String,
    pub props: Vec<(String, Prop)>,
}

#[derive(Clone, Copy, Debug, Serialize, Deserialize, PartialEq)]
pub enum Bump {
    Major,
    Minor,
    Patch,
}

#[derive(Clone, Debug, Serialize, Deserialize)]
pub enum Event {
    /// write Veryl.toml (version, declarations), commit, `Metadata::publish()`
    Release {
        proj: usize,
        version: String,
        decls: Vec<Decl>,
        /// use `Metadata::bump_version` instead of rewriting Veryl.toml
        via_bump: Option<Bump>,
    },
    SetRoot {
        decls: Vec<Decl>,
    },
    SetLocal {
        local: usize,
        decls: Vec<Decl>,
    },
    /// run A, restore Veryl.lock, run B (same state), run C (no restore)
    Resolve {
        /// `veryl update` (force) instead of the build-time `update_lockfile`
        force: bool,
        recheck_force: bool,
        /// run B through the real command line binary
        cli: bool,
        /// run B with an emptied dependency cache
        cold_twin: bool,
    },
    DeleteLock,
    ClearCache,
}

#[derive(Clone, Debug, Serialize, Deserialize)]
pub struct Plan {
    pub n_repos: usize,
    pub projects: Vec<Proj>,
    pub locals: Vec<Local>,
    pub events: Vec<Event>,
    /// compare run A / run B strictly (names, order, text); otherwise the
    /// listed findings about hash-order dependence are excluded and counted
    pub strict_det: bool,
    /// `VERYL_GIT_BACKEND=command` for the whole case
    pub command_backend: bool,
}

#[derive(Clone, Copy, Debug, PartialEq)]
pub enum Owner {
    Root,
    Local(usize),
    Proj(usize),
}

/// relative path from directory `from` to `to` (both relative to one base, no `..` inside)
pub fn rel_path(from: &str, to: &str) -> String {
    let f: Vec<&str> = from.split('/').filter(|s| !s.is_empty()).collect();
    let t: Vec<&str> = to.split('/').filter(|s| !s.is_empty()).collect();
    let mut i = 0;
    while i < f.len() && i < t.len() && f[i] == t[i] {
        i += 1;
    }
    let mut parts: Vec<String> = vec![];
    for _ in i..f.len() {
        parts.push("..".into());
    }
    for s in &t[i..] {
        parts.push(s.to_string());
    }
    if parts.is_empty() { ".".into() } else { parts.join("/") }
}

impl Plan {
    pub fn owner_dir(&self, owner: Owner) -> String {
        match owner {
            Owner::Root => "root".into(),
            Owner::Local(k) => self.locals[k].dir.clone(),
            Owner::Proj(p) => {
                let pr = &self.projects[p];
                if pr.subdir.is_empty() {
                    format!("r{}", pr.repo)
                } else {
                    format!("r{}/{}", pr.repo, pr.subdir)
                }
            }
        }
    }

    /// the `git = "..."` text of a declaration, which is also the key of the lock table
    pub fn git_url(&self, base: &str, owner: Owner, proj: usize, spelling: Spelling) -> String {
        let repo = self.projects[proj].repo;
        match spelling {
            Spelling::FileUrl => format!("file://{base}/r{repo}"),
            Spelling::AbsPath => format!("{base}/r{repo}"),
            Spelling::RelPath => rel_path(&self.owner_dir(owner), &format!("r{repo}")),
        }
    }

    /// the `path = "..."` text of a path declaration
    pub fn path_text(&self, base: &str, owner: Owner, local: usize, abs: bool) -> String {
        if abs {
            format!("{base}/{}", self.locals[local].dir)
        } else {
            rel_path(&self.owner_dir(owner), &self.locals[local].dir)
        }
    }

    /// what `LockSource::Path` holds for that declaration: an absolute path as
    /// written, a relative one re-expressed relative to the root project
    pub fn path_lock_text(&self, base: &str, local: usize, abs: bool) -> String {
        if abs {
            format!("{base}/{}", self.locals[local].dir)
        } else {
            rel_path("root", &self.locals[local].dir)
        }
    }

    pub fn render_decl(&self, base: &str, owner: Owner, d: &Decl) -> String {
        let mut fields: Vec<String> = vec![];
        match &d.target {
            Target::Git { proj, spelling } => {
                fields.push(format!("git = \"{}\"", self.git_url(base, owner, *proj, *spelling)));
                fields.push(format!("version = \"{}\"", d.req));
                if d.explicit_project || d.name != self.projects[*proj].name {
                    fields.push(format!("project = \"{}\"", self.projects[*proj].name));
                }
            }
            Target::Path { local, abs } => {
                fields.push(format!("path = \"{}\"", self.path_text(base, owner, *local, *abs)));
            }
        }
        if !d.props.is_empty() {
            let ps: Vec<String> = d.props.iter().map(|(k, v)| format!("{k} = {}", v.toml())).collect();
            fields.push(format!("properties = {{{}}}", ps.join(", ")));
        }
        format!("{} = {{{}}}", d.name, fields.join(", "))
    }

    pub fn render_toml(
        &self,
        base: &str,
        owner: Owner,
        name: &str,
        version: &str,
        props: &[(String, Prop)],
        decls: &[Decl],
    ) -> String {
        let mut s = String::new();
        s.push_str(&format!("[project]\nname = \"{name}\"\nversion = \"{version}\"\n"));
        if !matches!(owner, Owner::Root) {
            s.push_str("\n[publish]\nbump_commit = true\npublish_commit = true\n");
        }
        if !props.is_empty() {
            s.push_str("\n[properties]\n");
            for (k, v) in props {
                s.push_str(&format!("{k} = {}\n", v.toml()));
            }
        }
        if !decls.is_empty() {
            s.push_str("\n[dependencies]\n");
            for d in decls {
                s.push_str(&self.render_decl(base, owner, d));
                s.push('\n');
            }
        }
        s
    }

    /// compact text of the whole case (evidence samples, failure messages)
    pub fn describe(&self) -> String {
        let base = "$U";
        let mut s = String::new();
        s.push_str(&format!(
            "repos={} projects=[{}] locals=[{}] strict_det={} backend={}\n",
            self.n_repos,
            self.projects
                .iter()
                .map(|p| format!(
                    "{}@r{}{}{}",
                    p.name,
                    p.repo,
                    if p.subdir.is_empty() { String::new() } else { format!("/{}", p.subdir) },
                    if p.props.is_empty() {
                        String::new()
                    } else {
                        format!("{:?}", p.props.iter().map(|(k, v)| format!("{k}={}", v.toml())).collect::<Vec<_>>())
                    }
                ))
                .collect::<Vec<_>>()
                .join(", "),
            self.locals.iter().map(|l| format!("{}@{}", l.name, l.dir)).collect::<Vec<_>>().join(", "),
            self.strict_det,
            if self.command_backend { "command" } else { "gitoxide" },
        ));
        for (i, e) in self.events.iter().enumerate() {
            match e {
                Event::Release { proj, version, decls, via_bump } => {
                    s.push_str(&format!(
                        "{i}: release {} {}{} deps[{}]\n",
                        self.projects[*proj].name,
                        version,
                        via_bump.map(|b| format!(" (bump {b:?})")).unwrap_or_default(),
                        decls.iter().map(|d| self.render_decl(base, Owner::Proj(*proj), d)).collect::<Vec<_>>().join("; ")
                    ));
                }
                Event::SetRoot { decls } => {
                    s.push_str(&format!(
                        "{i}: root deps[{}]\n",
                        decls.iter().map(|d| self.render_decl(base, Owner::Root, d)).collect::<Vec<_>>().join("; ")
                    ));
                }
                Event::SetLocal { local, decls } => {
                    s.push_str(&format!(
                        "{i}: local {} deps[{}]\n",
                        self.locals[*local].name,
                        decls.iter().map(|d| self.render_decl(base, Owner::Local(*local), d)).collect::<Vec<_>>().join("; ")
                    ));
                }
                Event::Resolve { force, recheck_force, cli, cold_twin } => {
                    s.push_str(&format!(
                        "{i}: resolve{}{}{}{}\n",
                        if *force { " --update" } else { "" },
                        if *recheck_force { " recheck=update" } else { "" },
                        if *cli { " twin=cli" } else { "" },
                        if *cold_twin { " twin=cold-cache" } else { "" }
                    ));
                }
                Event::DeleteLock => s.push_str(&format!("{i}: delete Veryl.lock\n")),
                Event::ClearCache => s.push_str(&format!("{i}: clear dependency cache\n")),
            }
        }
        s
    }
}

// ---------------------------------------------------------------------------
// generator
// ---------------------------------------------------------------------------

struct Gen<'a> {
    d: &'a mut Draw,
    plan: Plan,
    /// published versions per project, in publication order
    vers: Vec<Vec<Version>>,
    /// declarations of the last release per project
    cur_decls: Vec<Vec<Decl>>,
    /// version currently written in the project's Veryl.toml
    cur_ver: Vec<Option<Version>>,
    root: Vec<Decl>,
    local_decls: Vec<Vec<Decl>>,
    thorough: bool,
}

fn v(major: u64, minor: u64, patch: u64) -> Version {
    Version::new(major, minor, patch)
}

fn core(x: &Version) -> Version {
    v(x.major, x.minor, x.patch)
}

pub fn req_kind(req: &str) -> &'static str {
    let r = req.trim();
    if r.contains(',') {
        "req:multi"
    } else if r == "*" || r.contains(".*") {
        "req:wildcard"
    } else if r.starts_with('^') {
        "req:caret"
    } else if r.starts_with('~') {
        "req:tilde"
    } else if r.starts_with(">=") {
        "req:ge"
    } else if r.starts_with("<=") {
        "req:le"
    } else if r.starts_with('=') {
        "req:exact"
    } else if r.starts_with('>') {
        "req:gt"
    } else if r.starts_with('<') {
        "req:lt"
    } else {
        "req:bare"
    }
}

impl<'a> Gen<'a> {
    fn max_ver(&self, p: usize) -> Option<Version> {
        self.vers[p].iter().max().cloned()
    }

    /// a version requirement against the published versions of project `p`
    fn gen_req(&mut self, p: usize, must_sat: bool) -> String {
        let vs = self.vers[p].clone();
        for _try in 0..6 {
            let base = if vs.is_empty() {
                v(0, 1, 0)
            } else {
                match self.d.weighted(&[5, 4, 1]) {
                    0 => vs.iter().max().unwrap().clone(),
                    1 => vs[self.d.below_usize(vs.len())].clone(),
                    _ => {
                        // something that is not published
                        let m = vs.iter().max().unwrap();
                        if self.d.bool() { v(m.major + 1, 0, 0) } else { v(m.major, m.minor + 1, 7) }
                    }
                }
            };
            let (ma, mi, pa) = (base.major, base.minor, base.patch);
            let has_pre = !base.pre.is_empty();
            let op = self.d.weighted(&[8, 6, 6, 4, 4, 6, 6, 4, 3, 3, 2, 3, 2, 4, 3, 3]);
            let text = match op {
                0 => format!("{ma}.{mi}.{pa}"),
                1 => format!("^{ma}.{mi}"),
                2 => format!("^{ma}"),
                3 => format!("~{ma}.{mi}.{pa}"),
                4 => format!("~{ma}.{mi}"),
                5 => format!("={ma}.{mi}.{pa}"),
                6 => format!(">={ma}.{mi}.{pa}"),
                7 => format!("{ma}.*"),
                8 => format!("{ma}.{mi}.*"),
                9 => "*".to_string(),
                10 => format!(">{ma}.{mi}.{pa}"),
                11 => format!("<{}.{}.{}", ma, mi, pa + 1),
                12 => format!("<={ma}.{mi}.{pa}"),
                13 => {
                    if self.d.bool() {
                        format!(">={ma}.{mi}.{pa}, <{}.0.0", ma + 1)
                    } else {
                        format!(">={ma}.{mi}, <{}.{}.{}", ma + 2, mi, pa)
                    }
                }
                14 => {
                    if has_pre {
                        format!("={base}")
                    } else {
                        format!("={ma}.{mi}")
                    }
                }
                _ => {
                    if has_pre {
                        let c = core(&base);
                        if self.d.bool() { format!("^{c}-{}", base.pre) } else { format!(">={c}-{}", base.pre) }
                    } else {
                        format!(">={ma}.{mi}.{pa}-alpha")
                    }
                }
            };
            let Ok(req) = VersionReq::parse(&text) else { continue };
            if !must_sat || vs.iter().any(|x| req.matches(x)) {
                return text;
            }
        }
        // fall back to an exact requirement on a published version
        if let Some(m) = vs.first() {
            let mut m = m.clone();
            m.build = BuildMetadata::EMPTY;
            format!("={m}")
        } else {
            "*".into()
        }
    }

    fn gen_props_override(&mut self, defaults: &[(String, Prop)]) -> Vec<(String, Prop)> {
        let mut out = vec![];
        for (k, dv) in defaults {
            if self.d.chance(1, 2) {
                let nv = match dv {
                    Prop::Int(x) => Prop::Int(*self.d.pick(&[*x, 0, 1, 8, 32, -1])),
                    Prop::Bool(x) => Prop::Bool(if self.d.bool() { !*x } else { *x }),
                };
                out.push((k.clone(), nv));
            }
        }
        out
    }

    fn gen_decl_name(&mut self, target_name: &str, used: &[String]) -> (String, bool) {
        let others: Vec<String> = self
            .plan
            .projects
            .iter()
            .map(|p| p.name.clone())
            .chain(self.plan.locals.iter().map(|l| l.name.clone()))
            .filter(|n| n != target_name)
            .collect();
        for _ in 0..6 {
            let k = self.d.weighted(&[14, 2, 3, 3, 2, 2]);
            let (name, explicit) = match k {
                0 => (target_name.to_string(), false),
                1 => (target_name.to_string(), true),
                2 => (format!("x_{target_name}"), true),
                3 => {
                    if others.is_empty() {
                        (format!("y_{target_name}"), true)
                    } else {
                        (others[self.d.below_usize(others.len())].clone(), true)
                    }
                }
                4 => {
                    // collides with the suffix scheme of the resolver
                    let all: Vec<String> =
                        others.iter().cloned().chain(std::iter::once(target_name.to_string())).collect();
                    (format!("{}_0", all[self.d.below_usize(all.len())]), true)
                }
                _ => ("lib".to_string(), true),
            };
            if !used.contains(&name) {
                return (name, explicit);
            }
        }
        let mut i = 0;
        loop {
            let n = format!("z{i}_{target_name}");
            if !used.contains(&n) {
                return (n, true);
            }
            i += 1;
        }
    }

    /// one declaration by `owner` on published project `p`
    fn gen_git_decl(&mut self, owner: Owner, p: usize, used: &[String], must_sat: bool) -> Decl {
        let tname = self.plan.projects[p].name.clone();
        let (name, explicit_project) = self.gen_decl_name(&tname, used);
        let req = self.gen_req(p, must_sat);
        let spelling = match owner {
            Owner::Root => match self.d.weighted(&[10, 1, 1]) {
                0 => Spelling::FileUrl,
                1 => Spelling::AbsPath,
                _ => Spelling::RelPath,
            },
            _ => {
                if self.d.chance(1, 12) {
                    Spelling::AbsPath
                } else {
                    Spelling::FileUrl
                }
            }
        };
        let defaults = self.plan.projects[p].props.clone();
        let props = if defaults.is_empty() { vec![] } else { self.gen_props_override(&defaults) };
        Decl {
            name,
            target: Target::Git { proj: p, spelling },
            req,
            explicit_project,
            props,
        }
    }

    fn gen_path_decl(&mut self, local: usize, used: &[String]) -> Decl {
        let tname = self.plan.locals[local].name.clone();
        let (name, _) = self.gen_decl_name(&tname, used);
        let abs = self.d.chance(1, 6);
        let defaults = self.plan.locals[local].props.clone();
        let props = if defaults.is_empty() { vec![] } else { self.gen_props_override(&defaults) };
        Decl {
            name,
            target: Target::Path { local, abs },
            req: String::new(),
            explicit_project: false,
            props,
        }
    }

    /// published projects a project / local / the root may depend on
    fn git_candidates(&self, owner: Owner) -> Vec<usize> {
        let lo = match owner {
            Owner::Proj(p) => p + 1,
            _ => 0,
        };
        (lo..self.plan.projects.len()).filter(|&p| !self.vers[p].is_empty()).collect()
    }

    fn pick_target(&mut self, owner: Owner, cands: &[usize]) -> usize {
        if matches!(owner, Owner::Proj(_)) {
            // favour the sinks (high indices) so that routes meet
            match self.d.weighted(&[3, 3, 2]) {
                0 => cands[self.d.below_usize(cands.len())],
                1 => *cands.last().unwrap(),
                _ => cands[cands.len() - 1 - self.d.below_usize(cands.len().min(2))],
            }
        } else {
            // the root and local projects favour the sources (low indices):
            // more of the graph becomes reachable
            match self.d.weighted(&[3, 3, 2]) {
                0 => cands[self.d.below_usize(cands.len())],
                1 => cands[0],
                _ => cands[self.d.below_usize(cands.len().min(2))],
            }
        }
    }

    /// the release the requirement would pick among what is published now
    fn highest_match(&self, p: usize, req: &str) -> Option<Version> {
        let r = VersionReq::parse(req).ok()?;
        self.vers[p].iter().filter(|x| r.matches(x)).max().cloned()
    }

    fn gen_decls(&mut self, owner: Owner, n: usize) -> Vec<Decl> {
        let mut out: Vec<Decl> = vec![];
        let cands = self.git_candidates(owner);
        let must_sat = !matches!(owner, Owner::Root) || !self.d.chance(1, 14);
        for _ in 0..n {
            let used: Vec<String> = out.iter().map(|d| d.name.clone()).collect();
            let path_cands: Vec<usize> = match owner {
                Owner::Root => (0..self.plan.locals.len()).collect(),
                Owner::Local(k) => (k + 1..self.plan.locals.len()).collect(),
                Owner::Proj(_) => vec![], // `veryl publish` refuses path dependencies
            };
            let want_path = !path_cands.is_empty()
                && self.d.chance(if matches!(owner, Owner::Root) { 2 } else { 3 }, 5)
                && !out.iter().any(|d| matches!(d.target, Target::Path { .. }) && path_cands.len() == 1);
            if want_path {
                let l = path_cands[self.d.below_usize(path_cands.len())];
                if !out.iter().any(|d| matches!(d.target, Target::Path { local, .. } if local == l)) {
                    out.push(self.gen_path_decl(l, &used));
                    continue;
                }
            }
            if cands.is_empty() {
                continue;
            }
            // a second declaration of a project that is already declared
            // (several versions of one project side by side)
            let again: Vec<usize> = out
                .iter()
                .filter_map(|d| match d.target {
                    Target::Git { proj, .. } => Some(proj),
                    _ => None,
                })
                .collect();
            let second = !again.is_empty() && self.d.chance(1, 3);
            let p = if second { again[self.d.below_usize(again.len())] } else { self.pick_target(owner, &cands) };
            let mut decl = self.gen_git_decl(owner, p, &used, must_sat);
            if second || again.contains(&p) {
                // two declarations of one release with the same properties are
                // rejected in the root project by design: ask for another
                // release (or other properties), give up after a few tries
                let mut clash = true;
                for _ in 0..5 {
                    let mine = self.highest_match(p, &decl.req);
                    clash = out.iter().any(|o| {
                        matches!(o.target, Target::Git { proj, .. } if proj == p)
                            && o.props == decl.props
                            && self.highest_match(p, &o.req) == mine
                    });
                    if !clash {
                        break;
                    }
                    decl.req = self.gen_req(p, must_sat);
                }
                if clash && matches!(owner, Owner::Root) && !self.d.chance(1, 12) {
                    continue;
                }
            }
            out.push(decl);
        }
        out
    }

    fn mutate_decls(&mut self, owner: Owner, decls: &[Decl]) -> Vec<Decl> {
        let mut out = decls.to_vec();
        let cands = self.git_candidates(owner);
        let must_sat = !matches!(owner, Owner::Root) || !self.d.chance(1, 10);
        let k = if out.is_empty() { 1 } else { self.d.weighted(&[6, 3, 2, 1]) };
        match k {
            0 => {
                // change one requirement
                let gi: Vec<usize> =
                    (0..out.len()).filter(|&i| matches!(out[i].target, Target::Git { .. })).collect();
                if let Some(&i) = gi.get(self.d.below_usize(gi.len().max(1))) {
                    if let Target::Git { proj, .. } = out[i].target {
                        out[i].req = self.gen_req(proj, must_sat);
                    }
                }
            }
            1 => {
                // add a declaration
                if !cands.is_empty() || !self.plan.locals.is_empty() {
                    let mut add = self.gen_decls(owner, 1);
                    // names must stay unique within the table
                    add.retain(|a| !out.iter().any(|o| o.name == a.name));
                    if let Some(a) = add.pop() {
                        // no second path declaration of one local project
                        let dup = matches!(a.target, Target::Path { local, .. }
                            if out.iter().any(|o| matches!(o.target, Target::Path { local: l2, .. } if l2 == local)));
                        // (root) mostly avoid a second declaration of the very same release
                        let clash = matches!(owner, Owner::Root)
                            && match a.target {
                                Target::Git { proj: p, .. } => {
                                    let mine = self.highest_match(p, &a.req);
                                    out.iter().any(|o| {
                                        matches!(o.target, Target::Git { proj, .. } if proj == p)
                                            && o.props == a.props
                                            && self.highest_match(p, &o.req) == mine
                                    })
                                }
                                _ => false,
                            };
                        if !dup && (!clash || self.d.chance(1, 8)) {
                            out.push(a);
                        }
                    }
                }
            }
            2 => {
                let i = self.d.below_usize(out.len());
                out.remove(i);
            }
            _ => {
                // rename a declaration (alias)
                let i = self.d.below_usize(out.len());
                let used: Vec<String> = out.iter().map(|d| d.name.clone()).collect();
                let tname = match out[i].target {
                    Target::Git { proj, .. } => self.plan.projects[proj].name.clone(),
                    Target::Path { local, .. } => self.plan.locals[local].name.clone(),
                };
                let (name, ex) = self.gen_decl_name(&tname, &used);
                out[i].name = name;
                out[i].explicit_project = ex;
            }
        }
        out
    }

    fn next_version(&mut self, p: usize) -> (Version, Option<Bump>) {
        let Some(max) = self.max_ver(p) else {
            let first = *self.d.pick(&[(0u64, 1u64, 0u64), (1, 0, 0), (0, 0, 1), (2, 3, 4)]);
            return (v(first.0, first.1, first.2), None);
        };
        let cur = self.cur_ver[p].clone().unwrap_or_else(|| max.clone());
        for _ in 0..8 {
            let k = self.d.weighted(&[6, 5, 4, 2, 2, 1]);
            let (cand, bump) = match k {
                0 => (v(cur.major, cur.minor, cur.patch + 1), Some(Bump::Patch)),
                1 => (v(cur.major, cur.minor + 1, 0), Some(Bump::Minor)),
                2 => (v(cur.major + 1, 0, 0), Some(Bump::Major)),
                3 => {
                    // pre-release of the next minor / major
                    let mut n = if self.d.bool() { v(max.major, max.minor + 1, 0) } else { v(max.major + 1, 0, 0) };
                    let tag = *self.d.pick(&["alpha.1", "rc.1", "beta", "alpha.2"]);
                    n.pre = Prerelease::new(tag).unwrap();
                    (n, None)
                }
                4 => {
                    // back-port: a patch on an older line
                    let vs = &self.vers[p];
                    let o = core(&vs[self.d.below_usize(vs.len())]);
                    (v(o.major, o.minor, o.patch + 1 + self.d.below(2) as u64), None)
                }
                _ => {
                    let mut n = v(max.major, max.minor, max.patch + 1);
                    n.build = BuildMetadata::new("b7").unwrap();
                    (n, None)
                }
            };
            // every release distinct, also when build metadata is ignored
            let dup = self.vers[p].iter().any(|x| {
                x.major == cand.major && x.minor == cand.minor && x.patch == cand.patch && x.pre == cand.pre
            });
            if !dup {
                // the bump API works on the version written in Veryl.toml
                let bump = if cur.pre.is_empty() && cur.build.is_empty() { bump } else { None };
                return (cand, bump);
            }
        }
        let m = self.vers[p].iter().map(|x| x.major).max().unwrap_or(0);
        (v(m + 1, 0, 0), None)
    }

    fn release(&mut self, p: usize, first: bool) {
        let (ver, bump) = self.next_version(p);
        let owner = Owner::Proj(p);
        let decls = if first {
            let avail = self.git_candidates(owner).len();
            let n = if avail == 0 { 0 } else { self.d.weighted(&[2, 5, 4, 1]).min(avail + 1) };
            self.gen_decls(owner, n)
        } else if self.d.chance(2, 5) {
            let cur = self.cur_decls[p].clone();
            self.mutate_decls(owner, &cur)
        } else {
            self.cur_decls[p].clone()
        };
        // declarations of a release were resolvable when it was published
        let decls: Vec<Decl> = decls
            .into_iter()
            .filter(|d| match &d.target {
                Target::Git { proj, .. } => VersionReq::parse(&d.req)
                    .map(|r| self.vers[*proj].iter().any(|x| r.matches(x)))
                    .unwrap_or(false),
                Target::Path { .. } => false,
            })
            .collect();
        let unchanged = !first && decls == self.cur_decls[p];
        let via_bump = if unchanged && self.d.chance(1, 2) { bump } else { None };
        self.plan.events.push(Event::Release {
            proj: p,
            version: ver.to_string(),
            decls: decls.clone(),
            via_bump,
        });
        self.vers[p].push(ver.clone());
        self.cur_ver[p] = Some(ver);
        self.cur_decls[p] = decls;
    }

    fn resolve_event(&mut self, first: bool) {
        let force = !first && self.d.chance(1, 3);
        let recheck_force = self.d.chance(1, 4);
        // C31_NO_CLI: mutation runs that build only this crate against a scratch /repo
        let cli = self.d.chance(1, 12) && std::env::var_os("C31_NO_CLI").is_none();
        let cold_twin = !cli && self.d.chance(1, 14);
        self.plan.events.push(Event::Resolve { force, recheck_force, cli, cold_twin });
    }
}

pub fn generate(d: &mut Draw, thorough: bool) -> Plan {
    let n_proj = 2 + d.weighted(&[3, 4, 4, 2, 1]);
    // repositories: mostly one project each, sometimes two projects share one
    let mut projects: Vec<Proj> = vec![];
    let mut n_repos = 0;
    let mut i = 0;
    while i < n_proj {
        let shared = i + 1 < n_proj && d.chance(1, 6);
        let n_props = d.weighted(&[6, 2, 1]);
        let mk_props = |d: &mut Draw, n: usize| -> Vec<(String, Prop)> {
            (0..n)
                .map(|k| {
                    if d.bool() {
                        (format!("W{k}"), Prop::Int(*d.pick(&[8i64, 16, 1])))
                    } else {
                        (format!("EN{k}"), Prop::Bool(d.bool()))
                    }
                })
                .collect()
        };
        if shared {
            let pa = mk_props(d, n_props);
            projects.push(Proj { name: format!("p{i}"), repo: n_repos, subdir: "pa".into(), props: pa });
            projects.push(Proj { name: format!("p{}", i + 1), repo: n_repos, subdir: "pb".into(), props: vec![] });
            i += 2;
        } else {
            let pa = mk_props(d, n_props);
            projects.push(Proj { name: format!("p{i}"), repo: n_repos, subdir: String::new(), props: pa });
            i += 1;
        }
        n_repos += 1;
    }
    let n_local = d.weighted(&[5, 3, 1]);
    let mut locals: Vec<Local> = vec![];
    for k in 0..n_local {
        let nested = k > 0 && d.chance(1, 3);
        let dir = if nested { format!("{}/n{k}", locals[0].dir) } else { format!("l{k}") };
        let props = if d.chance(1, 4) { vec![("DEPTH".to_string(), Prop::Int(4))] } else { vec![] };
        locals.push(Local { name: format!("q{k}"), dir, props });
    }
    let strict_det = d.chance(1, 8);
    let command_backend = d.chance(1, if thorough { 10 } else { 40 });
    let np = projects.len();
    let nl = locals.len();
    let mut g = Gen {
        d,
        plan: Plan { n_repos, projects, locals, events: vec![], strict_det, command_backend },
        vers: vec![vec![]; np],
        cur_decls: vec![vec![]; np],
        cur_ver: vec![None; np],
        root: vec![],
        local_decls: vec![vec![]; nl],
        thorough,
    };
    // initial histories, sinks first so that dependents can refer to releases
    for p in (0..np).rev() {
        let n_rel = 1 + g.d.weighted(&[3, 4, 3, 2]);
        for r in 0..n_rel {
            g.release(p, r == 0);
        }
    }
    // local projects (innermost first)
    for k in (0..nl).rev() {
        let n = g.d.weighted(&[3, 4, 2]);
        let decls = g.gen_decls(Owner::Local(k), n);
        g.local_decls[k] = decls.clone();
        g.plan.events.push(Event::SetLocal { local: k, decls });
    }
    // the root project
    let n_root = 1 + g.d.weighted(&[2, 5, 5, 3]);
    let decls = g.gen_decls(Owner::Root, n_root);
    g.root = decls.clone();
    g.plan.events.push(Event::SetRoot { decls });
    g.resolve_event(true);
    // history
    let rounds = 1 + g.d.weighted(if g.thorough { &[2, 4, 4, 3, 2] } else { &[3, 5, 3, 0, 0] });
    for _ in 0..rounds {
        let n_mut = 1 + g.d.weighted(&[5, 3, 1]);
        for _ in 0..n_mut {
            match g.d.weighted(&[12, 6, 2, 1, 1, 1]) {
                0 => {
                    // new release, preferably of something the root reaches
                    let p = g.d.below_usize(np);
                    g.release(p, false);
                }
                1 => {
                    let cur = g.root.clone();
                    let decls = g.mutate_decls(Owner::Root, &cur);
                    if decls != cur {
                        g.root = decls.clone();
                        g.plan.events.push(Event::SetRoot { decls });
                    }
                }
                2 => {
                    if nl > 0 {
                        let k = g.d.below_usize(nl);
                        let cur = g.local_decls[k].clone();
                        let decls = g.mutate_decls(Owner::Local(k), &cur);
                        if decls != cur {
                            g.local_decls[k] = decls.clone();
                            g.plan.events.push(Event::SetLocal { local: k, decls });
                        }
                    }
                }
                3 => g.plan.events.push(Event::DeleteLock),
                4 => g.plan.events.push(Event::ClearCache),
                _ => {}
            }
        }
        g.resolve_event(false);
    }
    g.plan
}
