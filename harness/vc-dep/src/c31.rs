//! C31 — dependency resolution is deterministic and picks the best version.
//!
//! Generator (`plan.rs`): a universe of 2-6 local git repositories, each a
//! Veryl project (sometimes two projects in one repository) with a release
//! history published through the real `Metadata::publish` / `bump_version`,
//! local path projects, and a root project; then a history: resolve, publish
//! new releases, edit requirements / aliases, delete the lock file, clear the
//! cache, `veryl update`, resolve again.
//!
//! Execution (`worker.rs`, one child process per case with its own
//! `XDG_CACHE_HOME`): every resolution is done the way `Metadata::update_lockfile`
//! and `CmdUpdate::exec` do it, three times: run A, run B from the restored
//! state (same API in a fresh thread = fresh hash keys, or the real `veryl`
//! binary, or with an emptied cache), run C on top (re-resolution with
//! nothing changed).
//!
//! Oracle (`model.rs`): reference resolver written from the property text.

use crate::model::{self, Fail, PLock, Rel, Shape, World};
use crate::plan::{self, Event, Plan};
use semver::Version;
use serde_json::Value;
use std::collections::BTreeSet;
use std::time::Duration;
use vcore::util::Scratch;
use vcore::{CaseCfg, Ctx, Draw, Outcome, hash_str, json};

/// signatures of the hash-order findings that non-strict cases exclude
const EXCLUDED_UNLESS_STRICT: &[&str] = &[
    "relock-switches-to-other-locked-release",
    "nondeterministic-lock-names",
    "nondeterministic-dependencies-order",
    "nondeterministic-lockfile-text",
];

#[derive(Clone, Debug)]
struct DiskInfo {
    /// declaration epoch of the run whose result the lock file on disk holds
    epoch: u64,
    /// every pick in it was the highest release at `releases`
    all_highest: bool,
    releases: usize,
}

struct Eval<'a> {
    world: World<'a>,
    epoch: u64,
    releases: usize,
    fails: Vec<Fail>,
    excluded: BTreeSet<String>,
    classes: BTreeSet<String>,
    diamond: bool,
    alias: bool,
    strict: bool,
}

impl<'a> Eval<'a> {
    fn fail(&mut self, sig: &str, msg: String) {
        if !self.strict && EXCLUDED_UNLESS_STRICT.contains(&sig) {
            self.excluded.insert(sig.to_string());
            return;
        }
        self.fails.push((sig.to_string(), msg));
    }

    /// one run (A, B or C of a resolve event); returns its result table
    fn eval_run(
        &mut self,
        tag: &str,
        run: &Value,
        force: bool,
        t0_fallback: Option<&Vec<PLock>>,
        disk: &mut Option<DiskInfo>,
    ) -> Option<Vec<PLock>> {
        let is_cli = run.get("cli").and_then(|b| b.as_bool()).unwrap_or(false);
        if let Some(p) = run.get("panic").and_then(|p| p.as_str()) {
            self.fail("panic-in-resolution", format!("run {tag}: {p}"));
            return None;
        }
        if run.get("timeout").is_some() {
            self.classes.insert("cli-timeout".into());
            return None;
        }
        let ok = run.get("ok").and_then(|b| b.as_bool()).unwrap_or(false);
        let existed = run.get("existed").and_then(|b| b.as_bool()).unwrap_or(false);
        let t0: Vec<PLock> = if existed {
            match run.get("t0") {
                Some(t) => match model::parse_table(t) {
                    Ok(t) => t,
                    Err(e) => {
                        self.fail("harness:table", format!("run {tag}: {e}"));
                        return None;
                    }
                },
                None => t0_fallback.cloned().unwrap_or_default(),
            }
        } else {
            vec![]
        };
        // declarations unchanged since the run that wrote the lock file?
        let unchanged = existed
            && disk
                .as_ref()
                .map(|d| d.epoch == self.epoch && (!force || (d.all_highest && d.releases == self.releases)))
                .unwrap_or(false);
        if !ok {
            let err = run.get("error").cloned().unwrap_or(Value::Null);
            let kind = err.get("kind").and_then(|k| k.as_str()).unwrap_or("?").to_string();
            let stage = err.get("stage").and_then(|k| k.as_str()).unwrap_or("?").to_string();
            let text = err.get("text").and_then(|k| k.as_str()).unwrap_or("").to_string();
            let (kinds, _some_ok, complete, had_choice) = self.world.possible_errors(&t0, force);
            if unchanged && had_choice && kind == "InvalidDependency" {
                self.fail(
                    "relock-switches-to-other-locked-release",
                    format!("run {tag} (update={force}): nothing was edited since the lock file was written, yet resolution now fails: {text}; lock table: {}", model::show_table(&t0)),
                );
            } else if unchanged {
                self.fail(
                    &format!("error-although-declarations-unchanged:{kind}"),
                    format!("run {tag} (update={force}): nothing was edited since the lock file was written, yet resolution fails at {stage}: {text}"),
                );
            } else if kinds.contains(kind.as_str()) {
                self.classes.insert(format!("expected-error:{kind}"));
            } else if !complete {
                self.classes.insert("error-not-decided (too many lock choices)".into());
            } else {
                self.fail(
                    &format!("spurious-error:{kind}"),
                    format!(
                        "run {tag} (update={force}, cli={is_cli}): resolution fails at {stage} with {kind}: {text}; the reference finds {}",
                        if kinds.is_empty() { "a solution and no error".to_string() } else { format!("only {kinds:?} possible") }
                    ),
                );
            }
            return None;
        }
        let Some(t1v) = run.get("t1") else {
            if is_cli && run.get("modified").and_then(|m| m.as_bool()) == Some(false) {
                // the command line left Veryl.lock untouched = "not modified";
                // its table is not observable
                self.classes.insert("cli: lock file left untouched".into());
                if unchanged {
                    self.classes.insert(if force { "unchanged:update-twice".into() } else { "unchanged:re-resolve".into() });
                }
                let all_highest = disk
                    .as_ref()
                    .map(|d| d.all_highest && d.releases == self.releases && d.epoch == self.epoch)
                    .unwrap_or(false);
                *disk = Some(DiskInfo { epoch: self.epoch, all_highest: all_highest || force, releases: self.releases });
                return None;
            }
            self.fail("harness:table", format!("run {tag}: no table"));
            return None;
        };
        let t1 = match model::parse_table(t1v) {
            Ok(t) => t,
            Err(e) => {
                self.fail("harness:table", format!("run {tag}: {e}"));
                return None;
            }
        };
        // 1. every pick obeys the property, names distinct, table = closure
        let mut shape = Shape::default();
        let verdict = self.world.validate(&t0, &t1, force, &mut shape);
        let ambiguous = shape.ambiguous;
        match verdict {
            Ok(()) => {
                self.classes.extend(shape.classes);
                self.diamond |= shape.diamond;
                self.alias |= shape.alias;
            }
            Err((sig, msg)) => {
                let msg = format!(
                    "run {tag} (update={force}, cli={is_cli}): {msg}\n  lock table before: {}\n  lock table after:  {}",
                    model::show_table(&t0),
                    model::show_table(&t1)
                );
                self.fail(&sig, msg);
            }
        }
        // 2. save -> load
        if let Some(e) = run.get("roundtrip_error") {
            self.fail("save-load-fails", format!("run {tag}: {e}"));
        } else if let Some(t2) = run.get("t2") {
            match model::compare_roundtrip(t1v, t2) {
                Ok(true) => {}
                Ok(false) => {
                    self.classes.insert("save-load: order among equal locks changed".into());
                }
                Err((sig, msg)) => self.fail(&sig, format!("run {tag}: {msg}")),
            }
        }
        // 3. the reported modification
        let modified = run.get("modified").and_then(|m| m.as_bool());
        if let Some(m) = modified {
            let changed = model::identities(&t0) != model::identities(&t1);
            if m != changed {
                self.fail(
                    if m { "modified-reported-but-same-dependencies" } else { "modification-not-reported" },
                    format!(
                        "run {tag} (update={force}): update() returned {m}, dependency set {}: before {} after {}",
                        if changed { "changed" } else { "is the same" },
                        model::show_table(&t0),
                        model::show_table(&t1)
                    ),
                );
            }
            if unchanged && m {
                self.fail(
                    if ambiguous { "relock-switches-to-other-locked-release" } else { "modified-although-declarations-unchanged" },
                    format!(
                        "run {tag} (update={force}): no declaration was edited since the lock file was written{}, yet update() reports a modification: before {} after {}",
                        if force { " and nothing was published" } else { "" },
                        model::show_table(&t0),
                        model::show_table(&t1)
                    ),
                );
            }
            if unchanged {
                self.classes.insert(if force { "unchanged:update-twice".into() } else { "unchanged:re-resolve".into() });
            }
        }
        // the lock file now holds this result
        let all_highest = if !existed || force {
            true
        } else {
            disk.as_ref()
                .map(|d| d.all_highest && d.releases == self.releases && d.epoch == self.epoch)
                .unwrap_or(false)
        };
        *disk = Some(DiskInfo { epoch: self.epoch, all_highest, releases: self.releases });
        Some(t1)
    }

    fn compare_runs(&mut self, ra: &Value, rb: &Value, ta: &Option<Vec<PLock>>, tb: &Option<Vec<PLock>>, text_a: &Value, text_b: &Value) {
        let oka = ra.get("ok").and_then(|b| b.as_bool()).unwrap_or(false);
        let okb = rb.get("ok").and_then(|b| b.as_bool()).unwrap_or(false);
        if rb.get("timeout").is_some() {
            return;
        }
        if oka != okb {
            self.fail(
                "nondeterministic-outcome",
                format!(
                    "from one state: run A {} , run B {}",
                    if oka { "succeeds".to_string() } else { format!("fails: {}", ra.get("error").unwrap_or(&Value::Null)) },
                    if okb { "succeeds".to_string() } else { format!("fails: {}", rb.get("error").unwrap_or(&Value::Null)) }
                ),
            );
            return;
        }
        if let (Some(ma), Some(mb)) = (ra.get("modified").and_then(|m| m.as_bool()), rb.get("modified").and_then(|m| m.as_bool())) {
            if ma != mb {
                self.fail(
                    "nondeterministic-modified-flag",
                    format!("from one state: run A reports modified={ma}, run B (cli={}) modified={mb}", rb.get("cli").is_some()),
                );
                return;
            }
        }
        let (Some(ta), Some(tb)) = (ta, tb) else { return };
        if model::canon_table(ta, false, true) != model::canon_table(tb, false, true) {
            self.fail(
                "nondeterministic-resolution",
                format!("from one state: run A gives {} , run B gives {}", model::show_table(ta), model::show_table(tb)),
            );
            return;
        }
        if model::canon_table(ta, true, true) != model::canon_table(tb, true, true) {
            self.fail(
                "nondeterministic-lock-names",
                format!(
                    "from one state the same dependencies get different project names: run A {} , run B {}",
                    model::show_table(ta),
                    model::show_table(tb)
                ),
            );
            return;
        }
        if model::canon_table(ta, true, false) != model::canon_table(tb, true, false) {
            self.fail(
                "nondeterministic-dependencies-order",
                format!("the `dependencies` lists of the locks come in a different order: run A {} , run B {}", model::show_table(ta), model::show_table(tb)),
            );
            return;
        }
        let cli = rb.get("cli").is_some();
        if !cli && text_a != text_b {
            self.fail(
                "nondeterministic-lockfile-text",
                format!("same table, different Veryl.lock text:\n--- run A\n{}\n--- run B\n{}", text_a.as_str().unwrap_or("-"), text_b.as_str().unwrap_or("-")),
            );
        }
    }
}

fn release_kind(old: &[Rel], new: &Version) -> &'static str {
    let Some(max) = old.iter().map(|r| &r.version).max() else { return "first" };
    if !new.pre.is_empty() {
        "pre-release"
    } else if new < max {
        "back-port"
    } else if new.major > max.major {
        "major"
    } else if new.minor > max.minor {
        "minor"
    } else {
        "patch"
    }
}

fn decide(plan: &Plan, base: &str, log: &Value) -> (Vec<Fail>, BTreeSet<String>, bool, BTreeSet<String>) {
    let np = plan.projects.len();
    let mut ev = Eval {
        world: World {
            plan,
            base: base.to_string(),
            rels: vec![vec![]; np],
            root: vec![],
            local_decls: vec![vec![]; plan.locals.len()],
        },
        epoch: 0,
        releases: 0,
        fails: vec![],
        excluded: BTreeSet::new(),
        classes: BTreeSet::new(),
        diamond: false,
        alias: false,
        strict: plan.strict_det,
    };
    let entries = log.get("log").and_then(|l| l.as_array()).cloned().unwrap_or_default();
    let mut disk: Option<DiskInfo> = None;
    let mut resolves = 0usize;
    let mut pending_release_kinds: BTreeSet<String> = BTreeSet::new();
    let mut pending_edits: BTreeSet<String> = BTreeSet::new();
    let mut rereso_after_release = false;
    for e in &entries {
        let Some(i) = e.get("event").and_then(|i| i.as_u64()) else { continue };
        let Some(event) = plan.events.get(i as usize) else { continue };
        match event {
            Event::Release { proj, version, decls, via_bump } => {
                let revision = e.get("revision").and_then(|r| r.as_str()).unwrap_or("").to_string();
                let Ok(ver) = Version::parse(version) else { continue };
                if resolves > 0 {
                    pending_release_kinds.insert(format!("re-resolve after release:{}", release_kind(&ev.world.rels[*proj], &ver)));
                }
                if via_bump.is_some() {
                    ev.classes.insert("published via bump_version".into());
                }
                ev.world.rels[*proj].push(Rel { version: ver, revision, decls: decls.clone() });
                ev.releases += 1;
            }
            Event::SetRoot { decls } => {
                if resolves > 0 {
                    pending_edits.insert("re-resolve after root edit".into());
                }
                ev.world.root = decls.clone();
                ev.epoch += 1;
            }
            Event::SetLocal { local, decls } => {
                if resolves > 0 {
                    pending_edits.insert("re-resolve after path-project edit".into());
                }
                ev.world.local_decls[*local] = decls.clone();
                ev.epoch += 1;
            }
            Event::DeleteLock => {
                disk = None;
                if resolves > 0 {
                    pending_edits.insert("re-resolve after lock file deleted".into());
                }
            }
            Event::ClearCache => {
                if resolves > 0 {
                    pending_edits.insert("re-resolve after cache cleared".into());
                }
            }
            Event::Resolve { force, recheck_force, cli, cold_twin } => {
                resolves += 1;
                if *force {
                    ev.classes.insert("mode:veryl-update".into());
                } else {
                    ev.classes.insert("mode:build".into());
                }
                if *cli {
                    ev.classes.insert("twin:real-cli".into());
                }
                if *cold_twin {
                    ev.classes.insert("twin:cold-cache".into());
                }
                let (ra, rb, rc) = (
                    e.get("a").cloned().unwrap_or(Value::Null),
                    e.get("b").cloned().unwrap_or(Value::Null),
                    e.get("c").cloned().unwrap_or(Value::Null),
                );
                let before = disk.clone();
                let mut disk_a = before.clone();
                let ta = ev.eval_run("A", &ra, *force, None, &mut disk_a);
                let t0a: Option<Vec<PLock>> = ra.get("t0").and_then(|t| model::parse_table(t).ok());
                let mut disk_b = before.clone();
                let tb = ev.eval_run("B", &rb, *force, t0a.as_ref(), &mut disk_b);
                ev.compare_runs(
                    &ra,
                    &rb,
                    &ta,
                    &tb,
                    e.get("lock_after_a").unwrap_or(&Value::Null),
                    e.get("lock_after_b").unwrap_or(&Value::Null),
                );
                let _tc = ev.eval_run("C", &rc, *recheck_force, None, &mut disk_b);
                disk = disk_b;
                if ta.is_some() {
                    if !pending_release_kinds.is_empty() {
                        rereso_after_release = true;
                    }
                    ev.classes.extend(std::mem::take(&mut pending_release_kinds));
                    ev.classes.extend(std::mem::take(&mut pending_edits));
                }
            }
        }
    }
    if plan.command_backend {
        ev.classes.insert("backend:git-command".into());
    }
    if ev.strict {
        ev.classes.insert("determinism:strict (names, order, text)".into());
    }
    for x in &ev.excluded {
        ev.classes.insert(format!("excluded-known:{x}"));
    }
    if ev.diamond {
        ev.classes.insert("NT:diamond".into());
    }
    if ev.alias {
        ev.classes.insert("NT:alias".into());
    }
    if rereso_after_release {
        ev.classes.insert("NT:re-resolution-after-release".into());
    }
    let nt = (ev.diamond || ev.alias) && rereso_after_release;
    (ev.fails, ev.classes, nt, ev.excluded)
}

pub fn decide_for_dev(plan: &Plan, base: &str, log: &Value) -> (Vec<Fail>, BTreeSet<String>, bool) {
    let (f, c, nt, _) = decide(plan, base, log);
    (f, c, nt)
}

pub fn run_plan(plan: &Plan, keep: bool) -> Result<(Scratch, Value), String> {
    let mut scratch = Scratch::new("c31");
    if keep {
        scratch.keep();
    }
    let dir = scratch.path.clone();
    std::fs::write(dir.join("plan.json"), serde_json::to_string(plan).unwrap()).map_err(|e| e.to_string())?;
    std::fs::create_dir_all(dir.join("home")).map_err(|e| e.to_string())?;
    let exe = std::env::current_exe().map_err(|e| e.to_string())?;
    let cache = dir.join("cache");
    let home = dir.join("home");
    let ceiling = dir.to_string_lossy().to_string();
    let mut env: Vec<(&str, &str)> = vec![
        ("XDG_CACHE_HOME", cache.to_str().unwrap()),
        ("HOME", home.to_str().unwrap()),
        ("GIT_CONFIG_GLOBAL", "/dev/null"),
        ("GIT_CONFIG_NOSYSTEM", "1"),
        ("GIT_CEILING_DIRECTORIES", &ceiling),
        ("GIT_AUTHOR_NAME", "veryl"),
        ("GIT_AUTHOR_EMAIL", "veryl@example.invalid"),
        ("GIT_COMMITTER_NAME", "veryl"),
        ("GIT_COMMITTER_EMAIL", "veryl@example.invalid"),
        ("GIT_AUTHOR_DATE", "2024-01-01T00:00:00Z"),
        ("GIT_COMMITTER_DATE", "2024-01-01T00:00:00Z"),
        ("RUST_LOG", "off"),
    ];
    if plan.command_backend {
        env.push(("VERYL_GIT_BACKEND", "command"));
    } else {
        env.push(("VERYL_GIT_BACKEND", "auto"));
    }
    let r = vcore::util::run_cmd(
        exe.to_str().unwrap(),
        &["--worker", dir.to_str().unwrap()],
        &dir,
        &env,
        Duration::from_secs(1500),
    );
    if r.timed_out {
        return Err("worker timed out".into());
    }
    if r.code != Some(0) {
        return Err(format!("worker exit {:?} signal {:?}: {}", r.code, r.signal, r.stderr.chars().take(500).collect::<String>()));
    }
    let text = std::fs::read_to_string(dir.join("log.json")).map_err(|e| format!("log: {e}"))?;
    let log: Value = serde_json::from_str(&text).map_err(|e| format!("log: {e}"))?;
    Ok((scratch, log))
}

fn case(d: &mut Draw, thorough: bool, known: &[String]) -> Outcome {
    let plan = plan::generate(d, thorough);
    let text = plan.describe();
    let (scratch, log) = match run_plan(&plan, false) {
        Ok(x) => x,
        Err(e) => {
            let short: String = e.chars().take(60).collect();
            return Outcome::skip(format!("worker: {short}"));
        }
    };
    if let Some(f) = log.get("fatal").and_then(|f| f.as_str()) {
        // building the universe failed: nothing of C31 was exercised
        let short: String = f.split(':').take(3).collect::<Vec<_>>().join(":").chars().take(80).collect();
        return Outcome::skip(format!("universe: {short}"));
    }
    let base = scratch.path.join("u").to_string_lossy().to_string();
    let (fails, classes, nt, _excluded) = decide(&plan, &base, &log);
    drop(scratch);
    if !fails.is_empty() {
        // an unlisted disagreement first, listed findings otherwise
        let pick = fails.iter().find(|(s, _)| !known.contains(s)).unwrap_or(&fails[0]);
        let others: Vec<&String> = fails.iter().map(|(s, _)| s).collect();
        return Outcome::fail(
            pick.0.clone(),
            format!("{}\n(all disagreements of this case: {others:?})\n{}", pick.1, text),
            json!({"plan": plan, "describe": text}),
        );
    }
    Outcome::pass(hash_str(&text), nt, classes.into_iter().collect(), text)
}

/// Reproducer of a listed finding: `{"plan": <Plan>, "expect": <signature>}`,
/// decided strictly (nothing excluded).
fn reproducer(payload: &Value) -> Outcome {
    let Some(mut plan) = payload.get("plan").cloned().and_then(|p| serde_json::from_value::<Plan>(p).ok()) else {
        return Outcome::skip("reproducer: payload has no plan");
    };
    plan.strict_det = true;
    let expect = payload.get("expect").and_then(|e| e.as_str()).unwrap_or("");
    let text = plan.describe();
    let (scratch, log) = match run_plan(&plan, false) {
        Ok(x) => x,
        Err(e) => return Outcome::skip(format!("worker: {}", e.chars().take(60).collect::<String>())),
    };
    if let Some(f) = log.get("fatal").and_then(|f| f.as_str()) {
        return Outcome::skip(format!("universe: {}", f.chars().take(80).collect::<String>()));
    }
    let base = scratch.path.join("u").to_string_lossy().to_string();
    let (fails, classes, nt, _) = decide(&plan, &base, &log);
    if let Some((sig, msg)) = fails.iter().find(|(s, _)| s == expect).or(fails.first()) {
        return Outcome::fail(sig.clone(), format!("{msg}\n{text}"), json!({"plan": plan, "describe": text}));
    }
    Outcome::pass(hash_str(&text), nt, classes.into_iter().collect(), text)
}

pub fn run(ctx: &Ctx) {
    let thorough = !ctx.is_quick();
    // hand-made minimal universes of the listed findings (printed as
    // KNOWN-FINDING while they reproduce, noted when they no longer do)
    ctx.run_payloads("reproducer", reproducer);
    // C31_CASES: development override of the fixed case count
    let n = std::env::var("C31_CASES").ok().and_then(|s| s.parse().ok()).unwrap_or(ctx.scale(80, 3000));
    let known: Vec<String> = ctx.findings().iter().filter(|f| f.status == "known").map(|f| f.key.clone()).collect();
    ctx.run(
        "universe",
        // C31_SHRINK: development override (a shrink step costs a whole case)
        CaseCfg::cases(n)
            .choices(900)
            .timeout_s(3000)
            .shrink_iters(std::env::var("C31_SHRINK").ok().and_then(|s| s.parse().ok()).unwrap_or(40)),
        |d: &mut Draw| case(d, thorough, &known),
    );
    ctx.assume("requirement matching and version order are those of the `semver` crate (the reference resolver uses the same crate to decide `satisfies` and `highest`)");
    ctx.assume("`the locked release` of a dependency = any release of the same project locked for the same repository that satisfies the requirement (the lock file keeps one table per repository); the `no modification` clause decides where that freedom would change the result");
    ctx.assume("published releases declare only git dependencies that were resolvable when they were published (`veryl publish` refuses path dependencies and resolves before publishing); dependency graphs of published projects are acyclic");
    ctx.assume("two root declarations that resolve to one release with the same properties are rejected by design (InvalidDependency); not counted as a violation");
    ctx.assume("releases are created by the real Metadata::publish / bump_version in the worker process; resolutions replicate Metadata::update_lockfile (build) and CmdUpdate::exec (veryl update) call by call");
    ctx.finish(
        "exploration",
        "each case = a generated universe of local git repositories with release histories + a root project + a history of resolve / publish / edit steps; every resolution is run three times (A, B from the same state, C on top). Non-trivial = at least one diamond or alias in a validated lock table and at least one successful re-resolution after a new release; distinct by the text of the case",
    );
}
