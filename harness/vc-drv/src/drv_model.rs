//! The C15 oracle: what the property text demands for a `drv_ir::Design`,
//! computed from the IR alone.
//!
//! * MultipleAssignment(v)  ⇔ some bit of v has writers in ≥ 2 processes.
//! * UncoveredBranch(v)     ⇔ in some always_comb, a bit of v is written on
//!   some but not all (syntactic) paths through the block.
//! * UnassignVariable(v)    ⇔ a bit of v that some logic reads (right-hand
//!   side, condition, case selector, instance input, or the parent for an
//!   output port) is written by no process; or, in some always_comb, there is
//!   a path on which a bit of v is read while not yet assigned on that path
//!   and assigned later on that path.
//!
//! Where the property text and the analyzer's tests leave a case open the
//! verdict is `Open` (either answer accepted, counted):
//! * a `case` whose arms cover every selector value, without `default`
//!   (is "no arm taken" a path?);
//! * a variable (array element) with no assigned bit that nothing reads (the
//!   tests report it, the text does not);
//! * a bit read in one arm and written only in a textually later, disjoint
//!   arm (textual "before" vs. path "before").
//!
//! The `emu_*` fields imitate the analyzer's textual bookkeeping; they are
//! used only to *name* a disagreement (root-cause signature), never to decide.

use crate::drv_ir::*;
use std::collections::BTreeSet;

#[derive(Clone, Copy, Debug, PartialEq, Eq)]
pub enum Verdict {
    Must,
    MustNot,
    Open,
}

#[derive(Clone, Debug)]
pub struct VarExpect {
    pub ma: Verdict,
    pub ub: Verdict,
    pub uv: Verdict,
    /// why an UncoveredBranch report on a MustNot variable would be a known shape
    pub ub_spurious_tag: &'static str,
    /// why a missing UnassignVariable report on a Must variable would be a known shape
    pub uv_missing_tag: &'static str,
    pub uv_never: bool,
    pub uv_rbw: bool,
}

pub struct Analysis {
    pub vars: Vec<VarExpect>,
    pub classes: BTreeSet<String>,
}

fn or_into(a: &mut [Bits], b: &[Bits]) {
    for (x, y) in a.iter_mut().zip(b) {
        *x |= *y;
    }
}

fn may_writes(stmts: &[Stmt], vars: &[VarDecl], lv: Option<usize>, out: &mut [Bits]) {
    for s in stmts {
        match s {
            Stmt::Asg(r, _) => out[r.var] |= r.mask(vars, lv),
            Stmt::If { t, e, .. } => {
                may_writes(t, vars, lv, out);
                if let Some(e) = e {
                    may_writes(e, vars, lv, out);
                }
            }
            Stmt::Case { arms, def, .. } => {
                for (_, b) in arms {
                    may_writes(b, vars, lv, out);
                }
                if let Some(d) = def {
                    may_writes(d, vars, lv, out);
                }
            }
            Stmt::Switch { arms, def } => {
                for (_, b) in arms {
                    may_writes(b, vars, lv, out);
                }
                if let Some(d) = def {
                    may_writes(d, vars, lv, out);
                }
            }
            Stmt::For { lo, hi, body } => {
                for i in *lo..*hi {
                    may_writes(body, vars, Some(i), out);
                }
            }
        }
    }
}

/// all writes in textual (unrolled) order
fn write_list(stmts: &[Stmt], vars: &[VarDecl], lv: Option<usize>, out: &mut Vec<(usize, Bits)>) {
    for s in stmts {
        match s {
            Stmt::Asg(r, _) => out.push((r.var, r.mask(vars, lv))),
            Stmt::If { t, e, .. } => {
                write_list(t, vars, lv, out);
                if let Some(e) = e {
                    write_list(e, vars, lv, out);
                }
            }
            Stmt::Case { arms, def, .. } => {
                for (_, b) in arms {
                    write_list(b, vars, lv, out);
                }
                if let Some(d) = def {
                    write_list(d, vars, lv, out);
                }
            }
            Stmt::Switch { arms, def } => {
                for (_, b) in arms {
                    write_list(b, vars, lv, out);
                }
                if let Some(d) = def {
                    write_list(d, vars, lv, out);
                }
            }
            Stmt::For { lo, hi, body } => {
                for i in *lo..*hi {
                    write_list(body, vars, Some(i), out);
                }
            }
        }
    }
}

pub fn case_is_full(sw: usize, arms: &[(Vec<Pat>, Vec<Stmt>)]) -> bool {
    let n = 1usize << sw;
    let mut seen = vec![false; n];
    for (pats, _) in arms {
        for p in pats {
            match p {
                Pat::V(v) => {
                    if *v < n {
                        seen[*v] = true
                    }
                }
                Pat::R(a, b) => {
                    for v in *a..=*b {
                        if v < n {
                            seen[v] = true
                        }
                    }
                }
            }
        }
    }
    seen.iter().all(|x| *x)
}

/// read kinds: 0 right-hand side, 1 condition / selector, 2 instance input
pub type Reads = Vec<[Bits; 3]>;

struct Walk<'a> {
    vars: &'a [VarDecl],
    /// interpretation: a full `case` without default still has a "no arm" path
    ft: bool,
    comb: bool,
    must: Vec<Bits>,
    may: Vec<Bits>,
    wlist: Vec<(usize, Bits)>,
    wseq: usize,
    rbw_strict: Vec<Bits>,
    rbw_loose: Vec<Bits>,
    /// (var, bits, read in a condition, bits possibly assigned before on another path)
    strict_items: Vec<(usize, Bits, bool, Bits)>,
    // analyzer-like textual accumulators: signature naming only
    ref_t: Vec<Bits>,
    asg_t: Vec<Bits>,
    emu_rbw: Vec<bool>,
    emu_ub_inner: Vec<Bits>,
    reads: &'a mut Reads,
    has_full_case_nodefault: bool,
}

impl<'a> Walk<'a> {
    fn later_mask(&self, u: usize) -> Bits {
        self.wlist[self.wseq.min(self.wlist.len())..]
            .iter()
            .filter(|w| w.0 == u)
            .fold(Bits::ZERO, |a, w| a | w.1)
    }

    fn read(&mut self, r: &Ref, lv: Option<usize>, cond: bool, cont: &[Bits]) {
        let u = r.var;
        let rm = r.mask(self.vars, lv);
        self.reads[u][if cond { 1 } else { 0 }] |= rm;
        if !self.comb {
            return;
        }
        let un = rm & !self.must[u];
        let strict = un & cont[u];
        let loose = un & self.later_mask(u);
        self.rbw_strict[u] |= strict;
        self.rbw_loose[u] |= loose;
        if strict.any() {
            self.strict_items.push((u, strict, cond, strict & self.may[u]));
        }
        // conditions and selectors are reads like any other
        self.ref_t[u] |= rm;
    }

    fn reads_of(&mut self, e: &Expr, lv: Option<usize>, cond: bool, cont: &[Bits]) {
        let mut rs = vec![];
        e.reads(&mut rs);
        for r in rs {
            self.read(r, lv, cond, cont);
        }
    }

    /// run alternative bodies from the current state, join them
    fn alternatives(&mut self, bodies: &[&[Stmt]], lv: Option<usize>, cont: &[Bits]) {
        let (m0, y0) = (self.must.clone(), self.may.clone());
        let mut acc_must: Option<Vec<Bits>> = None;
        let mut acc_may = y0.clone();
        for b in bodies {
            self.must = m0.clone();
            self.may = y0.clone();
            self.block(b, lv, cont);
            match &mut acc_must {
                None => acc_must = Some(self.must.clone()),
                Some(a) => {
                    for (x, y) in a.iter_mut().zip(&self.must) {
                        *x &= *y;
                    }
                }
            }
            or_into(&mut acc_may, &self.may);
        }
        self.must = acc_must.unwrap_or(m0);
        self.may = acc_may;
    }

    /// analyzer-like: every arm (plus an empty one) must write the same bits
    /// once the may-writes seen so far are added
    fn emu_inner(&mut self, bodies: &[&[Stmt]], lv: Option<usize>) {
        let n = self.vars.len();
        let ws: Vec<Vec<Bits>> = bodies
            .iter()
            .map(|b| {
                let mut w = vec![Bits::ZERO; n];
                may_writes(b, self.vars, lv, &mut w);
                for v in 0..n {
                    w[v] |= self.may[v];
                }
                w
            })
            .collect();
        for v in 0..n {
            let uni = ws.iter().fold(Bits::ZERO, |a, w| a | w[v]);
            for w in &ws {
                self.emu_ub_inner[v] |= uni ^ w[v];
            }
        }
    }

    fn block(&mut self, stmts: &[Stmt], lv: Option<usize>, cont: &[Bits]) {
        let n = self.vars.len();
        for (k, s) in stmts.iter().enumerate() {
            let mut cont_k = cont.to_vec();
            may_writes(&stmts[k + 1..], self.vars, lv, &mut cont_k);
            match s {
                Stmt::Asg(r, e) => {
                    let v = r.var;
                    let m = r.mask(self.vars, lv);
                    let mut cw = cont_k.clone();
                    cw[v] |= m;
                    self.reads_of(e, lv, false, &cw);
                    if self.comb && (self.ref_t[v] & m).any() {
                        // per bit: a referred bit under the write is textually unassigned
                        let rm = self.ref_t[v] & m;
                        if (rm & !self.asg_t[v]).any() {
                            self.emu_rbw[v] = true;
                        }
                    }
                    self.must[v] |= m;
                    self.may[v] |= m;
                    self.asg_t[v] |= m;
                    self.wseq += 1;
                }
                Stmt::If { c, t, e } => {
                    let empty: Vec<Stmt> = vec![];
                    let eb: &[Stmt] = e.as_deref().unwrap_or(&empty);
                    let mut cc = cont_k.clone();
                    may_writes(t, self.vars, lv, &mut cc);
                    may_writes(eb, self.vars, lv, &mut cc);
                    self.reads_of(c, lv, true, &cc);
                    self.emu_inner(&[t, eb], lv);
                    self.alternatives(&[t, eb], lv, &cont_k);
                }
                Stmt::Case { s, sw, arms, def } => {
                    let empty: Vec<Stmt> = vec![];
                    let mut cc = cont_k.clone();
                    for (_, b) in arms {
                        may_writes(b, self.vars, lv, &mut cc);
                    }
                    if let Some(d) = def {
                        may_writes(d, self.vars, lv, &mut cc);
                    }
                    self.reads_of(s, lv, true, &cc);
                    let mut bodies: Vec<&[Stmt]> = arms.iter().map(|a| a.1.as_slice()).collect();
                    let mut emu_bodies = bodies.clone();
                    match def {
                        Some(d) => {
                            bodies.push(d);
                            emu_bodies.push(d);
                        }
                        None => {
                            emu_bodies.push(&empty);
                            let full = case_is_full(*sw, arms);
                            if full {
                                self.has_full_case_nodefault = true;
                            }
                            if !full || self.ft {
                                bodies.push(&empty);
                            }
                        }
                    }
                    self.emu_inner(&emu_bodies, lv);
                    self.alternatives(&bodies, lv, &cont_k);
                }
                Stmt::Switch { arms, def } => {
                    let empty: Vec<Stmt> = vec![];
                    let mut cc = cont_k.clone();
                    for (_, b) in arms {
                        may_writes(b, self.vars, lv, &mut cc);
                    }
                    if let Some(d) = def {
                        may_writes(d, self.vars, lv, &mut cc);
                    }
                    for (c, _) in arms {
                        self.reads_of(c, lv, true, &cc);
                    }
                    let mut bodies: Vec<&[Stmt]> = arms.iter().map(|a| a.1.as_slice()).collect();
                    match def {
                        Some(d) => bodies.push(d),
                        None => bodies.push(&empty),
                    }
                    // the analyzer lowers `switch` to an if / else-if chain:
                    // same bit sets as the flat comparison
                    self.emu_inner(&bodies, lv);
                    self.alternatives(&bodies, lv, &cont_k);
                }
                Stmt::For { lo, hi, body } => {
                    for i in *lo..*hi {
                        let mut ci = cont_k.clone();
                        for j in i + 1..*hi {
                            may_writes(body, self.vars, Some(j), &mut ci);
                        }
                        self.block(body, Some(i), &ci);
                    }
                }
            }
        }
        let _ = n;
    }
}

struct CombRes {
    ub: Vec<Bits>,
    rbw_strict: Vec<Bits>,
    rbw_loose: Vec<Bits>,
    strict_items: Vec<(usize, Bits, bool, Bits)>,
    emu_rbw: Vec<bool>,
    emu_ub_inner: Vec<Bits>,
    full_case: bool,
}

fn walk_proc(vars: &[VarDecl], body: &[Stmt], comb: bool, ft: bool, reads: &mut Reads) -> CombRes {
    let n = vars.len();
    let mut wlist = vec![];
    write_list(body, vars, None, &mut wlist);
    let mut w = Walk {
        vars,
        ft,
        comb,
        must: vec![Bits::ZERO; n],
        may: vec![Bits::ZERO; n],
        wlist,
        wseq: 0,
        rbw_strict: vec![Bits::ZERO; n],
        rbw_loose: vec![Bits::ZERO; n],
        strict_items: vec![],
        ref_t: vec![Bits::ZERO; n],
        asg_t: vec![Bits::ZERO; n],
        emu_rbw: vec![false; n],
        emu_ub_inner: vec![Bits::ZERO; n],
        reads,
        has_full_case_nodefault: false,
    };
    let cont = vec![Bits::ZERO; n];
    w.block(body, None, &cont);
    let ub: Vec<Bits> = (0..n).map(|v| w.may[v] & !w.must[v]).collect();
    CombRes {
        ub,
        rbw_strict: w.rbw_strict,
        rbw_loose: w.rbw_loose,
        strict_items: w.strict_items,
        emu_rbw: w.emu_rbw,
        emu_ub_inner: w.emu_ub_inner,
        full_case: w.has_full_case_nodefault,
    }
}

pub fn analyse(dsg: &Design) -> Analysis {
    let vars = &dsg.vars;
    let n = vars.len();
    let mut classes = BTreeSet::new();
    // ---- writers per bit, assigned bits, reads --------------------------
    let mut writers: Vec<Vec<BTreeSet<usize>>> = vars.iter().map(|v| vec![BTreeSet::new(); v.bits()]).collect();
    let mut assigned = vec![Bits::ZERO; n];
    let mut reads: Reads = vec![[Bits::ZERO; 3]; n];
    let add_writes = |pi: usize, w: &[Bits], writers: &mut Vec<Vec<BTreeSet<usize>>>, assigned: &mut Vec<Bits>| {
        for v in 0..n {
            for b in 0..vars[v].bits() {
                if w[v].bit(b) {
                    writers[v][b].insert(pi);
                }
            }
            assigned[v] |= w[v];
        }
    };
    let mut comb_a: Vec<CombRes> = vec![];
    let mut comb_b: Vec<CombRes> = vec![];
    for (pi, p) in dsg.procs.iter().enumerate() {
        let mut w = vec![Bits::ZERO; n];
        match p {
            Proc::Assign(r, e) => {
                w[r.var] |= r.mask(vars, None);
                let mut rs = vec![];
                e.reads(&mut rs);
                for r in rs {
                    reads[r.var][0] |= r.mask(vars, None);
                }
            }
            Proc::Inst { ins, outs } => {
                for r in outs {
                    w[r.var] |= r.mask(vars, None);
                }
                for e in ins {
                    let mut rs = vec![];
                    e.reads(&mut rs);
                    for r in rs {
                        reads[r.var][2] |= r.mask(vars, None);
                    }
                }
            }
            Proc::Ff(b) => {
                may_writes(b, vars, None, &mut w);
                let _ = walk_proc(vars, b, false, true, &mut reads);
            }
            Proc::Comb(b) => {
                may_writes(b, vars, None, &mut w);
                let mut scratch: Reads = vec![[Bits::ZERO; 3]; n];
                comb_a.push(walk_proc(vars, b, true, true, &mut reads));
                comb_b.push(walk_proc(vars, b, true, false, &mut scratch));
            }
        }
        add_writes(pi, &w, &mut writers, &mut assigned);
    }
    // ---- verdicts ---------------------------------------------------------
    let mut out = vec![];
    for v in 0..n {
        let vd = &vars[v];
        let full = vd.full_mask();
        // MultipleAssignment
        let ma = writers[v].iter().any(|s| s.len() >= 2);
        // UncoveredBranch under both readings of a full case without default
        let ub_a = comb_a.iter().any(|c| c.ub[v].any());
        let ub_b = comb_b.iter().any(|c| c.ub[v].any());
        let ub = match (ub_a, ub_b) {
            (true, true) => Verdict::Must,
            (false, false) => Verdict::MustNot,
            _ => Verdict::Open,
        };
        let emu_inner = comb_a.iter().any(|c| c.emu_ub_inner[v].any());
        let ub_spurious_tag = if emu_inner { "covered-by-later-write" } else { "" };
        // UnassignVariable: never-assigned part
        let un = full & !assigned[v];
        let rd_any = reads[v][0] | reads[v][1] | reads[v][2];
        let ext = if vd.out { full } else { Bits::ZERO };
        let never_must = (un & (rd_any | ext)).any();
        let mut elem_all_unassigned = false;
        let mut never_plain = false;
        for e in 0..vd.elems {
            let em = mask((e + 1) * vd.width - 1, e * vd.width);
            let ue = un & em;
            if ue == em {
                elem_all_unassigned = true;
                never_plain = true; // reported whatever the reads are
            } else if (ue & (reads[v][0] | ext)).any() {
                never_plain = true;
            }
        }
        // read-before-assign part
        let st_a = comb_a.iter().any(|c| c.rbw_strict[v].any());
        let st_b = comb_b.iter().any(|c| c.rbw_strict[v].any());
        let loose = comb_a.iter().chain(comb_b.iter()).any(|c| c.rbw_loose[v].any());
        let rbw_must = st_a && st_b;
        let uv = if never_must || rbw_must {
            Verdict::Must
        } else if elem_all_unassigned || loose || st_a || st_b {
            Verdict::Open
        } else {
            Verdict::MustNot
        };
        // how a miss would be named
        let rbw_plain = comb_a.iter().any(|c| c.emu_rbw[v]);
        // a never-assigned read bit is reported whatever kind of read it is;
        // a read-before-assign is reported when the textual bookkeeping sees
        // it, otherwise the bit was assigned earlier in the text on another path
        let _ = never_plain;
        let uv_missing_tag = if never_must || rbw_plain {
            ""
        } else if comb_a.iter().flat_map(|c| c.strict_items.iter()).any(|i| i.0 == v) {
            "assigned-on-other-path"
        } else {
            ""
        };
        if ma {
            classes.insert("exp:MultipleAssignment".into());
        }
        match ub {
            Verdict::Must => {
                classes.insert("exp:UncoveredBranch".into());
            }
            Verdict::Open => {
                classes.insert("open:UncoveredBranch(full-case-no-default)".into());
            }
            _ => {}
        }
        match uv {
            Verdict::Must => {
                if never_must {
                    classes.insert("exp:UnassignVariable(never-assigned,read)".into());
                }
                if rbw_must {
                    classes.insert("exp:UnassignVariable(read-before-assign)".into());
                }
            }
            Verdict::Open => {
                if elem_all_unassigned {
                    classes.insert("open:UnassignVariable(unassigned,unread)".into());
                }
                if loose || st_a || st_b {
                    classes.insert("open:UnassignVariable(read/write on disjoint paths)".into());
                }
            }
            _ => {}
        }
        if un.any() && uv == Verdict::MustNot {
            classes.insert("boundary:partially-assigned,gap-unread".into());
        }
        out.push(VarExpect {
            ma: if ma { Verdict::Must } else { Verdict::MustNot },
            ub,
            uv,
            ub_spurious_tag,
            uv_missing_tag,
            uv_never: never_must,
            uv_rbw: rbw_must,
        });
    }
    if comb_a.iter().any(|c| c.full_case) {
        classes.insert("shape:full-case-no-default".into());
    }
    if out.iter().all(|e| e.ma != Verdict::Must && e.ub != Verdict::Must && e.uv != Verdict::Must) {
        classes.insert("exp:clean".into());
    }
    Analysis { vars: out, classes }
}
