//! The multi-domain dialect of C16: IR, Veryl printer (with annotation /
//! unsafe-wrapping variants) and the clock-domain model.  Nothing here looks
//! at the analyzer.
//!
//! Domains: two or three concrete ones (`'a`, `'b`, `'c`) and optionally the
//! implicit domain `'_` (input ports and clocks annotated `'_`; a different
//! domain from every named one, as `ClockDomain::compatible` documents).
//!
//! An *item* is one module-level declaration (assign, always_comb,
//! always_ff, instance).  It is a **crossing** when the signals it connects
//! do not all lie in one domain: left-hand sides, right-hand-side operands,
//! select indices, guarding conditions, the always_ff clock and reset; for an
//! instance, the parent-side signals connected to child ports of one child
//! domain.  Constants belong to no domain.

use std::collections::BTreeSet;
use std::fmt::Write;

#[derive(Clone, Copy, Debug, PartialEq, Eq, PartialOrd, Ord)]
pub enum Dom {
    A,
    B,
    C,
    /// the implicit domain `'_`
    U,
}

impl Dom {
    pub fn letter(self) -> &'static str {
        match self {
            Dom::A => "a",
            Dom::B => "b",
            Dom::C => "c",
            Dom::U => "u",
        }
    }
    fn ann(self) -> &'static str {
        match self {
            Dom::A => "'a ",
            Dom::B => "'b ",
            Dom::C => "'c ",
            Dom::U => "'_ ",
        }
    }
}

#[derive(Clone, Debug, PartialEq)]
pub enum Class {
    In,
    Out,
    Var,
    /// member of interface instance `k`
    Member(usize),
    Clk,
    Rst,
}

#[derive(Clone, Debug)]
pub struct Sig {
    pub name: String,
    pub w: usize,
    pub dom: Dom,
    pub class: Class,
}

pub type SigId = usize;

#[derive(Clone, Debug)]
pub enum Ex {
    K(usize, u64),
    /// signal, optional constant slice (hi, lo)
    S(SigId, Option<(usize, usize)>),
    /// `sig[idx]` with a signal as index (1 bit)
    Dyn(SigId, SigId),
    Not(Box<Ex>),
    Bin(char, Box<Ex>, Box<Ex>),
    Tern(Box<Ex>, Box<Ex>, Box<Ex>),
    Cat(Box<Ex>, Box<Ex>),
    /// module-level `const K<w>: logic<w>` (no clock domain)
    P(usize),
    /// `case sel { 2'd0: a, 2'd1: b, default: d }`
    CaseX(Box<Ex>, Box<Ex>, Box<Ex>, Box<Ex>),
    /// `switch { c: a, default: b }`
    SwitchX(Box<Ex>, Box<Ex>, Box<Ex>),
}

#[derive(Clone, Debug)]
pub enum LSel {
    All,
    Bit(usize),
    Dyn(SigId),
}

#[derive(Clone, Debug)]
pub enum Lhs {
    One(SigId, LSel),
    /// `{x, y} = …`
    Cat(SigId, SigId),
}

#[derive(Clone, Debug)]
pub enum IK {
    Assign { lhs: Lhs, rhs: Ex },
    /// `lhs = dflt; if c { lhs = then; }`
    Comb { lhs: Lhs, dflt: Ex, cond: Option<(Ex, Ex)> },
    /// `case sel { 2'd0: lhs = a; default: lhs = b; }`
    CombCase { lhs: Lhs, sel: Ex, a: Ex, b: Ex },
    /// `if c { lhs = a; } else { lhs = b; }`
    CombIf { lhs: Lhs, c: Ex, a: Ex, b: Ex },
    Ff { clk: Dom, rst: Option<Dom>, lhs: Lhs, cond: Option<Ex>, rhs: Ex },
    Inst { child: usize, ins: Vec<Ex>, outs: Vec<Lhs> },
}

#[derive(Clone, Debug)]
pub struct Item {
    pub kind: IK,
    pub unsafe_cdc: bool,
}

/// child module: port groups, one per child-side clock domain
#[derive(Clone, Debug)]
pub struct Child {
    /// (child domain letter or None = unannotated, input widths, output widths)
    pub groups: Vec<(Option<char>, Vec<usize>, Vec<usize>)>,
}

#[derive(Clone, Debug)]
pub struct IfInst {
    pub name: String,
    pub dom: Dom,
    pub members: Vec<SigId>,
}

#[derive(Clone, Debug)]
pub struct Design {
    pub doms: Vec<Dom>,
    pub sigs: Vec<Sig>,
    pub items: Vec<Item>,
    pub children: Vec<Child>,
    pub ifs: Vec<IfInst>,
    pub use_reset: bool,
}

/// how annotations are printed
#[derive(Clone, Debug, PartialEq)]
pub enum Mode {
    /// every signal carries its domain
    Full,
    /// like Full, but the listed signals (and interface instances) are left to inference
    Infer { sigs: BTreeSet<SigId>, ifs: BTreeSet<usize>, underscore: bool },
    /// every domain mapped to `'a`
    CollapseNamed,
    /// every domain mapped to `'_`
    CollapseUnderscore,
    /// no annotation at all, one clock / reset
    CollapseBare,
}

impl Mode {
    fn collapsed(&self) -> bool {
        matches!(self, Mode::CollapseNamed | Mode::CollapseUnderscore | Mode::CollapseBare)
    }
}

fn ty(w: usize) -> String {
    if w == 1 { "logic".into() } else { format!("logic<{w}>") }
}

impl Design {
    fn ann(&self, id: SigId, mode: &Mode) -> String {
        let s = &self.sigs[id];
        match mode {
            Mode::Full => s.dom.ann().into(),
            Mode::Infer { sigs, underscore, .. } => {
                if sigs.contains(&id) {
                    if *underscore { "'_ ".into() } else { String::new() }
                } else {
                    s.dom.ann().into()
                }
            }
            Mode::CollapseNamed => "'a ".into(),
            Mode::CollapseUnderscore => "'_ ".into(),
            Mode::CollapseBare => String::new(),
        }
    }

    fn clk_name(&self, d: Dom, mode: &Mode) -> String {
        if *mode == Mode::CollapseBare { "clk_a".into() } else { format!("clk_{}", d.letter()) }
    }
    fn rst_name(&self, d: Dom, mode: &Mode) -> String {
        if *mode == Mode::CollapseBare { "rst_a".into() } else { format!("rst_{}", d.letter()) }
    }

    pub fn ex_text(&self, e: &Ex) -> String {
        match e {
            Ex::K(w, v) => {
                if *w == 1 {
                    format!("1'b{}", v & 1)
                } else {
                    format!("{w}'d{}", v & ((1u64 << w) - 1))
                }
            }
            Ex::S(s, None) => self.sigs[*s].name.clone(),
            Ex::S(s, Some((h, l))) => {
                if h == l {
                    format!("{}[{h}]", self.sigs[*s].name)
                } else {
                    format!("{}[{h}:{l}]", self.sigs[*s].name)
                }
            }
            Ex::Dyn(s, i) => format!("{}[{}]", self.sigs[*s].name, self.sigs[*i].name),
            Ex::Not(a) => format!("~{}", self.atom(a)),
            Ex::Bin(op, a, b) => format!("{} {op} {}", self.atom(a), self.atom(b)),
            Ex::Tern(c, a, b) => format!("if {} ? {} : {}", self.atom(c), self.atom(a), self.atom(b)),
            Ex::P(w) => format!("K{w}"),
            Ex::CaseX(sel, a, b, d) => format!(
                "case {} {{ 2'd0: {}, 2'd1: {}, default: {} }}",
                self.atom(sel),
                self.atom(a),
                self.atom(b),
                self.atom(d)
            ),
            Ex::SwitchX(c, a, b) => format!("switch {{ {}: {}, default: {} }}", self.atom(c), self.atom(a), self.atom(b)),
            Ex::Cat(a, b) => format!("{{{}, {}}}", self.ex_text(a), self.ex_text(b)),
        }
    }
    fn atom(&self, e: &Ex) -> String {
        match e {
            Ex::Bin(..) | Ex::Tern(..) | Ex::CaseX(..) | Ex::SwitchX(..) => format!("({})", self.ex_text(e)),
            _ => self.ex_text(e),
        }
    }
    pub fn lhs_text(&self, l: &Lhs) -> String {
        match l {
            Lhs::One(s, LSel::All) => self.sigs[*s].name.clone(),
            Lhs::One(s, LSel::Bit(b)) => format!("{}[{b}]", self.sigs[*s].name),
            Lhs::One(s, LSel::Dyn(i)) => format!("{}[{}]", self.sigs[*s].name, self.sigs[*i].name),
            Lhs::Cat(a, b) => format!("{{{}, {}}}", self.sigs[*a].name, self.sigs[*b].name),
        }
    }

    /// Veryl text and, per item, its (first, last) 1-based line
    pub fn text(&self, mode: &Mode, wrap_all_crossings: bool) -> (String, Vec<(usize, usize)>) {
        let mut o = String::new();
        // interfaces
        for (k, ifc) in self.ifs.iter().enumerate() {
            let _ = writeln!(o, "interface Bus{k} {{");
            for m in &ifc.members {
                let s = &self.sigs[*m];
                let member = s.name.split('.').nth(1).unwrap();
                let _ = writeln!(o, "    var {member}: {};", ty(s.w));
            }
            let _ = writeln!(o, "}}\n");
        }
        // children
        for (k, ch) in self.children.iter().enumerate() {
            let _ = writeln!(o, "module Sub{k} (");
            for (g, (dl, ins, outs)) in ch.groups.iter().enumerate() {
                let ann = match dl {
                    Some(c) => format!("'{c} "),
                    None => String::new(),
                };
                for (j, w) in ins.iter().enumerate() {
                    let _ = writeln!(o, "    g{g}i{j}: input  {ann}{},", ty(*w));
                }
                for (j, w) in outs.iter().enumerate() {
                    let _ = writeln!(o, "    g{g}o{j}: output {ann}{},", ty(*w));
                }
            }
            let _ = writeln!(o, ") {{");
            for (g, (_, ins, outs)) in ch.groups.iter().enumerate() {
                for (j, w) in outs.iter().enumerate() {
                    match ins.iter().position(|x| x >= w) {
                        Some(i) if ins[i] == *w => {
                            let _ = writeln!(o, "    assign g{g}o{j} = g{g}i{i};");
                        }
                        Some(i) => {
                            let _ = writeln!(o, "    assign g{g}o{j} = g{g}i{i}[{}:0];", w - 1);
                        }
                        None => {
                            let _ = writeln!(o, "    assign g{g}o{j} = {};", self.ex_text(&Ex::K(*w, 1)));
                        }
                    }
                }
            }
            let _ = writeln!(o, "}}\n");
        }
        let _ = writeln!(o, "module Top (");
        let mut clk_done = false;
        let mut rst_done = false;
        for (id, s) in self.sigs.iter().enumerate() {
            let ann = self.ann(id, mode);
            match s.class {
                Class::Clk => {
                    if *mode == Mode::CollapseBare {
                        if clk_done {
                            continue;
                        }
                        clk_done = true;
                        let _ = writeln!(o, "    clk_a: input  clock,");
                    } else {
                        let _ = writeln!(o, "    {}: input  {ann}clock,", s.name);
                    }
                }
                Class::Rst => {
                    if *mode == Mode::CollapseBare {
                        if rst_done {
                            continue;
                        }
                        rst_done = true;
                        let _ = writeln!(o, "    rst_a: input  reset,");
                    } else {
                        let _ = writeln!(o, "    {}: input  {ann}reset,", s.name);
                    }
                }
                Class::In => {
                    let _ = writeln!(o, "    {}: input  {ann}{},", s.name, ty(s.w));
                }
                Class::Out => {
                    let _ = writeln!(o, "    {}: output {ann}{},", s.name, ty(s.w));
                }
                _ => {}
            }
        }
        let _ = writeln!(o, ") {{");
        let _ = writeln!(o, "    const K1: logic = 1'b1;");
        let _ = writeln!(o, "    const K2: logic<2> = 2'd2;");
        let _ = writeln!(o, "    const K4: logic<4> = 4'd9;");
        for (id, s) in self.sigs.iter().enumerate() {
            if s.class == Class::Var {
                let _ = writeln!(o, "    var {}: {}{};", s.name, self.ann(id, mode), ty(s.w));
            }
        }
        for (k, ifc) in self.ifs.iter().enumerate() {
            let ann = match mode {
                Mode::Full => ifc.dom.ann().to_string(),
                Mode::Infer { ifs, underscore, .. } => {
                    if ifs.contains(&k) {
                        if *underscore { "'_ ".into() } else { String::new() }
                    } else {
                        ifc.dom.ann().into()
                    }
                }
                Mode::CollapseNamed => "'a ".into(),
                Mode::CollapseUnderscore => "'_ ".into(),
                Mode::CollapseBare => String::new(),
            };
            let _ = writeln!(o, "    inst {}: {ann}Bus{k};", ifc.name);
        }
        let mut ranges = vec![];
        for (n, it) in self.items.iter().enumerate() {
            let first = o.lines().count() + 1;
            let wrap = it.unsafe_cdc || (wrap_all_crossings && self.item_crossing(it));
            let pad = if wrap {
                let _ = writeln!(o, "    unsafe (cdc) {{");
                "        "
            } else {
                "    "
            };
            match &it.kind {
                IK::Assign { lhs, rhs } => {
                    let _ = writeln!(o, "{pad}assign {} = {};", self.lhs_text(lhs), self.ex_text(rhs));
                }
                IK::Comb { lhs, dflt, cond } => {
                    let _ = writeln!(o, "{pad}always_comb {{");
                    let _ = writeln!(o, "{pad}    {} = {};", self.lhs_text(lhs), self.ex_text(dflt));
                    if let Some((c, t)) = cond {
                        let _ = writeln!(o, "{pad}    if {} {{", self.ex_text(c));
                        let _ = writeln!(o, "{pad}        {} = {};", self.lhs_text(lhs), self.ex_text(t));
                        let _ = writeln!(o, "{pad}    }}");
                    }
                    let _ = writeln!(o, "{pad}}}");
                }
                IK::CombCase { lhs, sel, a, b } => {
                    let _ = writeln!(o, "{pad}always_comb {{");
                    let _ = writeln!(o, "{pad}    case {} {{", self.ex_text(sel));
                    let _ = writeln!(o, "{pad}        2'd0: {} = {};", self.lhs_text(lhs), self.ex_text(a));
                    let _ = writeln!(o, "{pad}        default: {} = {};", self.lhs_text(lhs), self.ex_text(b));
                    let _ = writeln!(o, "{pad}    }}");
                    let _ = writeln!(o, "{pad}}}");
                }
                IK::CombIf { lhs, c, a, b } => {
                    let _ = writeln!(o, "{pad}always_comb {{");
                    let _ = writeln!(o, "{pad}    if {} {{", self.ex_text(c));
                    let _ = writeln!(o, "{pad}        {} = {};", self.lhs_text(lhs), self.ex_text(a));
                    let _ = writeln!(o, "{pad}    }} else {{");
                    let _ = writeln!(o, "{pad}        {} = {};", self.lhs_text(lhs), self.ex_text(b));
                    let _ = writeln!(o, "{pad}    }}");
                    let _ = writeln!(o, "{pad}}}");
                }
                IK::Ff { clk, rst, lhs, cond, rhs } => {
                    let ck = self.clk_name(*clk, mode);
                    match rst {
                        Some(r) => {
                            let _ = writeln!(o, "{pad}always_ff ({ck}, {}) {{", self.rst_name(*r, mode));
                            let _ = writeln!(o, "{pad}    if_reset {{");
                            let _ = writeln!(o, "{pad}        {} = 0;", self.lhs_text(&whole(lhs)));
                            match cond {
                                Some(c) => {
                                    let _ = writeln!(o, "{pad}    }} else if {} {{", self.ex_text(c));
                                }
                                None => {
                                    let _ = writeln!(o, "{pad}    }} else {{");
                                }
                            }
                            let _ = writeln!(o, "{pad}        {} = {};", self.lhs_text(lhs), self.ex_text(rhs));
                            let _ = writeln!(o, "{pad}    }}");
                        }
                        None => {
                            let _ = writeln!(o, "{pad}always_ff ({ck}) {{");
                            match cond {
                                Some(c) => {
                                    let _ = writeln!(o, "{pad}    if {} {{", self.ex_text(c));
                                    let _ = writeln!(o, "{pad}        {} = {};", self.lhs_text(lhs), self.ex_text(rhs));
                                    let _ = writeln!(o, "{pad}    }}");
                                }
                                None => {
                                    let _ = writeln!(o, "{pad}    {} = {};", self.lhs_text(lhs), self.ex_text(rhs));
                                }
                            }
                        }
                    }
                    let _ = writeln!(o, "{pad}}}");
                }
                IK::Inst { child, ins, outs } => {
                    let _ = writeln!(o, "{pad}inst u{n}: Sub{child} (");
                    let ch = &self.children[*child];
                    let (mut ii, mut oi) = (0, 0);
                    for (g, (_, gi, go)) in ch.groups.iter().enumerate() {
                        for j in 0..gi.len() {
                            let _ = writeln!(o, "{pad}    g{g}i{j}: {},", self.ex_text(&ins[ii]));
                            ii += 1;
                        }
                        for j in 0..go.len() {
                            let _ = writeln!(o, "{pad}    g{g}o{j}: {},", self.lhs_text(&outs[oi]));
                            oi += 1;
                        }
                    }
                    let _ = writeln!(o, "{pad});");
                }
            }
            if wrap {
                let _ = writeln!(o, "    }}");
            }
            ranges.push((first, o.lines().count()));
        }
        let _ = writeln!(o, "}}");
        let _ = mode.collapsed();
        (o, ranges)
    }

    // ---------------- the model ----------------------------------------

    fn ex_doms(&self, e: &Ex, out: &mut BTreeSet<Dom>) {
        match e {
            Ex::K(..) => {}
            Ex::S(s, _) => {
                out.insert(self.sigs[*s].dom);
            }
            Ex::Dyn(s, i) => {
                out.insert(self.sigs[*s].dom);
                out.insert(self.sigs[*i].dom);
            }
            Ex::Not(a) => self.ex_doms(a, out),
            Ex::Bin(_, a, b) | Ex::Cat(a, b) => {
                self.ex_doms(a, out);
                self.ex_doms(b, out);
            }
            Ex::Tern(c, a, b) | Ex::SwitchX(c, a, b) => {
                self.ex_doms(c, out);
                self.ex_doms(a, out);
                self.ex_doms(b, out);
            }
            Ex::P(_) => {}
            Ex::CaseX(s, a, b, d) => {
                self.ex_doms(s, out);
                self.ex_doms(a, out);
                self.ex_doms(b, out);
                self.ex_doms(d, out);
            }
        }
    }
    fn lhs_doms(&self, l: &Lhs, out: &mut BTreeSet<Dom>) {
        match l {
            Lhs::One(s, sel) => {
                out.insert(self.sigs[*s].dom);
                if let LSel::Dyn(i) = sel {
                    out.insert(self.sigs[*i].dom);
                }
            }
            Lhs::Cat(a, b) => {
                out.insert(self.sigs[*a].dom);
                out.insert(self.sigs[*b].dom);
            }
        }
    }

    /// the domain sets an item connects (one per instance port group)
    pub fn item_dom_sets(&self, it: &Item) -> Vec<BTreeSet<Dom>> {
        let mut s = BTreeSet::new();
        match &it.kind {
            IK::Assign { lhs, rhs } => {
                if let Lhs::Cat(a, b) = lhs {
                    // two independent destinations fed by one right-hand side:
                    // data moves from the rhs to each of them, not between them
                    let mut sets = vec![];
                    for t in [a, b] {
                        let mut st = BTreeSet::new();
                        st.insert(self.sigs[*t].dom);
                        self.ex_doms(rhs, &mut st);
                        sets.push(st);
                    }
                    return sets;
                }
                self.lhs_doms(lhs, &mut s);
                self.ex_doms(rhs, &mut s);
            }
            IK::Comb { lhs, dflt, cond } => {
                self.lhs_doms(lhs, &mut s);
                self.ex_doms(dflt, &mut s);
                if let Some((c, t)) = cond {
                    self.ex_doms(c, &mut s);
                    self.ex_doms(t, &mut s);
                }
            }
            IK::CombCase { lhs, sel: c, a, b } | IK::CombIf { lhs, c, a, b } => {
                self.lhs_doms(lhs, &mut s);
                self.ex_doms(c, &mut s);
                self.ex_doms(a, &mut s);
                self.ex_doms(b, &mut s);
            }
            IK::Ff { clk, rst, lhs, cond, rhs } => {
                s.insert(*clk);
                if let Some(r) = rst {
                    s.insert(*r);
                }
                self.lhs_doms(lhs, &mut s);
                if let Some(c) = cond {
                    self.ex_doms(c, &mut s);
                }
                self.ex_doms(rhs, &mut s);
            }
            IK::Inst { child, ins, outs } => {
                let ch = &self.children[*child];
                let (mut ii, mut oi) = (0, 0);
                let mut sets = vec![];
                for (_, gi, go) in &ch.groups {
                    let mut gs = BTreeSet::new();
                    for _ in 0..gi.len() {
                        self.ex_doms(&ins[ii], &mut gs);
                        ii += 1;
                    }
                    for _ in 0..go.len() {
                        self.lhs_doms(&outs[oi], &mut gs);
                        oi += 1;
                    }
                    sets.push(gs);
                }
                return sets;
            }
        }
        vec![s]
    }

    pub fn item_crossing(&self, it: &Item) -> bool {
        self.item_dom_sets(it).iter().any(|s| s.len() >= 2)
    }

    /// for an instance: the first connection of some crossing group carries
    /// no domain (a constant), so a first-connection-only comparison is blind
    pub fn inst_first_conn_constant(&self, it: &Item) -> bool {
        if let IK::Inst { child, ins, outs } = &it.kind {
            let ch = &self.children[*child];
            let (mut ii, mut oi) = (0, 0);
            for (_, gi, go) in &ch.groups {
                let mut gs = BTreeSet::new();
                let mut first_const = false;
                for j in 0..gi.len() {
                    let mut d = BTreeSet::new();
                    self.ex_doms(&ins[ii], &mut d);
                    if j == 0 && d.is_empty() {
                        first_const = true;
                    }
                    gs.extend(d);
                    ii += 1;
                }
                for _ in 0..go.len() {
                    self.lhs_doms(&outs[oi], &mut gs);
                    oi += 1;
                }
                if gs.len() >= 2 && first_const {
                    return true;
                }
            }
        }
        false
    }

    /// an always_ff with reset whose only foreign-domain signal is the
    /// `else if` condition after `if_reset`
    pub fn ff_reset_elsif_cond_only(&self, it: &Item) -> bool {
        if let IK::Ff { clk, rst: Some(r), lhs, cond: Some(_), rhs } = &it.kind {
            let mut s = BTreeSet::new();
            s.insert(*clk);
            s.insert(*r);
            self.lhs_doms(lhs, &mut s);
            self.ex_doms(rhs, &mut s);
            return s.len() == 1 && self.item_crossing(it);
        }
        false
    }

    /// signals an item writes
    pub fn item_targets(&self, it: &Item) -> Vec<SigId> {
        let mut v = vec![];
        let mut add = |l: &Lhs| match l {
            Lhs::One(s, _) => v.push(*s),
            Lhs::Cat(a, b) => {
                v.push(*a);
                v.push(*b);
            }
        };
        match &it.kind {
            IK::Assign { lhs, .. }
            | IK::Comb { lhs, .. }
            | IK::CombCase { lhs, .. }
            | IK::CombIf { lhs, .. }
            | IK::Ff { lhs, .. } => add(lhs),
            IK::Inst { outs, .. } => outs.iter().for_each(add),
        }
        v
    }

    fn ex_sigs(&self, e: &Ex, out: &mut Vec<SigId>) {
        match e {
            Ex::K(..) => {}
            Ex::S(s, _) => out.push(*s),
            Ex::Dyn(s, i) => {
                out.push(*s);
                out.push(*i);
            }
            Ex::Not(a) => self.ex_sigs(a, out),
            Ex::Bin(_, a, b) | Ex::Cat(a, b) => {
                self.ex_sigs(a, out);
                self.ex_sigs(b, out);
            }
            Ex::Tern(c, a, b) | Ex::SwitchX(c, a, b) => {
                self.ex_sigs(c, out);
                self.ex_sigs(a, out);
                self.ex_sigs(b, out);
            }
            Ex::P(_) => {}
            Ex::CaseX(s, a, b, d) => {
                self.ex_sigs(s, out);
                self.ex_sigs(a, out);
                self.ex_sigs(b, out);
                self.ex_sigs(d, out);
            }
        }
    }

    /// signals an item reads
    pub fn item_reads(&self, it: &Item) -> Vec<SigId> {
        let mut v = vec![];
        let lsel = |l: &Lhs, v: &mut Vec<SigId>| {
            if let Lhs::One(_, LSel::Dyn(i)) = l {
                v.push(*i)
            }
        };
        match &it.kind {
            IK::Assign { lhs, rhs } => {
                lsel(lhs, &mut v);
                self.ex_sigs(rhs, &mut v);
            }
            IK::Comb { lhs, dflt, cond } => {
                lsel(lhs, &mut v);
                self.ex_sigs(dflt, &mut v);
                if let Some((c, t)) = cond {
                    self.ex_sigs(c, &mut v);
                    self.ex_sigs(t, &mut v);
                }
            }
            IK::CombCase { lhs, sel: c, a, b } | IK::CombIf { lhs, c, a, b } => {
                lsel(lhs, &mut v);
                self.ex_sigs(c, &mut v);
                self.ex_sigs(a, &mut v);
                self.ex_sigs(b, &mut v);
            }
            IK::Ff { lhs, cond, rhs, .. } => {
                lsel(lhs, &mut v);
                if let Some(c) = cond {
                    self.ex_sigs(c, &mut v);
                }
                self.ex_sigs(rhs, &mut v);
            }
            IK::Inst { ins, .. } => {
                for e in ins {
                    self.ex_sigs(e, &mut v);
                }
            }
        }
        v
    }

    /// the right-hand sides of an assignment item (data only: no conditions)
    pub fn item_rhs_has_signal(&self, it: &Item) -> bool {
        let mut v = vec![];
        match &it.kind {
            IK::Assign { rhs, .. } => self.ex_sigs(rhs, &mut v),
            IK::Comb { dflt, cond, .. } => {
                // the first assignment decides the inference
                self.ex_sigs(dflt, &mut v);
                let _ = cond;
            }
            IK::CombCase { a, .. } | IK::CombIf { a, .. } => self.ex_sigs(a, &mut v),
            IK::Ff { .. } => return true, // inferred from the clock
            IK::Inst { .. } => return false,
        }
        !v.is_empty()
    }
}

fn whole(l: &Lhs) -> Lhs {
    match l {
        Lhs::One(s, _) => Lhs::One(*s, LSel::All),
        c => c.clone(),
    }
}
