//! In-process analyzer pipeline (parse → pass1 → post_pass1 → pass2 →
//! post_pass2), the way `veryl check` runs it.  Must be called on a fresh
//! thread per analysis (thread-local tables); `ctx.run` does that.

use miette::Diagnostic;
use std::path::Path;
use veryl_analyzer::ir::Ir;
use veryl_analyzer::{Analyzer, AnalyzerError, Context};
use veryl_metadata::Metadata;
use veryl_parser::Parser;

#[derive(Clone, Debug, PartialEq, Eq, PartialOrd, Ord)]
pub struct Diag {
    /// miette code, e.g. `multiple_assignment`
    pub code: String,
    /// the identifier the diagnostic names (empty if it names none)
    pub ident: String,
    pub is_error: bool,
    pub msg: String,
    /// label spans (byte offset, length) in the source
    pub spans: Vec<(usize, usize)>,
    /// for mismatch_clock_domain: the two domains as printed
    pub domains: (String, String),
}

fn to_diag(e: &AnalyzerError) -> Diag {
    let (ident, domains) = match e {
        AnalyzerError::MultipleAssignment { identifier, .. } => (identifier.clone(), Default::default()),
        AnalyzerError::UncoveredBranch { identifier, .. } => (identifier.clone(), Default::default()),
        AnalyzerError::UnassignVariable { identifier, .. } => (identifier.clone(), Default::default()),
        AnalyzerError::MismatchClockDomain {
            clock_domain,
            other_domain,
            ..
        } => (String::new(), (clock_domain.clone(), other_domain.clone())),
        _ => (String::new(), Default::default()),
    };
    Diag {
        code: e.code().map(|c| c.to_string()).unwrap_or_default(),
        ident,
        is_error: e.is_error(),
        msg: e.to_string(),
        spans: e
            .labels()
            .map(|l| l.map(|x| (x.offset(), x.len())).collect())
            .unwrap_or_default(),
        domains,
    }
}

/// `None` if the text does not parse.
pub fn analyze(src: &str) -> Option<Vec<Diag>> {
    let md = Metadata::create_default("prj").expect("default metadata");
    let parser = Parser::parse(src, &Path::new("drv.veryl")).ok()?;
    let prj = md.project.name.clone();
    let analyzer = Analyzer::new(&md);
    let mut diags = Vec::new();
    for e in analyzer.analyze_pass1(&prj, &parser.veryl) {
        diags.push(to_diag(&e));
    }
    for e in Analyzer::analyze_post_pass1() {
        diags.push(to_diag(&e));
    }
    let mut context = Context::default();
    let mut ir = Ir::default();
    for e in analyzer.analyze_pass2(&parser.veryl, &mut context, Some(&mut ir)) {
        diags.push(to_diag(&e));
    }
    for e in Analyzer::analyze_post_pass2(&ir) {
        diags.push(to_diag(&e));
    }
    analyzer.clear();
    Some(diags)
}

/// 1-based line of a byte offset.
pub fn line_of(src: &str, off: usize) -> usize {
    src.as_bytes()[..off.min(src.len())].iter().filter(|b| **b == b'\n').count() + 1
}

/// `analyze` on a thread of its own: several analyses inside one case must
/// not share the analyzer's thread-local tables (`Analyzer::clear` leaves
/// e.g. the unsafe table of the previous text behind).  A panic is re-raised.
pub fn analyze_fresh(src: &str) -> Option<Vec<Diag>> {
    let r = std::thread::scope(|s| {
        std::thread::Builder::new()
            .stack_size(8 << 20)
            .spawn_scoped(s, || analyze(src))
            .expect("spawn")
            .join()
    });
    match r {
        Ok(x) => x,
        Err(p) => std::panic::resume_unwind(p),
    }
}
