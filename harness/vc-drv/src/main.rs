mod c15;
mod c16;
mod cdc_ir;
mod drv_gen;
mod drv_ir;
mod drv_model;
mod pipe;

fn main() {
    let args: Vec<String> = std::env::args().skip(1).collect();
    let id = args.first().cloned().unwrap_or_default();
    if id == "probe" {
        // developer aid: `vc-drv probe FILE...` prints the analyzer diagnostics
        for f in &args[1..] {
            let src = std::fs::read_to_string(f).expect("read");
            // designs separated by lines of `-----` are analysed independently
            for (i, part) in src.split("\n-----\n").enumerate() {
                let part = part.to_string();
                let r = std::thread::Builder::new()
                    .stack_size(8 << 20)
                    .spawn(move || pipe::analyze(&part).map(|d| (d, part)))
                    .unwrap()
                    .join();
                println!("== {f} #{i}");
                match r {
                    Ok(Some((ds, part))) => {
                        for d in ds {
                            let lines: Vec<usize> = d.spans.iter().map(|s| pipe::line_of(&part, s.0)).collect();
                            println!(
                                "  {}{} ident={:?} lines={:?} dom={:?} :: {}",
                                if d.is_error { "E " } else { "W " },
                                d.code,
                                d.ident,
                                lines,
                                d.domains,
                                d.msg
                            );
                        }
                    }
                    Ok(None) => println!("  PARSE ERROR"),
                    Err(_) => println!("  PANIC"),
                }
            }
        }
        return;
    }
    vcore::quiet_panics();
    let ctx = vcore::Ctx::new(&id, &args[1.min(args.len())..]);
    match id.as_str() {
        "C15" => c15::run(&ctx),
        "C16" => c16::run(&ctx),
        _ => {
            eprintln!("unknown property id {id:?}");
            std::process::exit(2);
        }
    }
}
