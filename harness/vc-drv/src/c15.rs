//! C15 — driver, latch and read-before-assign checks are exact.
//!
//! Generator: `drv_gen` (driver dialect around the boundary).  Oracle:
//! `drv_model` (property text on the harness' own IR).  Compared on the set
//! of (diagnostic kind, variable); any other *error* makes the design fall
//! outside the domain (skipped, counted).

use crate::drv_gen;
use crate::drv_model::{self, Verdict};
use crate::pipe;
use std::collections::BTreeSet;
use vcore::{CaseCfg, Ctx, Draw, Outcome, hash_str, json};

const KINDS: [(&str, &str); 3] = [
    ("multiple_assignment", "MultipleAssignment"),
    ("uncovered_branch", "UncoveredBranch"),
    ("unassign_variable", "UnassignVariable"),
];

fn base_name(ident: &str) -> &str {
    let end = ident.find(['[', '.']).unwrap_or(ident.len());
    &ident[..end]
}

pub fn decide(d: &mut Draw) -> Outcome {
    let g = drv_gen::generate(d);
    let text = g.design.text();
    let an = drv_model::analyse(&g.design);
    let Some(diags) = pipe::analyze(&text) else {
        return Outcome::fail("harness:generated-design-does-not-parse", "generated design does not parse", json!({"src": text}));
    };
    // anything else that is an error: outside the domain
    let mut actual: BTreeSet<(usize, usize)> = BTreeSet::new();
    for dg in &diags {
        if let Some(k) = KINDS.iter().position(|k| k.0 == dg.code) {
            let name = base_name(&dg.ident);
            match g.design.vars.iter().position(|v| v.name == name) {
                Some(vi) => {
                    actual.insert((k, vi));
                }
                None => {
                    return Outcome::skip(format!("{} names something that is not a variable under test", dg.code));
                }
            }
        } else if dg.is_error {
            if std::env::var("C15_SKIPDUMP").ok().as_deref() == Some(dg.code.as_str()) {
                println!("--- skipped ({}: {}) ---\n{text}", dg.code, dg.msg);
            }
            return Outcome::skip(format!("other error: {}", dg.code));
        }
    }
    let mut problems: Vec<(String, String)> = vec![];
    let mut open_hits = 0;
    for (vi, ex) in an.vars.iter().enumerate() {
        let name = &g.design.vars[vi].name;
        let checks = [(0usize, ex.ma), (1, ex.ub), (2, ex.uv)];
        for (k, verdict) in checks {
            let got = actual.contains(&(k, vi));
            match (verdict, got) {
                (Verdict::Must, false) => {
                    let tag = if k == 2 { ex.uv_missing_tag } else { "" };
                    let sig = if tag.is_empty() {
                        format!("{}-missing", KINDS[k].1)
                    } else {
                        format!("{}-missing:{tag}", KINDS[k].1)
                    };
                    let why = if k == 2 {
                        format!(
                            " (never-assigned bit read: {}, read before assignment on a path: {})",
                            ex.uv_never, ex.uv_rbw
                        )
                    } else {
                        String::new()
                    };
                    problems.push((sig, format!("{} expected for `{name}` but not reported{why}", KINDS[k].1)));
                }
                (Verdict::MustNot, true) => {
                    let tag = if k == 1 { ex.ub_spurious_tag } else { "" };
                    let sig = if tag.is_empty() {
                        format!("{}-spurious", KINDS[k].1)
                    } else {
                        format!("{}-spurious:{tag}", KINDS[k].1)
                    };
                    problems.push((sig, format!("{} reported for `{name}` but the property does not allow it", KINDS[k].1)));
                }
                (Verdict::Open, _) => open_hits += 1,
                _ => {}
            }
        }
    }
    if !problems.is_empty() {
        // unnamed root causes first, so that a new deviation is never hidden
        // behind a listed one in the same design
        problems.sort_by_key(|p| (p.0.contains(':'), p.0.clone()));
        let sig = problems[0].0.clone();
        let msg = problems.iter().map(|p| format!("[{}] {}", p.0, p.1)).collect::<Vec<_>>().join("\n");
        let reported: Vec<String> = actual
            .iter()
            .map(|(k, v)| format!("{}({})", KINDS[*k].1, g.design.vars[*v].name))
            .collect();
        return Outcome::fail(
            sig,
            format!("{msg}\nreported: {reported:?}\n--- design ---\n{text}"),
            json!({"src": text, "reported": reported}),
        );
    }
    let mut classes: Vec<String> = g.classes.iter().cloned().collect();
    classes.extend(an.classes.iter().cloned());
    if open_hits > 0 {
        classes.push("has-open-verdict".into());
    }
    let expected_any = an
        .vars
        .iter()
        .any(|e| e.ma == Verdict::Must || e.ub == Verdict::Must || e.uv == Verdict::Must);
    classes.push(if actual.is_empty() { "verdict:clean".into() } else { "verdict:diagnosed".into() });
    Outcome::pass(hash_str(&text), expected_any || g.boundary, classes, text)
}

/// `VERIF_EXPOSE=<signature>`: report failures with that (listed) signature
/// as if they were unlisted, so that the runner shrinks one and writes its
/// replay file — this is how the reproducers under /verif/known are made.
pub fn expose(o: Outcome) -> Outcome {
    match (o, std::env::var("VERIF_EXPOSE").ok()) {
        (Outcome::Fail(mut f), Some(e)) if f.signature == e => {
            f.signature.push_str("#exposed");
            Outcome::Fail(f)
        }
        (o, _) => o,
    }
}

/// `VERIF_SHRINK=n` bounds the shrinking effort (sensitivity runs on a busy machine)
pub fn shrink_cfg(cfg: CaseCfg) -> CaseCfg {
    match std::env::var("VERIF_SHRINK").ok().and_then(|v| v.parse::<u32>().ok()) {
        Some(n) => cfg.shrink_iters(n),
        None => cfg,
    }
}

pub fn run(ctx: &Ctx) {
    if std::env::var("C15_DUMP").is_ok() {
        // developer aid: print a few generated designs
        for s in 0..6u32 {
            let mut d = Draw::new((0..800u32).map(|i| vcore::hash64(format!("{s}/{i}").as_bytes()) as u32).collect());
            let g = drv_gen::generate(&mut d);
            println!("{}\n-----", g.design.text());
        }
        std::process::exit(0);
    }
    let n = ctx.scale(4000, 100_000);
    ctx.run("drivers", shrink_cfg(CaseCfg::cases(n).choices(1500)), |d: &mut Draw| expose(decide(d)));
    ctx.assume("paths of an always_comb are its syntactic paths (every branch combination); a process is one always_ff / always_comb / assign / instance");
    ctx.assume("an output port is read by the parent; reads are right-hand sides, conditions, case selectors and instance inputs");
    ctx.assume("open cases accepted either way: full `case` without default; unassigned-and-unread variable; read and write on disjoint arms");
    ctx.finish(
        "exploration",
        "driver-dialect designs (segment-first write plans around adjacent/overlapping/gapped ranges, branch shapes complete or incomplete by one arm / one bit); non-trivial = at least one diagnostic expected or a boundary split present; distinct by source text",
    );
}
